// rxlang: regular-language analysis of zerv's parser regexes (DESIGN.md E3).
// stdin: JSON {patterns:{name:{pat,unicode,ascii_groups}}, compare:[[a,b]..]}
// stdout: JSON with per-pattern structure and, per comparison, language equality
// over ALL byte strings with a shortest witness per direction.
use regex_automata::dfa::{dense, Automaton, StartKind};
use regex_automata::nfa::thompson;
use regex_automata::util::primitives::StateID;
use regex_automata::{Anchored, Input, MatchKind};
use regex_syntax::hir::{self, Hir, HirKind};
use serde_json::{json, Value};
use std::collections::{HashMap, VecDeque};
use std::io::Read;

type Dfa = dense::DFA<Vec<u32>>;

fn ascii_class() -> hir::ClassUnicode {
    hir::ClassUnicode::new([hir::ClassUnicodeRange::new('\0', '\x7f')])
}

/// Rebuild `h`, intersecting every character class inside the named groups in
/// `groups` with ASCII.  `inside` = currently below such a group.
fn restrict(h: &Hir, groups: &[String], inside: bool) -> Hir {
    match h.kind() {
        HirKind::Empty => Hir::empty(),
        HirKind::Literal(l) => Hir::literal(l.0.clone()),
        HirKind::Look(l) => Hir::look(*l),
        HirKind::Class(c) => {
            if !inside {
                return Hir::class(c.clone());
            }
            match c {
                hir::Class::Unicode(u) => {
                    let mut u = u.clone();
                    u.intersect(&ascii_class());
                    Hir::class(hir::Class::Unicode(u))
                }
                hir::Class::Bytes(b) => {
                    let mut b = b.clone();
                    b.intersect(&hir::ClassBytes::new([hir::ClassBytesRange::new(0, 0x7f)]));
                    Hir::class(hir::Class::Bytes(b))
                }
            }
        }
        HirKind::Repetition(r) => Hir::repetition(hir::Repetition {
            min: r.min,
            max: r.max,
            greedy: r.greedy,
            sub: Box::new(restrict(&r.sub, groups, inside)),
        }),
        HirKind::Capture(c) => {
            let named_in = c
                .name
                .as_ref()
                .map(|n| groups.iter().any(|g| g.as_str() == &**n))
                .unwrap_or(false);
            Hir::capture(hir::Capture {
                index: c.index,
                name: c.name.clone(),
                sub: Box::new(restrict(&c.sub, groups, inside || named_in)),
            })
        }
        HirKind::Concat(v) => Hir::concat(v.iter().map(|x| restrict(x, groups, inside)).collect()),
        HirKind::Alternation(v) => {
            Hir::alternation(v.iter().map(|x| restrict(x, groups, inside)).collect())
        }
    }
}

fn parse(pat: &str, unicode: bool) -> Result<Hir, String> {
    regex_syntax::ParserBuilder::new()
        .unicode(unicode)
        .utf8(unicode)
        .build()
        .parse(pat)
        .map_err(|e| format!("{}", e))
}

fn build(h: &Hir, unicode: bool) -> Result<Dfa, String> {
    let nfa = thompson::Compiler::new()
        .configure(thompson::Config::new().utf8(unicode).shrink(false))
        .build_from_hir(h)
        .map_err(|e| format!("{}", e))?;
    dense::Builder::new()
        .configure(
            dense::Config::new()
                .start_kind(StartKind::Anchored)
                .match_kind(MatchKind::All)
                .minimize(true)
                .byte_classes(false),
        )
        .build_from_nfa(&nfa)
        .map_err(|e| format!("{}", e))
}

fn start(d: &Dfa) -> StateID {
    d.start_state_forward(&Input::new("").anchored(Anchored::Yes)).expect("start")
}

fn accepts_at_eoi(d: &Dfa, s: StateID) -> bool {
    d.is_match_state(d.next_eoi_state(s))
}

/// BFS over the product; returns (pairs explored, shortest w in L(a)\L(b), shortest w in L(b)\L(a))
fn product(a: &Dfa, b: &Dfa) -> (usize, Option<Vec<u8>>, Option<Vec<u8>>) {
    let s0 = (start(a), start(b));
    let mut parent: HashMap<(StateID, StateID), Option<((StateID, StateID), u8)>> = HashMap::new();
    parent.insert(s0, None);
    let mut q = VecDeque::new();
    q.push_back(s0);
    let mut a_not_b: Option<(StateID, StateID)> = None;
    let mut b_not_a: Option<(StateID, StateID)> = None;
    while let Some((x, y)) = q.pop_front() {
        let ma = accepts_at_eoi(a, x);
        let mb = accepts_at_eoi(b, y);
        if ma && !mb && a_not_b.is_none() {
            a_not_b = Some((x, y));
        }
        if mb && !ma && b_not_a.is_none() {
            b_not_a = Some((x, y));
        }
        for byte in 0u16..256 {
            let byte = byte as u8;
            let nx = a.next_state(x, byte);
            let ny = b.next_state(y, byte);
            if a.is_dead_state(nx) && b.is_dead_state(ny) {
                continue;
            }
            if !parent.contains_key(&(nx, ny)) {
                parent.insert((nx, ny), Some(((x, y), byte)));
                q.push_back((nx, ny));
            }
        }
    }
    let recon = |mut s: (StateID, StateID)| {
        let mut w = vec![];
        while let Some(Some((p, b))) = parent.get(&s) {
            w.push(*b);
            s = *p;
        }
        w.reverse();
        w
    };
    (parent.len(), a_not_b.map(recon), b_not_a.map(recon))
}

fn count_states(d: &Dfa) -> usize {
    let mut seen = std::collections::HashSet::new();
    let mut q = vec![start(d)];
    seen.insert(start(d));
    while let Some(s) = q.pop() {
        for b in 0u16..256 {
            let n = d.next_state(s, b as u8);
            if seen.insert(n) {
                q.push(n);
            }
        }
    }
    seen.len()
}

fn class_chars(c: &hir::Class) -> (Vec<char>, bool) {
    // ASCII members and whether the class has non-ASCII members
    let mut out = vec![];
    let mut non_ascii = false;
    match c {
        hir::Class::Unicode(u) => {
            for r in u.iter() {
                let (s, e) = (r.start() as u32, r.end() as u32);
                if e > 0x7f {
                    non_ascii = true;
                }
                for cp in s..=e.min(0x7f) {
                    out.push(char::from_u32(cp).unwrap());
                }
            }
        }
        hir::Class::Bytes(b) => {
            for r in b.iter() {
                if r.end() > 0x7f {
                    non_ascii = true;
                }
                for cp in r.start()..=r.end().min(0x7f) {
                    out.push(cp as char);
                }
            }
        }
    }
    (out, non_ascii)
}

/// A word-like alternative (concat of literals / small classes): lower-case ASCII
/// representative plus the full per-position member sets.
fn word_of(h: &Hir) -> Option<(String, bool, Vec<String>)> {
    let mut rep = String::new();
    let mut non_ascii = false;
    let mut sets = vec![];
    let parts: Vec<&Hir> = match h.kind() {
        HirKind::Concat(v) => v.iter().collect(),
        _ => vec![h],
    };
    for p in parts {
        match p.kind() {
            HirKind::Literal(l) => {
                let s = std::str::from_utf8(&l.0).ok()?;
                for ch in s.chars() {
                    rep.push(ch.to_ascii_lowercase());
                    sets.push(ch.to_string());
                }
            }
            HirKind::Class(c) => {
                let (chars, na) = class_chars(c);
                non_ascii |= na;
                if chars.is_empty() || chars.len() > 4 {
                    return None;
                }
                let lower: Vec<char> = chars.iter().filter(|c| c.is_ascii_lowercase()).cloned().collect();
                rep.push(*lower.first().unwrap_or(&chars[0]));
                let mut s: String = chars.iter().collect();
                if na {
                    if let hir::Class::Unicode(u) = c {
                        for r in u.iter() {
                            if (r.end() as u32) > 0x7f {
                                let mut cp = (r.start() as u32).max(0x80);
                                while cp <= r.end() as u32 && s.chars().count() < 12 {
                                    if let Some(ch) = char::from_u32(cp) {
                                        s.push(ch);
                                    }
                                    cp += 1;
                                }
                            }
                        }
                    }
                }
                sets.push(s);
            }
            _ => return None,
        }
    }
    Some((rep, non_ascii, sets))
}

fn has_unbounded(h: &Hir) -> bool {
    match h.kind() {
        HirKind::Repetition(r) => r.max.is_none() || has_unbounded(&r.sub),
        HirKind::Capture(c) => has_unbounded(&c.sub),
        HirKind::Concat(v) | HirKind::Alternation(v) => v.iter().any(has_unbounded),
        _ => false,
    }
}

fn has_non_ascii_class(h: &Hir) -> bool {
    match h.kind() {
        HirKind::Class(c) => class_chars(c).1,
        HirKind::Repetition(r) => has_non_ascii_class(&r.sub),
        HirKind::Capture(c) => has_non_ascii_class(&c.sub),
        HirKind::Concat(v) | HirKind::Alternation(v) => v.iter().any(has_non_ascii_class),
        _ => false,
    }
}

struct DCtx {
    parent: Option<String>,
    mandatory_in_parent: bool,
    alt_path: Vec<(usize, usize)>,
    next_alt: usize,
}

fn describe(h: &Hir, cx: &mut DCtx, prev_lit: Option<String>, out: &mut Vec<Value>) {
    match h.kind() {
        HirKind::Capture(c) => {
            if let Some(n) = &c.name {
                let alts: Option<Vec<Value>> = match c.sub.kind() {
                    HirKind::Alternation(v) => v
                        .iter()
                        .map(|a| word_of(a).map(|(r, na, sets)| json!({"word": r, "non_ascii": na, "sets": sets})))
                        .collect(),
                    _ => word_of(&c.sub).map(|(r, na, sets)| vec![json!({"word": r, "non_ascii": na, "sets": sets})]),
                };
                out.push(json!({
                    "name": &**n,
                    "index": c.index,
                    "parent": cx.parent,
                    "mandatory": cx.mandatory_in_parent,
                    "alt_path": cx.alt_path.iter().map(|(a, b)| json!([a, b])).collect::<Vec<_>>(),
                    "unbounded": has_unbounded(&c.sub),
                    "non_ascii_class": has_non_ascii_class(&c.sub),
                    "alternatives": alts,
                    "preceding_literal": prev_lit,
                }));
                let saved_parent = cx.parent.clone();
                let saved_m = cx.mandatory_in_parent;
                cx.parent = Some(n.to_string());
                cx.mandatory_in_parent = true;
                describe(&c.sub, cx, None, out);
                cx.parent = saved_parent;
                cx.mandatory_in_parent = saved_m;
            } else {
                describe(&c.sub, cx, None, out);
            }
        }
        HirKind::Repetition(r) => {
            let saved = cx.mandatory_in_parent;
            cx.mandatory_in_parent = saved && r.min >= 1;
            describe(&r.sub, cx, None, out);
            cx.mandatory_in_parent = saved;
        }
        HirKind::Concat(v) => {
            let mut prev: Option<String> = None;
            for x in v {
                describe(x, cx, prev.clone(), out);
                prev = match x.kind() {
                    HirKind::Literal(l) => std::str::from_utf8(&l.0).ok().map(|s| s.to_string()),
                    _ => None,
                };
            }
        }
        HirKind::Alternation(v) => {
            let id = cx.next_alt;
            cx.next_alt += 1;
            let saved = cx.mandatory_in_parent;
            cx.mandatory_in_parent = false;
            for (i, x) in v.iter().enumerate() {
                cx.alt_path.push((id, i));
                describe(x, cx, None, out);
                cx.alt_path.pop();
            }
            cx.mandatory_in_parent = saved;
        }
        _ => {}
    }
}

fn witness_json(w: Option<Vec<u8>>) -> Value {
    match w {
        None => Value::Null,
        Some(b) => json!({"bytes": b, "text": String::from_utf8_lossy(&b)}),
    }
}

fn main() {
    let mut s = String::new();
    std::io::stdin().read_to_string(&mut s).unwrap();
    let req: Value = serde_json::from_str(&s).expect("bad request json");
    let mut dfas: HashMap<String, Dfa> = HashMap::new();
    let mut pats_out = serde_json::Map::new();
    for (name, spec) in req["patterns"].as_object().expect("patterns") {
        let pat = spec["pat"].as_str().unwrap();
        let unicode = spec["unicode"].as_bool().unwrap_or(true);
        let groups: Vec<String> = spec["ascii_groups"]
            .as_array()
            .map(|a| a.iter().map(|x| x.as_str().unwrap().to_string()).collect())
            .unwrap_or_default();
        let mut o = serde_json::Map::new();
        match parse(pat, unicode) {
            Err(e) => {
                o.insert("ok".into(), json!(false));
                o.insert("error".into(), json!(e));
            }
            Ok(h) => {
                let h2 = if groups.is_empty() { h.clone() } else { restrict(&h, &groups, false) };
                let mut g = vec![];
                let mut dcx = DCtx { parent: None, mandatory_in_parent: true, alt_path: vec![], next_alt: 0 };
                describe(&h, &mut dcx, None, &mut g);
                o.insert("groups".into(), Value::Array(g));
                match build(&h2, unicode) {
                    Ok(d) => {
                        o.insert("ok".into(), json!(true));
                        o.insert("dfa_states".into(), json!(count_states(&d)));
                        o.insert("dfa_bytes".into(), json!(d.memory_usage()));
                        dfas.insert(name.clone(), d);
                    }
                    Err(e) => {
                        o.insert("ok".into(), json!(false));
                        o.insert("error".into(), json!(e));
                    }
                }
            }
        }
        pats_out.insert(name.clone(), Value::Object(o));
    }
    let mut cmp_out = vec![];
    if let Some(cs) = req["compare"].as_array() {
        for c in cs {
            let a = c[0].as_str().unwrap();
            let b = c[1].as_str().unwrap();
            match (dfas.get(a), dfas.get(b)) {
                (Some(da), Some(db)) => {
                    let (n, ab, ba) = product(da, db);
                    cmp_out.push(json!({
                        "a": a, "b": b, "ok": true,
                        "equal": ab.is_none() && ba.is_none(),
                        "product_pairs": n,
                        "a_not_b": witness_json(ab),
                        "b_not_a": witness_json(ba),
                    }));
                }
                _ => cmp_out.push(json!({"a": a, "b": b, "ok": false})),
            }
        }
    }
    println!("{}", json!({"patterns": pats_out, "compare": cmp_out}));
}
