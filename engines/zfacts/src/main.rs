// zfacts: rustc_private driver that exports a MIR-lite fact base of the crate being
// compiled as one JSON file (one write per process).  Injected through
// RUSTC_WORKSPACE_WRAPPER; see /verif/DESIGN.md section 2 (E1).
//
// Nothing here decides a property; it only serialises what rustc resolved:
// functions, basic blocks, statements, terminators with resolved callees,
// evaluated constants, places with named field projections, ADTs and impls.
#![feature(rustc_private)]
#![allow(clippy::all)]

extern crate rustc_abi;
extern crate rustc_data_structures;
extern crate rustc_driver;
extern crate rustc_hir;
extern crate rustc_interface;
extern crate rustc_middle;
extern crate rustc_session;
extern crate rustc_span;

use rustc_driver::Compilation;
use rustc_hir::def::DefKind;
use rustc_hir::def_id::{DefId, LocalDefId};
use rustc_interface::interface::Compiler;
use rustc_middle::mir::{
    self, AggregateKind, BinOp, Body, CastKind, Const as MirConst, ConstValue, Operand, Place,
    PlaceTy, ProjectionElem, Rvalue, StatementKind, TerminatorKind, UnOp,
};
use rustc_middle::ty::print::{with_crate_prefix, with_no_trimmed_paths, PrintTraitRefExt};
use rustc_middle::ty::{self, Ty, TyCtxt};
use rustc_span::{Span, DUMMY_SP};
use std::fmt::Write as _;

mod json;
use json::J;

struct Cb {
    out_dir: String,
}

fn nt<T>(f: impl FnOnce() -> T) -> T {
    with_crate_prefix!(with_no_trimmed_paths!(f()))
}

fn dps(tcx: TyCtxt<'_>, did: DefId) -> String {
    nt(|| tcx.def_path_str(did))
}

fn ty_s(ty: Ty<'_>) -> String {
    nt(|| format!("{}", ty))
}

struct Ctx<'tcx> {
    tcx: TyCtxt<'tcx>,
}

impl<'tcx> Ctx<'tcx> {
    fn span_s(&self, sp: Span) -> J {
        let sm = self.tcx.sess.source_map();
        let lo = sm.lookup_char_pos(sp.lo());
        let hi = sm.lookup_char_pos(sp.hi());
        let file = match &lo.file.name {
            rustc_span::FileName::Real(r) => r
                .local_path()
                .map(|p| p.display().to_string())
                .unwrap_or_else(|| format!("{:?}", r)),
            o => format!("{:?}", o),
        };
        J::arr(vec![J::s(file), J::i(lo.line as i128), J::i(hi.line as i128)])
    }

    fn line(&self, sp: Span) -> J {
        // line of the outermost call site for macro expansions, so that a report points
        // at user code
        let sp = sp.source_callsite();
        let sm = self.tcx.sess.source_map();
        let lo = sm.lookup_char_pos(sp.lo());
        J::i(lo.line as i128)
    }

    fn place(&self, body: &Body<'tcx>, owner: DefId, p: Place<'tcx>) -> J {
        let tcx = self.tcx;
        let mut v = vec![J::i(p.local.as_u32() as i128)];
        let mut pty = PlaceTy::from_ty(body.local_decls[p.local].ty);
        for elem in p.projection.iter() {
            let e = match elem {
                ProjectionElem::Deref => J::s("*"),
                ProjectionElem::Field(f, _) => {
                    let (owner_name, fname) = match pty.ty.kind() {
                        ty::Adt(def, _) => {
                            let vi = pty.variant_index.unwrap_or(rustc_abi::FIRST_VARIANT);
                            let var = def.variant(vi);
                            let mut on = dps(tcx, def.did());
                            if def.is_enum() {
                                on.push_str("::");
                                on.push_str(var.name.as_str());
                            }
                            (on, var.fields[f].name.as_str().to_string())
                        }
                        ty::Closure(cdid, _) => {
                            let name = cdid
                                .as_local()
                                .and_then(|l| {
                                    tcx.closure_captures(l)
                                        .get(f.as_usize())
                                        .map(|c| c.to_string(tcx))
                                })
                                .unwrap_or_else(|| format!("{}", f.as_u32()));
                            (format!("closure {}", dps(tcx, *cdid)), name)
                        }
                        ty::Tuple(_) => ("tuple".to_string(), format!("{}", f.as_u32())),
                        _ => (ty_s(pty.ty), format!("{}", f.as_u32())),
                    };
                    J::arr(vec![J::s("f"), J::i(f.as_u32() as i128), J::s(fname), J::s(owner_name)])
                }
                ProjectionElem::Index(l) => J::arr(vec![J::s("i"), J::i(l.as_u32() as i128)]),
                ProjectionElem::ConstantIndex { offset, min_length, from_end } => J::arr(vec![
                    J::s("c"),
                    J::i(offset as i128),
                    J::i(min_length as i128),
                    J::b(from_end),
                ]),
                ProjectionElem::Subslice { from, to, from_end } => {
                    J::arr(vec![J::s("s"), J::i(from as i128), J::i(to as i128), J::b(from_end)])
                }
                ProjectionElem::Downcast(name, vi) => {
                    let n = match pty.ty.kind() {
                        ty::Adt(def, _) if def.is_enum() => {
                            def.variant(vi).name.as_str().to_string()
                        }
                        _ => name.map(|s| s.as_str().to_string()).unwrap_or_default(),
                    };
                    J::arr(vec![J::s("d"), J::s(n), J::i(vi.as_u32() as i128)])
                }
                ProjectionElem::OpaqueCast(_) => J::s("opaque"),
                ProjectionElem::UnwrapUnsafeBinder(_) => J::s("unbinder"),
            };
            v.push(e);
            pty = pty.projection_ty(tcx, elem);
        }
        let _ = owner;
        J::arr(v)
    }

    fn read_bytes(&self, alloc: &rustc_middle::mir::interpret::Allocation, start: usize, len: usize) -> Option<Vec<u8>> {
        if start.checked_add(len)? > alloc.len() {
            return None;
        }
        Some(alloc.inspect_with_uninit_and_ptr_outside_interpreter(start..start + len).to_vec())
    }

    fn bytes_j(bytes: &[u8]) -> J {
        match std::str::from_utf8(bytes) {
            Ok(s) => J::s(s),
            Err(_) => J::obj(vec![(
                "bytes",
                J::arr(bytes.iter().map(|b| J::i(*b as i128)).collect()),
            )]),
        }
    }

    fn const_val(&self, owner: DefId, c: &MirConst<'tcx>) -> J {
        let tcx = self.tcx;
        let ty = c.ty();
        // function items and closures used as values
        match ty.kind() {
            ty::FnDef(did, args) => {
                let resolved = self.resolve(owner, *did, args);
                return J::obj(vec![
                    ("k", J::s("fn")),
                    ("path", J::s(dps(tcx, *did))),
                    ("full", J::s(nt(|| tcx.def_path_str_with_args(*did, args)))),
                    ("resolved", resolved.map(J::s).unwrap_or(J::Null)),
                ]);
            }
            _ => {}
        }
        if let MirConst::Unevaluated(uv, _) = c {
            if let Some(p) = uv.promoted {
                return J::obj(vec![
                    ("k", J::s("promoted")),
                    ("of", J::s(dps(tcx, uv.def))),
                    ("idx", J::i(p.as_u32() as i128)),
                    ("ty", J::s(ty_s(ty))),
                ]);
            }
        }
        let named = match c {
            MirConst::Unevaluated(uv, _) => Some(dps(tcx, uv.def)),
            _ => None,
        };
        let typing_env = ty::TypingEnv::post_analysis(tcx, owner);
        let val = match c.eval(tcx, typing_env, DUMMY_SP) {
            Ok(v) => v,
            Err(_) => {
                return J::obj(vec![
                    ("k", J::s("uneval")),
                    ("ty", J::s(ty_s(ty))),
                    ("named", named.map(J::s).unwrap_or(J::Null)),
                    ("text", J::s(nt(|| format!("{}", c)))),
                ]);
            }
        };
        let mut fields: Vec<(&str, J)> = vec![("ty", J::s(ty_s(ty)))];
        if let Some(n) = named {
            fields.push(("named", J::s(n)));
        }
        let mut done = false;
        match val {
            ConstValue::Scalar(rustc_middle::mir::interpret::Scalar::Int(si)) => match ty.kind() {
                ty::Bool => {
                    fields.push(("k", J::s("bool")));
                    fields.push(("v", J::b(si.to_uint(si.size()) != 0)));
                    done = true;
                }
                ty::Char => {
                    fields.push(("k", J::s("char")));
                    let cp = si.to_uint(si.size()) as u32;
                    fields.push(("v", J::s(char::from_u32(cp).map(|c| c.to_string()).unwrap_or_default())));
                    fields.push(("cp", J::i(cp as i128)));
                    done = true;
                }
                ty::Int(_) => {
                    fields.push(("k", J::s("int")));
                    fields.push(("v", J::i(si.to_int(si.size()))));
                    done = true;
                }
                ty::Uint(_) => {
                    fields.push(("k", J::s("int")));
                    fields.push(("v", J::u(si.to_uint(si.size()))));
                    done = true;
                }
                ty::Adt(def, _) if def.is_enum() => {
                    // C-like enum constant: discriminant value
                    let bits = si.to_uint(si.size());
                    for (vi, d) in def.discriminants(tcx) {
                        if d.val == bits {
                            fields.push(("k", J::s("variant")));
                            fields.push(("adt", J::s(dps(tcx, def.did()))));
                            fields.push(("v", J::s(def.variant(vi).name.as_str())));
                            done = true;
                            break;
                        }
                    }
                }
                _ => {}
            },
            ConstValue::Scalar(rustc_middle::mir::interpret::Scalar::Ptr(ptr, _)) => {
                // &[u8; N] byte strings (format_args templates) and &'static T
                {
                    let (prov, _off) = ptr.prov_and_relative_offset();
                    if let Some(rustc_middle::mir::interpret::GlobalAlloc::Static(sdid)) =
                        tcx.try_get_global_alloc(prov.alloc_id())
                    {
                        fields.push(("k", J::s("static")));
                        fields.push(("path", J::s(dps(tcx, sdid))));
                        done = true;
                    }
                }
                if let ty::Ref(_, inner, _) = ty.kind() {
                    if let ty::Array(elem, n) = inner.kind() {
                        if *elem == tcx.types.u8 {
                            let (prov, off) = ptr.prov_and_relative_offset();
                            let aid = prov.alloc_id();
                            if let Some(rustc_middle::mir::interpret::GlobalAlloc::Memory(a)) =
                                tcx.try_get_global_alloc(aid)
                            {
                                let n = n.try_to_target_usize(tcx).unwrap_or(0) as usize;
                                if let Some(b) = self.read_bytes(a.inner(), off.bytes() as usize, n) {
                                    fields.push(("k", J::s("bytes")));
                                    fields.push(("v", J::arr(b.iter().map(|x| J::i(*x as i128)).collect())));
                                    done = true;
                                }
                            }
                        }
                    }
                }
            }
            ConstValue::Slice { .. } => {
                if let ty::Ref(_, inner, _) = ty.kind() {
                    if inner.is_str() || matches!(inner.kind(), ty::Slice(e) if *e == tcx.types.u8) {
                        if let Some(b) = val.try_get_slice_bytes_for_diagnostics(tcx) {
                            fields.push(("k", J::s(if inner.is_str() { "str" } else { "bytes" })));
                            if inner.is_str() {
                                fields.push(("v", Self::bytes_j(b)));
                            } else {
                                fields.push(("v", J::arr(b.iter().map(|x| J::i(*x as i128)).collect())));
                            }
                            done = true;
                        }
                    }
                }
            }
            ConstValue::ZeroSized => {
                fields.push(("k", J::s("zst")));
                done = true;
            }
            _ => {}
        }
        if !done {
            fields.push(("k", J::s("other")));
            fields.push(("text", J::s(nt(|| format!("{}", c)))));
        }
        J::obj(fields)
    }

    fn operand(&self, body: &Body<'tcx>, owner: DefId, op: &Operand<'tcx>) -> J {
        match op {
            Operand::Copy(p) => J::arr(vec![J::s("cp"), self.place(body, owner, *p)]),
            Operand::Move(p) => J::arr(vec![J::s("mv"), self.place(body, owner, *p)]),
            Operand::Constant(c) => J::arr(vec![J::s("c"), self.const_val(owner, &c.const_)]),
            #[allow(unreachable_patterns)]
            _ => J::arr(vec![J::s("other"), J::s(format!("{:?}", op))]),
        }
    }

    fn resolve(&self, owner: DefId, did: DefId, args: ty::GenericArgsRef<'tcx>) -> Option<String> {
        let tcx = self.tcx;
        let env = ty::TypingEnv::post_analysis(tcx, owner);
        // resolution may ICE on ill-formed generic contexts; those do not occur after
        // a successful analysis
        match ty::Instance::try_resolve(tcx, env, did, args) {
            Ok(Some(inst)) => Some(dps(tcx, inst.def_id())),
            _ => None,
        }
    }

    fn rvalue(&self, body: &Body<'tcx>, owner: DefId, rv: &Rvalue<'tcx>) -> J {
        let tcx = self.tcx;
        match rv {
            Rvalue::Use(op, _) => J::arr(vec![J::s("use"), self.operand(body, owner, op)]),
            Rvalue::CopyForDeref(p) => {
                J::arr(vec![J::s("use"), J::arr(vec![J::s("cp"), self.place(body, owner, *p)])])
            }
            Rvalue::Ref(_, bk, p) => J::arr(vec![
                J::s("ref"),
                J::s(match bk {
                    mir::BorrowKind::Shared => "shared",
                    mir::BorrowKind::Fake(_) => "fake",
                    mir::BorrowKind::Mut { .. } => "mut",
                }),
                self.place(body, owner, *p),
            ]),
            Rvalue::RawPtr(_, p) => J::arr(vec![J::s("ref"), J::s("raw"), self.place(body, owner, *p)]),
            Rvalue::Cast(kind, op, ty) => {
                let k = match kind {
                    CastKind::IntToInt => "IntToInt".to_string(),
                    CastKind::Transmute => "Transmute".to_string(),
                    other => format!("{:?}", other),
                };
                let from = op.ty(&body.local_decls, tcx);
                J::arr(vec![
                    J::s("cast"),
                    J::s(k),
                    self.operand(body, owner, op),
                    J::s(ty_s(from)),
                    J::s(ty_s(*ty)),
                ])
            }
            Rvalue::BinaryOp(op, ab) => {
                let name = match op {
                    BinOp::Add => "Add",
                    BinOp::AddWithOverflow => "AddWithOverflow",
                    BinOp::AddUnchecked => "AddUnchecked",
                    BinOp::Sub => "Sub",
                    BinOp::SubWithOverflow => "SubWithOverflow",
                    BinOp::SubUnchecked => "SubUnchecked",
                    BinOp::Mul => "Mul",
                    BinOp::MulWithOverflow => "MulWithOverflow",
                    BinOp::MulUnchecked => "MulUnchecked",
                    BinOp::Div => "Div",
                    BinOp::Rem => "Rem",
                    BinOp::BitXor => "BitXor",
                    BinOp::BitAnd => "BitAnd",
                    BinOp::BitOr => "BitOr",
                    BinOp::Shl => "Shl",
                    BinOp::ShlUnchecked => "ShlUnchecked",
                    BinOp::Shr => "Shr",
                    BinOp::ShrUnchecked => "ShrUnchecked",
                    BinOp::Eq => "Eq",
                    BinOp::Lt => "Lt",
                    BinOp::Le => "Le",
                    BinOp::Ne => "Ne",
                    BinOp::Ge => "Ge",
                    BinOp::Gt => "Gt",
                    BinOp::Cmp => "Cmp",
                    BinOp::Offset => "Offset",
                };
                let lty = ab.0.ty(&body.local_decls, tcx);
                J::arr(vec![
                    J::s("bin"),
                    J::s(name),
                    self.operand(body, owner, &ab.0),
                    self.operand(body, owner, &ab.1),
                    J::s(ty_s(lty)),
                ])
            }
            Rvalue::UnaryOp(op, a) => {
                let name = match op {
                    UnOp::Not => "Not",
                    UnOp::Neg => "Neg",
                    UnOp::PtrMetadata => "PtrMetadata",
                };
                J::arr(vec![J::s("un"), J::s(name), self.operand(body, owner, a)])
            }
            Rvalue::Discriminant(p) => {
                let pty = p.ty(&body.local_decls, tcx).ty;
                let mut variants = vec![];
                if let ty::Adt(def, _) = pty.kind() {
                    if def.is_enum() {
                        for (vi, d) in def.discriminants(tcx) {
                            variants.push(J::arr(vec![
                                J::u(d.val),
                                J::s(def.variant(vi).name.as_str()),
                            ]));
                        }
                    }
                }
                J::arr(vec![
                    J::s("discr"),
                    self.place(body, owner, *p),
                    J::s(ty_s(pty)),
                    J::arr(variants),
                ])
            }
            Rvalue::Aggregate(kind, ops) => {
                let opsj = J::arr(ops.iter().map(|o| self.operand(body, owner, o)).collect());
                let kj = match &**kind {
                    AggregateKind::Array(t) => J::obj(vec![("k", J::s("array")), ("ty", J::s(ty_s(*t)))]),
                    AggregateKind::Tuple => J::obj(vec![("k", J::s("tuple"))]),
                    AggregateKind::Adt(did, vi, _args, _, active) => {
                        let def = tcx.adt_def(*did);
                        let var = def.variant(*vi);
                        let fnames: Vec<J> = match active {
                            Some(f) => vec![J::s(var.fields[*f].name.as_str())],
                            None => var.fields.iter().map(|f| J::s(f.name.as_str())).collect(),
                        };
                        J::obj(vec![
                            ("k", J::s("adt")),
                            ("adt", J::s(dps(tcx, *did))),
                            ("variant", J::s(var.name.as_str())),
                            ("is_enum", J::b(def.is_enum())),
                            ("fields", J::arr(fnames)),
                        ])
                    }
                    AggregateKind::Closure(did, _) => {
                        let caps: Vec<J> = did
                            .as_local()
                            .map(|l| {
                                tcx.closure_captures(l)
                                    .iter()
                                    .map(|c| J::s(c.to_string(tcx)))
                                    .collect()
                            })
                            .unwrap_or_default();
                        J::obj(vec![
                            ("k", J::s("closure")),
                            ("path", J::s(dps(tcx, *did))),
                            ("captures", J::arr(caps)),
                        ])
                    }
                    other => J::obj(vec![("k", J::s("other")), ("text", J::s(format!("{:?}", other)))]),
                };
                J::arr(vec![J::s("agg"), kj, opsj])
            }
            Rvalue::Repeat(op, n) => J::arr(vec![
                J::s("repeat"),
                self.operand(body, owner, op),
                J::s(format!("{}", n)),
            ]),
            other => J::arr(vec![J::s("other"), J::s(format!("{:?}", other))]),
        }
    }

    fn body(&self, owner: DefId, body: &Body<'tcx>) -> Vec<(&'static str, J)> {
        let tcx = self.tcx;
        let mut locals = vec![];
        for (_l, d) in body.local_decls.iter_enumerated() {
            locals.push(J::s(ty_s(d.ty)));
        }
        let mut dbg = vec![];
        for v in &body.var_debug_info {
            let val = match &v.value {
                mir::VarDebugInfoContents::Place(p) => self.place(body, owner, *p),
                mir::VarDebugInfoContents::Const(c) => self.const_val(owner, &c.const_),
            };
            dbg.push(J::arr(vec![J::s(v.name.as_str()), val]));
        }
        let mut blocks = vec![];
        for (_bb, data) in body.basic_blocks.iter_enumerated() {
            let mut stmts = vec![];
            for st in &data.statements {
                match &st.kind {
                    StatementKind::Assign(b) => {
                        let (p, rv) = &**b;
                        stmts.push(J::arr(vec![
                            J::s("="),
                            self.place(body, owner, *p),
                            self.rvalue(body, owner, rv),
                            self.line(st.source_info.span),
                        ]));
                    }
                    StatementKind::SetDiscriminant { place, variant_index } => {
                        let pty = place.ty(&body.local_decls, tcx).ty;
                        let n = match pty.kind() {
                            ty::Adt(def, _) => def.variant(*variant_index).name.as_str().to_string(),
                            _ => String::new(),
                        };
                        stmts.push(J::arr(vec![
                            J::s("setdiscr"),
                            self.place(body, owner, **place),
                            J::s(n),
                            self.line(st.source_info.span),
                        ]));
                    }
                    _ => {}
                }
            }
            let term = data.terminator();
            let line = self.line(term.source_info.span);
            let exp = term.source_info.span.from_expansion();
            let tj = match &term.kind {
                TerminatorKind::Goto { target } => J::arr(vec![J::s("goto"), J::i(target.as_u32() as i128)]),
                TerminatorKind::SwitchInt { discr, targets } => {
                    let mut arms = vec![];
                    for (v, t) in targets.iter() {
                        arms.push(J::arr(vec![J::u(v), J::i(t.as_u32() as i128)]));
                    }
                    J::arr(vec![
                        J::s("switch"),
                        self.operand(body, owner, discr),
                        J::arr(arms),
                        J::i(targets.otherwise().as_u32() as i128),
                        J::s(ty_s(discr.ty(&body.local_decls, tcx))),
                    ])
                }
                TerminatorKind::Return => J::arr(vec![J::s("ret")]),
                TerminatorKind::Unreachable => J::arr(vec![J::s("unreachable")]),
                TerminatorKind::UnwindResume => J::arr(vec![J::s("resume")]),
                TerminatorKind::UnwindTerminate(_) => J::arr(vec![J::s("terminate")]),
                TerminatorKind::Drop { place, target, .. } => J::arr(vec![
                    J::s("drop"),
                    self.place(body, owner, *place),
                    J::i(target.as_u32() as i128),
                ]),
                TerminatorKind::Call { func, args, destination, target, fn_span, .. } => {
                    let mut cal: Vec<(&str, J)> = vec![];
                    let fty = func.ty(&body.local_decls, tcx);
                    match fty.kind() {
                        ty::FnDef(did, gargs) => {
                            cal.push(("decl", J::s(dps(tcx, *did))));
                            cal.push(("full", J::s(nt(|| tcx.def_path_str_with_args(*did, gargs)))));
                            let r = self.resolve(owner, *did, gargs);
                            cal.push(("path", r.map(J::s).unwrap_or(J::Null)));
                            let ga: Vec<J> = gargs
                                .iter()
                                .filter_map(|a| a.as_type().map(|t| J::s(ty_s(t))))
                                .collect();
                            cal.push(("targs", J::arr(ga)));
                            // receiver / self type for trait methods
                            if let Some(tr) = tcx.trait_of_assoc(*did) {
                                cal.push(("trait", J::s(dps(tcx, tr))));
                            }
                        }
                        _ => {
                            cal.push(("indirect", self.operand(body, owner, func)));
                            cal.push(("fty", J::s(ty_s(fty))));
                        }
                    }
                    let argsj: Vec<J> = args.iter().map(|a| self.operand(body, owner, &a.node)).collect();
                    J::arr(vec![
                        J::s("call"),
                        J::obj(cal),
                        J::arr(argsj),
                        self.place(body, owner, *destination),
                        target.map(|t| J::i(t.as_u32() as i128)).unwrap_or(J::Null),
                        J::b(fn_span.from_expansion()),
                    ])
                }
                TerminatorKind::Assert { cond, expected, msg, target, .. } => {
                    let kind = match &**msg {
                        mir::AssertKind::BoundsCheck { .. } => "BoundsCheck".to_string(),
                        mir::AssertKind::Overflow(op, _, _) => format!("Overflow({:?})", op),
                        mir::AssertKind::OverflowNeg(_) => "OverflowNeg".to_string(),
                        mir::AssertKind::DivisionByZero(_) => "DivisionByZero".to_string(),
                        mir::AssertKind::RemainderByZero(_) => "RemainderByZero".to_string(),
                        other => {
                            let mut s = String::new();
                            let _ = write!(s, "{:?}", other);
                            s.truncate(40);
                            s
                        }
                    };
                    let ops: Vec<J> = match &**msg {
                        mir::AssertKind::BoundsCheck { len, index } => {
                            vec![self.operand(body, owner, len), self.operand(body, owner, index)]
                        }
                        mir::AssertKind::Overflow(_, a, b) => {
                            vec![self.operand(body, owner, a), self.operand(body, owner, b)]
                        }
                        _ => vec![],
                    };
                    J::arr(vec![
                        J::s("assert"),
                        self.operand(body, owner, cond),
                        J::b(*expected),
                        J::s(kind),
                        J::i(target.as_u32() as i128),
                        J::arr(ops),
                    ])
                }
                TerminatorKind::FalseEdge { real_target, .. } => {
                    J::arr(vec![J::s("goto"), J::i(real_target.as_u32() as i128)])
                }
                TerminatorKind::FalseUnwind { real_target, .. } => {
                    J::arr(vec![J::s("goto"), J::i(real_target.as_u32() as i128)])
                }
                other => J::arr(vec![J::s("other"), J::s(format!("{:?}", other))]),
            };
            blocks.push(J::obj(vec![
                ("s", J::arr(stmts)),
                ("t", tj),
                ("line", line),
                ("exp", J::b(exp)),
                ("cleanup", J::b(data.is_cleanup)),
            ]));
        }
        vec![
            ("nargs", J::i(body.arg_count as i128)),
            ("locals", J::arr(locals)),
            ("dbg", J::arr(dbg)),
            ("blocks", J::arr(blocks)),
        ]
    }

    fn function(&self, ldid: LocalDefId) -> Option<Vec<J>> {
        let tcx = self.tcx;
        let did = ldid.to_def_id();
        let kind = tcx.def_kind(did);
        let (kname, is_fn) = match kind {
            DefKind::Fn => ("fn", true),
            DefKind::AssocFn => ("assoc", true),
            DefKind::Closure => ("closure", true),
            DefKind::Const { .. } => ("const", false),
            DefKind::AssocConst { .. } => ("const", false),
            DefKind::Static { .. } => ("static", false),
            DefKind::InlineConst | DefKind::AnonConst => ("anonconst", false),
            _ => return None,
        };
        if kname == "closure" && tcx.is_coroutine(did) {
            return None;
        }
        let body: &Body<'tcx> = if is_fn { tcx.optimized_mir(did) } else { tcx.mir_for_ctfe(did) };
        let mut out = vec![];
        let span = tcx.def_span(did);
        let mut f: Vec<(&str, J)> = vec![
            ("path", J::s(dps(tcx, did))),
            ("kind", J::s(kname)),
            ("span", self.span_s(body.span)),
            ("exp", J::b(span.from_expansion())),
        ];
        let parent = tcx.parent(did);
        f.push(("parent", J::s(dps(tcx, parent))));
        if matches!(kind, DefKind::AssocFn | DefKind::AssocConst { .. }) {
            if let Some(imp) = tcx.impl_of_assoc(did) {
                f.push(("impl_self", J::s(ty_s(tcx.type_of(imp).instantiate_identity().skip_norm_wip()))));
                if let Some(tr) = tcx.impl_opt_trait_ref(imp) {
                    let tr = tr.instantiate_identity().skip_norm_wip();
                    f.push(("impl_trait", J::s(dps(tcx, tr.def_id))));
                    f.push(("impl_trait_full", J::s(nt(|| format!("{}", tr.print_only_trait_path())))));
                }
                f.push(("derived", J::b(tcx.is_automatically_derived(imp))));
            }
        }
        if matches!(kind, DefKind::Fn | DefKind::AssocFn) {
            f.push(("vis", J::s(format!("{:?}", tcx.visibility(did)))));
        }
        f.push(("ret", J::s(ty_s(body.return_ty()))));
        f.extend(self.body(did, body));
        out.push(J::obj(f));
        if is_fn || matches!(kind, DefKind::Const { .. } | DefKind::Static { .. } | DefKind::AssocConst { .. }) {
            let promoted = tcx.promoted_mir(did);
            for (pi, pb) in promoted.iter_enumerated() {
                let mut f: Vec<(&str, J)> = vec![
                    ("path", J::s(format!("{}::promoted[{}]", dps(tcx, did), pi.as_u32()))),
                    ("kind", J::s("promoted")),
                    ("span", self.span_s(pb.span)),
                    ("exp", J::b(false)),
                    ("parent", J::s(dps(tcx, did))),
                    ("ret", J::s(ty_s(pb.return_ty()))),
                ];
                f.extend(self.body(did, pb));
                out.push(J::obj(f));
            }
        }
        Some(out)
    }

    fn adts(&self) -> (Vec<J>, Vec<J>) {
        let tcx = self.tcx;
        let mut adts = vec![];
        let mut impls = vec![];
        for id in tcx.hir_free_items() {
            let did = id.owner_id.to_def_id();
            match tcx.def_kind(did) {
                DefKind::Struct | DefKind::Enum | DefKind::Union => {
                    let def = tcx.adt_def(did);
                    let mut variants = vec![];
                    for v in def.variants() {
                        let fields: Vec<J> = v
                            .fields
                            .iter()
                            .map(|f| {
                                J::obj(vec![
                                    ("name", J::s(f.name.as_str())),
                                    ("ty", J::s(ty_s(tcx.type_of(f.did).instantiate_identity().skip_norm_wip()))),
                                    ("vis", J::s(format!("{:?}", f.vis))),
                                ])
                            })
                            .collect();
                        variants.push(J::obj(vec![
                            ("name", J::s(v.name.as_str())),
                            ("fields", J::arr(fields)),
                        ]));
                    }
                    adts.push(J::obj(vec![
                        ("path", J::s(dps(tcx, did))),
                        ("kind", J::s(if def.is_enum() { "enum" } else { "struct" })),
                        ("variants", J::arr(variants)),
                        ("span", self.span_s(tcx.def_span(did))),
                    ]));
                }
                DefKind::Impl { .. } => {
                    let selfty = ty_s(tcx.type_of(did).instantiate_identity().skip_norm_wip());
                    let tr = tcx
                        .impl_opt_trait_ref(did)
                        .map(|t| {
                            let t = t.instantiate_identity().skip_norm_wip();
                            nt(|| format!("{}", t.print_only_trait_path()))
                        });
                    let items: Vec<J> = tcx
                        .associated_item_def_ids(did)
                        .iter()
                        .map(|d| J::s(dps(tcx, *d)))
                        .collect();
                    impls.push(J::obj(vec![
                        ("self", J::s(selfty)),
                        ("trait", tr.map(J::s).unwrap_or(J::Null)),
                        ("derived", J::b(tcx.is_automatically_derived(did))),
                        ("items", J::arr(items)),
                        ("span", self.span_s(tcx.def_span(did))),
                    ]));
                }
                _ => {}
            }
        }
        (adts, impls)
    }
}

impl rustc_driver::Callbacks for Cb {
    fn after_analysis<'tcx>(&mut self, _c: &Compiler, tcx: TyCtxt<'tcx>) -> Compilation {
        let cx = Ctx { tcx };
        let mut funcs = vec![];
        for ldid in tcx.mir_keys(()).iter() {
            if let Some(fs) = cx.function(*ldid) {
                funcs.extend(fs);
            }
        }
        let (adts, impls) = cx.adts();
        let crate_name = tcx.crate_name(rustc_hir::def_id::LOCAL_CRATE).to_string();
        let ctypes: Vec<String> = tcx.crate_types().iter().map(|c| format!("{:?}", c)).collect();
        let kind = if ctypes.iter().any(|c| c == "Executable") { "bin" } else { "lib" };
        let doc = J::obj(vec![
            ("crate", J::s(crate_name.clone())),
            ("crate_kind", J::s(kind)),
            ("functions", J::arr(funcs)),
            ("adts", J::arr(adts)),
            ("impls", J::arr(impls)),
        ]);
        let mut s = String::new();
        doc.write(&mut s);
        let path = format!("{}/{}-{}.json", self.out_dir, crate_name, kind);
        let tmp = format!("{}.tmp{}", path, std::process::id());
        std::fs::write(&tmp, s).expect("zfacts: cannot write fact file");
        std::fs::rename(&tmp, &path).expect("zfacts: cannot rename fact file");
        Compilation::Continue
    }
}

fn main() {
    let mut args: Vec<String> = std::env::args().collect();
    // RUSTC_WORKSPACE_WRAPPER passes the real rustc as argv[1]
    if args.len() > 1 && (args[1].ends_with("rustc") || args[1].contains("/rustc")) {
        args.remove(1);
    }
    let out_dir = std::env::var("ZFACTS_OUT").unwrap_or_else(|_| ".".to_string());
    // build scripts and probe invocations (no input file / --print) pass through untouched
    let is_probe = args.iter().any(|a| a.starts_with("--print") || a == "-vV" || a == "-V");
    let is_build_script = args.iter().any(|a| a == "build_script_build");
    let mut cb = Cb { out_dir };
    if is_probe || is_build_script {
        struct Nop;
        impl rustc_driver::Callbacks for Nop {}
        rustc_driver::run_compiler(&args, &mut Nop);
    } else {
        rustc_driver::run_compiler(&args, &mut cb);
    }
}
