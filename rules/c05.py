"""C05 - override, bump and reset follow the precedence order (structural clauses).
R05.1 default order; R05.2 level dispatch table; R05.3 sibling processors agree; R05.4 reset table;
R05.5 index dispatch == name dispatch; R05.6 invalid targets rejected; R05.7 phase order; R05.8 checked arithmetic."""
import re
import parsers
import core, mir, panics

B = "crate::version::zerv::bump::"
ORDER = ["Epoch", "Major", "Minor", "Patch", "Core", "PreReleaseLabel", "PreReleaseNum", "Post", "Dev", "ExtraCore", "Build"]
FIELD_PROC = {"Epoch": ("process_epoch", "epoch"), "Major": ("process_major", "major"), "Minor": ("process_minor", "minor"), "Patch": ("process_patch", "patch"),
              "Post": ("process_post", "post"), "Dev": ("process_dev", "dev"), "PreReleaseNum": ("process_pre_release_num", "pre_release_num")}
RESET = {"Epoch": ("epoch", "Option::Some(0)"), "Major": ("major", "Option::Some(0)"), "Minor": ("minor", "Option::Some(0)"), "Patch": ("patch", "Option::Some(0)"),
         "PreReleaseLabel": ("pre_release", "Option::None"), "PreReleaseNum": ("pre_release#Some.0.number", "Option::Some(0)"), "Post": ("post", "Option::None"), "Dev": ("dev", "Option::None")}

def zfn(F, suffix):
    fs = [f for p, f in F.fns.items() if p.endswith(suffix) and f.kind in ("fn", "assoc")]
    return fs[0] if fs else None

def variant_guard(f, bi, tyfrag):
    """variant name of the innermost dominating discriminant test on a value whose type mentions tyfrag"""
    out = None
    for d, pol, dd in mir.guards_of(f, bi):
        if d[0] == "discr" and tyfrag in str(d[2]) and isinstance(pol, tuple) and pol[0] == "in" and len(pol[1]) == 1:
            out = next(iter(pol[1]))
    return out

def check(F, rep, tier):
    panics._F[0] = F
    # ---- R05.1 ------------------------------------------------------------------------------------
    pb = zfn(F, "precedence::PrecedenceOrder::pep440_based")
    if rep.anchor("R05.1", "PrecedenceOrder::pep440_based", pb):
        rep.fn_seen(pb)
        got = None
        ps = mir.enum_paths(pb)
        if len(ps) == 1:
            sp = mir.SymPath(pb, ps[0])
            for place, val, raw in sp.writes:
                if val[0] == "agg" and val[1] == "array":
                    got = [mir.show(v).rsplit("::", 1)[-1] for f_, v in val[2]]
        def array_in(g_):
            for pth in mir.enum_paths(g_)[:1]:
                spx = mir.SymPath(g_, pth)
                r_ = spx.ret()
                if r_[0] == "agg" and r_[1] == "array": return [mir.show(v).rsplit("::", 1)[-1] for f_, v in r_[2]]
                for place, val, raw in spx.writes:
                    if val[0] == "agg" and val[1] == "array": return [mir.show(v).rsplit("::", 1)[-1] for f_, v in val[2]]
            return None
        if got is None:
            # `const LEVELS: [Precedence; 11] = [..]; from_precedences(LEVELS.to_vec())`: the array lives in a constant item
            names = set()
            for bi, si, st in pb.stmts():
                if st[0] == "=" and st[2][0] == "use" and st[2][1][0] == "c":
                    c_ = st[2][1][1]
                    if c_.get("k") == "promoted":
                        v_ = mir.promoted_value(F, c_)
                        if v_ is not None and v_[0] == "constx": names.add(v_[1])
                        pf = F.fn("%s::promoted[%d]" % (c_["of"], c_["idx"]))
                        if pf is not None and array_in(pf): got = array_in(pf)
                    elif c_.get("named"): names.add(c_["named"])
            for nme in sorted(names):
                cf = F.fn(nme)
                if cf is not None and got is None: got = array_in(cf)
        if got == ORDER: rep.ok("R05.1", "default precedence order is the documented one", sample=got, nontrivial_key="order")
        elif got is None: rep.undecided("R05.1", "precedence-order-shape", "how the default precedence order is written down is not recognised", pb.where())
        else: rep.bad("R05.1", "precedence-order", "default precedence order is %s, documented order is %s" % (got, ORDER), pb.where())
        d = zfn(F, "PrecedenceOrder as std::default::Default>::default")
        if d is not None:
            if any((mir.callee(t) or "") == pb.path for bi, t in d.calls()): rep.ok("R05.1", "Default for PrecedenceOrder = pep440_based()")
            else: rep.bad("R05.1", "default-order", "PrecedenceOrder::default() is not pep440_based()", d.where())
    # ---- R05.2 level dispatch -----------------------------------------------------------------------
    ap = zfn(F, "bump::<impl crate::version::zerv::core::Zerv>::apply_component_processing")
    name_dispatch = {}
    if rep.anchor("R05.2", "Zerv::apply_component_processing", ap):
        rep.fn_seen(ap)
        for bi, t in ap.calls():
            c = mir.callee(t) or ""
            m = c.rsplit("::", 1)[-1]
            if not m.startswith("process_") or m == "process_bumped_timestamp": continue
            v = variant_guard(ap, bi, "precedence::Precedence")
            args = []
            for a in t[2][1:]:
                flds = set()
                for o in mir.trace_op(ap, a, transparent=mir.TRANSPARENT + ("Option::<std::option::Option<T>>::flatten", "Vec<T, A> as std::ops::Deref>::deref")):
                    fl = o.fields()
                    if fl: flds.add(".".join(fl[-2:]))
                    elif o.kind in ("const", "agg"): flds.add(mir.sym_value(F, ap, a))
                args.append("|".join(sorted(flds)))
            name_dispatch[v] = (m, args)
        rep.floor("R05.2", "precedence arms dispatching to processors", len(name_dispatch), 11)
        for lvl in ORDER:
            got = name_dispatch.get(lvl)
            if lvl in FIELD_PROC:
                proc, fld = FIELD_PROC[lvl]
                want = (proc, ["overrides." + fld, "bumps.bump_" + fld])
            elif lvl == "PreReleaseLabel": want = ("process_pre_release_label", None)
            else:
                sec = {"Core": "core", "ExtraCore": "extra_core", "Build": "build"}[lvl]
                want = ("process_schema_section", None)
            if got is None:
                rep.bad("R05.2", "level-missing:" + lvl, "precedence level %s has no processing arm" % lvl, ap.where()); continue
            ok = got[0] == want[0] and (want[1] is None or got[1] == want[1])
            if ok and lvl in ("Core", "ExtraCore", "Build"):
                sec = {"Core": "core", "ExtraCore": "extra_core", "Build": "build"}[lvl]
                ok = any(lvl in a for a in got[1][:1]) and any(a.endswith("overrides." + sec) for a in got[1]) and any(a.endswith("bumps.bump_" + sec) for a in got[1])
            if ok: rep.ok("R05.2", "%s -> %s%s" % (lvl, got[0], got[1]), nontrivial_key=lvl)
            else: rep.bad("R05.2", "level-dispatch:" + lvl, "precedence level %s is processed by %s%s, expected %s with the override/bump fields of the same name" % (lvl, got[0], got[1], want[0]), ap.where())
        # single pass over the schema's precedence order
        if any((mir.callee(t) or "").endswith("ZervSchema::precedence_order") for bi, t in ap.calls()): rep.ok("R05.2", "levels are visited in the schema's precedence order")
        else: rep.bad("R05.2", "order-source", "apply_component_processing does not iterate the schema's precedence order", ap.where())
    # ---- R05.3 sibling processors -------------------------------------------------------------------------
    reset_fn = zfn(F, "reset::<impl crate::version::zerv::core::Zerv>::reset_lower_precedence_components")
    for lvl, (proc, fld) in FIELD_PROC.items():
        if lvl == "PreReleaseNum": continue
        f = zfn(F, "<impl crate::version::zerv::core::Zerv>::" + proc)
        if not rep.anchor("R05.3", "Zerv::" + proc, f): continue
        rep.fn_seen(f)
        f = mir.inlined(F, f, depth=2, keep=("reset_lower_precedence_components", "checked_bump"), ok=lambda F_, caller, cp, g: g is not None and g.kind != "closure" and cp.startswith(B))
        probs = []
        npaths = 0
        for p in mir.enum_paths(f, limit=20000):
            if f.blocks[p[-1]]["t"][0] != "ret": continue
            sp = mir.SymPath(f, p)
            if not sp.feasible(): continue          # e.g. the helper returned Ok(false) but the caller's `if` is taken
            if sp.ret()[0] == "call" and "from_residual" in str(sp.ret()[1]): continue
            npaths += 1
            ov = bm = None
            for d, (rel, vals), b in sp.conds:
                if d[0] == "discr" and d[1] == ("param", 2): ov = (rel == "eq" and 1 in vals) or (rel == "ne" and 0 in vals and 1 not in vals)
                if d[0] == "discr" and d[1] == ("param", 3): bm = (rel == "eq" and 1 in vals) or (rel == "ne" and 0 in vals and 1 not in vals)
            writes = [(mir.show(pl), mir.show(val)) for pl, val, raw in sp.writes if raw[0] == 1 or mir.show(pl).startswith("p1.vars.")]
            for pl, val in writes:
                if pl != "p1.vars." + fld: probs.append("writes %s" % pl)
            n_ov = [v for pl, v in writes if "p2" in v]
            n_bm = [v for pl, v in writes if "checked_bump" in v or "checked_add" in v or "Add(" in v]
            if ov and not (len(n_ov) == 1 and re.fullmatch(r"Option::Some\(\(p2 as Some\.0 as u64\)\)", n_ov[0])): probs.append("override branch writes %s" % n_ov)
            if not ov and n_ov: probs.append("override value used although no override was given")
            if bm:
                good_val = len(n_bm) == 1 and re.search(r"checked_bump\(unwrap_or\(.*\.%s, 0\), .* as Some\.0\)" % fld, n_bm[0])
                if not good_val: probs.append("bump branch writes %s (expected old.unwrap_or(0) + amount, checked)" % n_bm)
                resets = [(b, a) for b, nme, a, t in sp.calls if reset_fn is not None and nme == reset_fn.path]
                if len(resets) != 1: probs.append("bump branch calls reset %d times" % len(resets))
                else:
                    lv = mir.show(resets[0][1][1]) if len(resets[0][1]) > 1 else "?"
                    if not lv.endswith("Precedence::" + lvl) and ("promoted" not in lv or promoted_variant(F, resets[0][1][1]) != lvl): probs.append("resets from %s instead of its own level %s" % (lv, lvl))
                    # the reset comes after the addition
                    bump_blocks = [b for b, nme, a, t in sp.calls if "checked_bump" in str(nme)]
                    if bump_blocks and p.index(resets[0][0]) < p.index(bump_blocks[0]): probs.append("reset precedes the bump")
            else:
                if any(reset_fn is not None and nme == reset_fn.path for b, nme, a, t in sp.calls): probs.append("reset without a bump")
                if n_bm: probs.append("bump arithmetic without a bump amount")
        if probs: rep.bad("R05.3", "sibling-deviates:" + proc, "%s deviates from its siblings: %s" % (proc, sorted(set(probs))[:4]), f.where())
        else: rep.ok("R05.3", "%s: override sets, bump adds to old.unwrap_or(0) (checked) then resets from %s, writes only vars.%s (%d paths)" % (proc, lvl, fld, npaths), nontrivial_key=proc)
    # process_pre_release_num: every bump path resets from PreReleaseNum exactly once and writes only the pre-release variable
    f = zfn(F, "<impl crate::version::zerv::core::Zerv>::process_pre_release_num")
    if rep.anchor("R05.3", "Zerv::process_pre_release_num", f):
        rep.fn_seen(f)
        # helpers of the bump module are seen through (a shared `pre_release_or_alpha()` that resets would otherwise hide the reset)
        f = mir.inlined(F, f, depth=2, keep=("reset_lower_precedence_components", "checked_bump"), ok=lambda F_, caller, cp, g: g is not None and g.kind != "closure" and cp.startswith(B))
        probs = []; npaths = 0
        for p in mir.enum_paths(f, limit=5000):
            if f.blocks[p[-1]]["t"][0] != "ret": continue
            sp = mir.SymPath(f, p)
            if sp.ret()[0] == "call" and "from_residual" in str(sp.ret()[1]): continue
            npaths += 1
            bm = None
            for d, (rel, vals), b in sp.conds:
                if d[0] == "discr" and d[1] == ("param", 3): bm = (rel == "eq" and 1 in vals) or (rel == "ne" and 0 in vals and 1 not in vals)
            resets = [(b, a) for b, nme, a, t in sp.calls if reset_fn is not None and nme == reset_fn.path]
            for pl, val, raw in sp.writes:
                if raw[0] == 1 and "pre_release" not in mir.show(pl): probs.append("writes %s" % mir.show(pl))
            if bm:
                if len(resets) != 1: probs.append("a bump path calls reset %d times (conditions %s)" % (len(resets), [mir.show(d)[:40] for d, o, b in sp.conds]))
                else:
                    lv = mir.show(resets[0][1][1]) if len(resets[0][1]) > 1 else "?"
                    if not lv.endswith("Precedence::PreReleaseNum") and promoted_variant(F, resets[0][1][1]) != "PreReleaseNum": probs.append("resets from %s" % lv)
            elif resets: probs.append("reset without a bump")
        if probs: rep.bad("R05.3", "sibling-deviates:process_pre_release_num", "process_pre_release_num: %s" % sorted(set(probs))[:3], f.where())
        else: rep.ok("R05.3", "process_pre_release_num: every bump path (existing or newly created pre-release) resets from PreReleaseNum once (%d paths)" % npaths, nontrivial_key="ppn")
    # ---- R05.4 reset table ------------------------------------------------------------------------------------
    if rep.anchor("R05.4", "Zerv::reset_lower_precedence_components", reset_fn):
        rep.fn_seen(reset_fn)
        reset_fn = mir.inlined(F, reset_fn, depth=3)       # a per-level helper (reset_vars_component(&mut self.vars, level)) is seen through
        rows = {}
        # `for x in order.iter().skip(current + 1)`: the loop body only sees strictly lower levels
        def skip_strictness(bi):
            dom = mir.dominators(reset_fn).get(bi, ())
            for d_ in dom:
                t_ = reset_fn.blocks[d_]["t"]
                if t_[0] == "call" and (mir.callee(t_) or "").endswith("as std::iter::Iterator>::next") and "Skip<" in ((t_[1].get("targs") or [""])[0]):
                    for b2, t2 in reset_fn.calls():
                        if (mir.callee(t2) or "").endswith("Iterator::skip") and len(t2[2]) > 1:
                            e = panics.describe_len(reset_fn, t2[2][1])
                            if e and e[0] == "add" and e[-1] == 1: return True
                            if e and e[0] in ("call", "local", "param", "unwrap"): return "ge"
                            return None
            return None
        for bi, si, st in reset_fn.stmts():
            if st[0] != "=" or len(st[1]) < 2: continue
            flds = [e for e in st[1][1:] if not isinstance(e, str) and e[0] in ("f", "d")]
            names = [e[2] if e[0] == "f" else "#" + e[1] for e in flds]
            if "vars" not in names:
                # a write through a `&mut ZervVars` (or `&mut PreReleaseVar`) that was taken from self.vars
                base = []
                for o in mir.trace_place(reset_fn, [st[1][0]], transparent=mir.TRANSPARENT + ("Option::<T>::as_mut",)):
                    base = o.fields() or base
                if "vars" in base: names = list(base) + names
            if "vars" not in names and "number" not in names: continue
            if "schema" in names: rep.bad("R05.4", "reset-writes-schema", "reset_lower_precedence_components writes a schema part", reset_fn.where())
            v = variant_guard(reset_fn, bi, "precedence::Precedence")
            strict = False
            for d, pol, dd in mir.guards_of(reset_fn, bi):
                if d[0] == "bin" and ((d[1] == "Gt" and pol is True) or (d[1] == "Le" and pol is False)): strict = True
                if d[0] == "bin" and ((d[1] == "Ge" and pol is True) or (d[1] == "Lt" and pol is False)): strict = "ge"
            if strict is False:
                sk = skip_strictness(bi)
                strict = sk if sk is not None else None
            val = mir.sym_value(F, reset_fn, st[2][1]) if st[2][0] == "use" else mir.fmt_rv(st[2]) if hasattr(mir, "fmt_rv") else str(st[2][0])
            fld = ".".join(n for n in names if n not in ("vars",)).replace(".#", "#")
            if names[-1] == "number": fld = "pre_release#Some.0.number"
            rows[v] = (fld, val.replace("_u64", ""), strict)
        rep.floor("R05.4", "reset rows", len(rows), 8)
        for lvl, (fld, val) in RESET.items():
            got = rows.get(lvl)
            if got is None: rep.bad("R05.4", "reset-row-missing:" + lvl, "bumping a higher level does not reset %s" % lvl, reset_fn.where()); continue
            okv = got[1].replace(" ", "") in (val, val.replace("Option::", "")) or got[1].endswith(val.split("::")[-1])
            okf = got[0] == fld or got[0].endswith(fld)
            if got[2] is None: rep.undecided("R05.4", "reset-strictness:" + lvl, "cannot tell how the reset of %s is restricted to lower levels (no index comparison, no skip(current + 1))" % lvl, reset_fn.where())
            elif got[2] is not True: rep.bad("R05.4", "reset-not-strict:" + lvl, "reset of %s is guarded by index >= current instead of index > current (the bumped level itself would be reset)" % lvl, reset_fn.where())
            elif okv and okf: rep.ok("R05.4", "%s -> %s = %s under index > current" % (lvl, fld, val), nontrivial_key=lvl)
            else: rep.bad("R05.4", "reset-row:" + lvl, "reset row for %s is %s = %s, expected %s = %s" % (lvl, got[0], got[1], fld, val), reset_fn.where())
        for lvl in rows:
            if lvl not in RESET: rep.bad("R05.4", "reset-extra-row:" + str(lvl), "reset touches level %s, which is a schema section / unknown level" % lvl, reset_fn.where())
    # ---- R05.5 index dispatch == name dispatch ------------------------------------------------------------------
    pv = zfn(F, "<impl crate::version::zerv::core::Zerv>::process_var_field")
    if rep.anchor("R05.5", "Zerv::process_var_field", pv):
        rep.fn_seen(pv)
        tab = {}
        for bi, t in pv.calls():
            m = (mir.callee(t) or "").rsplit("::", 1)[-1]
            if m.startswith("process_"):
                v = variant_guard(pv, bi, "components::Var")
                tab[v] = m
        want = {"Major": "process_major", "Minor": "process_minor", "Patch": "process_patch", "Epoch": "process_epoch", "Post": "process_post", "Dev": "process_dev", "PreRelease": "process_pre_release_num"}
        for v, m in want.items():
            if tab.get(v) == m: rep.ok("R05.5", "by index: Var::%s -> %s (same processor as by name)" % (v, m), nontrivial_key=v)
            else: rep.bad("R05.5", "index-dispatch:" + v, "an index-addressed operation on Var::%s runs %s, the by-name flag runs %s" % (v, tab.get(v), m), pv.where())
        for v in tab:
            if v not in want: rep.bad("R05.5", "index-dispatch-extra:" + str(v), "process_var_field processes Var::%s" % v, pv.where())
        # the amounts handed to the processors are the parsed ones, untouched: an adaptor in between (filter(!= 0), map, min, ...)
        # makes the indexed form differ from the by-name flag
        ADAPT = ("Option::<T>::filter", "Option::<T>::map", "Option::<T>::and_then", "Option::<T>::or", "Option::<T>::xor", "Option::<T>::take", "::min", "::max", "::saturating_", "::wrapping_", "::checked_")
        touched = []
        n_args = 0
        for bi, t in pv.calls():
            m = (mir.callee(t) or "").rsplit("::", 1)[-1]
            if not m.startswith("process_"): continue
            for ai in (1, 2):
                if ai >= len(t[2]): continue
                n_args += 1
                for o in mir.trace_op(pv, t[2][ai], transparent=()):
                    if o.kind == "call":
                        c = mir.callee(pv.blocks[o.data]["t"]) or ""
                        if any(x in c for x in ADAPT): touched.append("%s arg %d via %s" % (m, ai, c.rsplit("::", 1)[-1]))
                    elif o.kind in ("rv",):
                        rv = mir.rv_at(pv, *o.data)
                        if rv[0] in ("bin", "un"): touched.append("%s arg %d via %s" % (m, ai, rv[1]))
        if touched: rep.bad("R05.5", "index-amount-altered", "process_var_field alters the parsed override / bump amount before handing it to the processor: %s" % sorted(set(touched))[:3], pv.where())
        elif n_args: rep.ok("R05.5", "override / bump amounts reach the processors as parsed (%d arguments)" % n_args, nontrivial_key="amounts")
        # R05.6 every other Var variant is rejected
        err_variants = set()
        for bi, si, st in pv.stmts():
            if st[0] == "=" and st[2][0] == "agg" and st[2][1].get("variant") == "InvalidBumpTarget":
                for d, pol, dd in mir.guards_of(pv, bi):
                    if d[0] == "discr" and "components::Var" in str(d[2]) and isinstance(pol, tuple):
                        allv = None
                        if pol[0] == "in": err_variants |= set(pol[1])
                        else:
                            desc = mir.describe_discr(pv, dd)
                            if desc[0] == "discr": err_variants |= {n for v_, n in desc[3]} - set(pol[1])
        adt = F.adts.get("crate::version::zerv::components::Var")
        allv = {v["name"] for v in adt["variants"]} if adt else set()
        missing = allv - set(want) - err_variants
        if adt and not missing: rep.ok("R05.6", "all %d other Var variants (VCS fields, custom, timestamp) return InvalidBumpTarget" % len(allv - set(want)), nontrivial_key="varerr")
        else: rep.bad("R05.6", "invalid-target-accepted", "Var variants %s are neither processed nor rejected with InvalidBumpTarget" % sorted(missing), pv.where())
    # timestamps and non-numeric values
    psc = zfn(F, "<impl crate::version::zerv::core::Zerv>::process_schema_component")
    if rep.anchor("R05.6", "Zerv::process_schema_component", psc):
        rep.fn_seen(psc)
        ts_err = False; oob_err = False
        for bi, si, st in psc.stmts():
            if st[0] == "=" and st[2][0] == "agg" and st[2][1].get("variant") == "InvalidBumpTarget":
                gs = mir.guards_of(psc, bi)
                if any(d[0] == "discr" and "components::Var" in str(d[2]) and isinstance(pol, tuple) and pol[0] == "in" and "Timestamp" in pol[1] for d, pol, dd in gs): ts_err = True
                if any(d[0] == "bin" and d[1] in ("Ge", "Lt") for d, pol, dd in gs): oob_err = True
                # `let Some(component) = part.get(index) else { return Err(..) }`: the None arm of a checked lookup
                for d, pol, dd in gs:
                    if d[0] == "discr" and "Option<" in str(d[2]) and isinstance(pol, tuple) and (("None" in pol[1]) if pol[0] == "in" else ("Some" in pol[1])):
                        if any(o.kind == "call" and (mir.callee(o.fn.blocks[o.data]["t"]) or "").endswith("::get") for o in mir.trace_place(psc, d[1], transparent=())): oob_err = True
        if ts_err: rep.ok("R05.6", "timestamp components are rejected", nontrivial_key="ts")
        else: rep.bad("R05.6", "timestamp-accepted", "process_schema_component no longer rejects Var::Timestamp", psc.where())
        if oob_err: rep.ok("R05.6", "index >= len is rejected", nontrivial_key="oob")
        else: rep.bad("R05.6", "oob-accepted", "process_schema_component has no out-of-bounds rejection", psc.where())
    pu = zfn(F, "<impl crate::version::zerv::core::Zerv>::parse_optional_u32")
    if rep.anchor("R05.6", "Zerv::parse_optional_u32", pu):
        rep.fn_seen(pu)
        scope_pu = [pu] + mir.closures_in(F, pu)
        calls_pu = [(g_, bi, t) for g_ in scope_pu for bi, t in g_.calls()]
        has_parse = any("parse" in (mir.callee(t) or "") and (t[1].get("targs") or [""])[0] == "u32" for g_, bi, t in calls_pu)
        propagated = any("Try>::branch" in (mir.callee(t) or "") or (mir.callee(t) or "").endswith("::transpose") for g_, bi, t in calls_pu)
        swallowed = [(mir.callee(t) or "").rsplit("::", 1)[-1] for g_, bi, t in calls_pu if "ParseIntError" in (t[1].get("full") or "") and (mir.callee(t) or "").rsplit("::", 1)[-1] in ("ok", "unwrap_or", "unwrap_or_default", "unwrap_or_else", "is_ok")]
        if has_parse and not propagated and not swallowed:
            # `match val.parse::<u32>() { Ok(n) => Ok(Some(n)), Err(_) => Err(..) }`: every path on which the parse failed returns Err
            try:
                err_paths = ok_on_err = 0
                for sp in mir.sym_paths(pu, limit=5000):
                    failed = any(d[0] == "discr" and isinstance(d[1], tuple) and d[1][0] == "call" and str(d[1][1]).endswith("str>::parse") and isinstance(tr, tuple) and ((tr[0] == "eq" and 1 in tr[1]) or (tr[0] == "ne" and 0 in tr[1])) for d, tr, b in sp.facts())
                    if not failed: continue
                    err_paths += 1
                    r = sp.ret()
                    if not ((r[0] == "agg" and str(r[1]).endswith("Result::Err")) or (r[0] == "call" and "from_residual" in str(r[1]))): ok_on_err += 1
                if err_paths and not ok_on_err: propagated = True
            except mir.TooManyPaths:
                pass
        if has_parse and propagated and not swallowed: rep.ok("R05.6", "non-numeric value for a numeric component is an error (parse::<u32>() failure propagated)", nontrivial_key="nonnum")
        elif swallowed: rep.bad("R05.6", "non-numeric-accepted", "parse_optional_u32 discards a parse failure with %s" % swallowed, pu.where())
        elif not has_parse: rep.undecided("R05.6", "parse-optional-shape", "parse_optional_u32 does not parse with str::parse::<u32>", pu.where())
        else: rep.bad("R05.6", "non-numeric-accepted", "parse_optional_u32 does not propagate a parse failure", pu.where())
    # an out-of-range value must be rejected, not truncated
    parsers.narrowing_casts(F, rep, "R05.6", (B, "crate::version::zerv::vars::"), "bump / override values")
    # ---- R05.10 `index=value`: the value is everything after the first '=' ------------------------------------------------------------
    for nm in ("parse_bump_spec", "parse_override_spec"):
        ps = zfn(F, "<impl crate::version::zerv::core::Zerv>::" + nm)
        if not rep.anchor("R05.10", "Zerv::" + nm, ps): continue
        rep.fn_seen(ps)
        pi_ = mir.inlined(F, ps, depth=3, keep=("parse_index", "parse_value"))
        nval = 0
        for h in [pi_] + mir.closures_in(F, pi_):
            for bi, t in h.calls():
                if not (mir.callee(t) or "").endswith("::parse_value") or not t[2]: continue
                nval += 1
                site = "%s bb%d line %s" % (h.where(), bi, h.blocks[bi]["line"])
                how = set()
                hh = h
                ops = [(hh, t[2][0])]
                # a value handed to a closure (`.map(|v| parse_value(v, ..))`) is the element of the mapped Option / iterator
                if h.kind == "closure":
                    par = F.fn(h.parent) if h.parent else None
                    par = pi_ if par is not None and par.path == ps.path else par
                    if par is not None:
                        for b2, t2 in par.calls():
                            if any(a[0] in ("cp", "mv") and any(o.kind == "agg" and mir.rv_at(o.fn, *o.data)[1].get("path") == h.path for o in mir.trace_op(par, a)) for a in t2[2][1:]):
                                ops.append((par, t2[2][0]))
                for g_, op in ops:
                    for k, d in mir.deep_origins(g_, op, stop=()):
                        if k == "call" and d.isdigit() and g_.blocks[int(d)]["t"][0] == "call":
                            t2 = g_.blocks[int(d)]["t"]; c2 = mir.callee(t2) or ""
                            if c2.endswith("str>::split_once"): how.add("split_once")
                            elif c2.endswith("str>::splitn"): how.add("splitn:%s" % mir.const_arg(g_, t2[2][1]))
                            elif c2.endswith("str>::split") or c2.endswith("str>::rsplit") or c2.endswith("str>::rsplit_once") or c2.endswith("str>::rsplitn"): how.add(c2.rsplit("::", 1)[-1])
                if how and how <= {"split_once", "splitn:2"}:
                    rep.ok("R05.10", "%s: the value is the rest of the spec after the first '=' (%s)" % (nm, sorted(how)), sample=site, nontrivial_key=nm + "val")
                elif how & {"split", "rsplit", "rsplit_once", "rsplitn"}:
                    rep.bad("R05.10", "value-cut:" + nm, "%s takes the value from %s of the spec: a value containing '=' (base64 padding, k=v) is cut or mis-assigned instead of being used whole" % (nm, sorted(how)), site)
                else:
                    rep.undecided("R05.10", "value-origin:" + nm, "cannot relate the value handed to parse_value to a split of the spec (%s)" % sorted(how), site)
        rep.floor("R05.10", "parse_value calls in " + nm, nval, 1)
    # ---- R05.13 --tag-version replaces the whole version: each field is the parsed tag's field, nothing of the detected one survives ----
    atv = [f_ for p_, f_ in F.fns.items() if p_.endswith("ZervVars::apply_tag_version_overrides") and f_.kind != "closure"]
    if rep.anchor("R05.13", "ZervVars::apply_tag_version_overrides", atv):
        rep.fn_seen(atv[0])
        ai = mir.inlined(F, atv[0], depth=2, keep=("parse_with_format", "from"))
        VF = ("epoch", "major", "minor", "patch", "pre_release", "post", "dev")
        nvf = 0
        for bi, si, st in ai.stmts():
            if st[0] != "=" or len(st[1]) < 2: continue
            if st[1][0] != 1:
                # a helper spliced in writes through its own copy of `self`: the base local must be (a reborrow of) parameter 1
                os_ = [o for o in mir.trace_place(ai, [st[1][0]]) if o.kind != "partial"]      # writes to parts of *self are not definitions of the pointer
                if not os_ or not all(o.kind == "param" and o.data == 1 and not o.fields() for o in os_): continue
            fl = [e[2] for e in st[1][1:] if not isinstance(e, str) and e[0] == "f"]
            if not fl or fl[-1] not in VF or st[2][0] != "use": continue
            nvf += 1
            site = "%s bb%d line %s" % (ai.where(), bi, ai.blocks[bi]["line"])
            own = False; comb = set()
            def walk(g_, op, depth=0, seen=None):
                nonlocal own
                seen = seen if seen is not None else set()
                if depth > 6: return
                for o in mir.trace_op(g_, op, transparent=()):
                    k = (o.kind, str(o.data))
                    if k in seen: continue
                    seen.add(k)
                    if o.kind == "param" and o.data == 1 and o.fields()[-1:] == [fl[-1]]: own = True
                    if o.kind == "call":
                        t2 = o.fn.blocks[o.data]["t"]; comb.add((mir.callee(t2) or "?").rsplit("::", 1)[-1])
                        for a in t2[2]: walk(o.fn, a, depth + 1, seen)
            walk(ai, st[2][1])
            if own: rep.bad("R05.13", "tag-override-keeps-detected:" + fl[-1], "--tag-version fills %s from the parsed tag combined with the value already detected (%s): a final tag given as override keeps the detected pre-release / epoch, so the result is not the given version (1.0.0 becomes 1.0.0-rc.2)" % (fl[-1], sorted(comb)), site)
            else: rep.ok("R05.13", "--tag-version sets %s from the parsed tag alone" % fl[-1], sample=site, nontrivial_key="tv" + fl[-1])
        rep.floor("R05.13", "version fields written by apply_tag_version_overrides", nvf, 7)
    # ---- R05.12 per index: override, then bump, in ONE step per spec, lower index first; no spec is dropped before the duplicate check ----
    pss = zfn(F, "<impl crate::version::zerv::core::Zerv>::process_schema_section")
    if rep.anchor("R05.12", "Zerv::process_schema_section", pss):
        rep.fn_seen(pss)
        psi = mir.inlined(F, pss, depth=2, keep=("process_schema_component", "parse_and_validate_process_specs"))
        calls_ = [(h, bi, t) for h in [psi] + mir.closures_in(F, psi) for bi, t in h.calls() if (mir.callee(t) or "").endswith("::process_schema_component") and len(t[2]) >= 5]
        split = []
        for h, bi, t in calls_:
            for nm, a in (("override", t[2][3]), ("bump", t[2][4])):
                os_ = mir.trace_op(h, a)
                if os_ and all((o.kind == "agg" and mir.rv_at(o.fn, *o.data)[1].get("variant") == "None") or (o.kind == "const" and isinstance(o.data, dict) and o.data.get("v") == "None") for o in os_):
                    split.append((nm, "%s bb%d line %s" % (h.where(), bi, h.blocks[bi]["line"])))
        if not calls_: rep.undecided("R05.12", "section-loop-shape", "process_schema_section does not call process_schema_component", pss.where())
        elif split or len(calls_) > 1:
            rep.bad("R05.12", "override-and-bump-split", "process_schema_section applies the overrides and the bumps of a section in separate steps (%d calls of process_schema_component; constant None passed for %s): an override at a higher index is applied before, and then reset by, a bump at a lower index (`--core 2=9 --bump-core 1` gives x.y.0 where `--patch 9 --bump-minor` gives x.y.9)" % (len(calls_), sorted({x[0] for x in split})), (split[0][1] if split else pss.where()))
        else: rep.ok("R05.12", "each spec's override and bump are handed to process_schema_component together, once", nontrivial_key="onestep")
    rts = F.fn("crate::cli::version::args::resolved::TemplateResolver::resolve_template_strings")
    if rep.anchor("R05.12", "TemplateResolver::resolve_template_strings", rts):
        rep.fn_seen(rts)
        DROP = ("::contains", "::dedup", "::dedup_by", "::dedup_by_key", "::retain", "HashSet<T, S>::insert", "BTreeSet<T, A>::insert", "::sort", "::sort_unstable", "::reverse", "::rev", "::filter", "::skip", "::take", "::unique", "IndexSet<T, S>::insert")
        hits = sorted({(mir.callee(t) or "").rsplit("::", 1)[-1] for h in [rts] + mir.closures_in(F, rts) + F.children(rts.path) for bi, t in h.calls() if any((mir.callee(t) or "").endswith(x) for x in DROP)})
        if hits: rep.bad("R05.12", "specs-dropped", "the rendered --core / --bump-core ... specs pass through %s before they reach the duplicate-index check: a spec written twice is silently applied once instead of being rejected" % hits, rts.where())
        else: rep.ok("R05.12", "every index spec given on the command line reaches the spec parser (rendered one to one, in order)", nontrivial_key="specs1to1")
    # ---- R05.11 the argument pre-check of --bump-<section> accepts every index spelling the spec parser understands ----------------------
    pi2 = zfn(F, "<impl crate::version::zerv::core::Zerv>::parse_index")
    vi = [f_ for p_, f_ in F.fns.items() if p_.endswith("::is_valid_index") and "cli::version::args" in p_ and f_.kind != "closure"]
    if rep.anchor("R05.11", "Zerv::parse_index", pi2) and rep.anchor("R05.11", "bump pre-validation is_valid_index", vi):
        rep.fn_seen(pi2, vi[0])
        def markers(g):
            out = set()
            for h in [mir.inlined(F, g, depth=2)] + F.children(g.path):
                for bi, t in h.calls():
                    c = mir.callee(t) or ""
                    if any(c.endswith(x) for x in ("str>::strip_prefix", "str>::starts_with", "str>::trim_start_matches")) and len(t[2]) > 1:
                        v = mir.const_arg(h, t[2][1])
                        if isinstance(v, str) and len(v) == 1 and not v.isalnum(): out.add(v)
            return out
        need = markers(pi2); have = markers(vi[0])
        missing = sorted(need - have - {"+"})
        if not need: rep.undecided("R05.11", "index-markers", "parse_index strips no marker the rule recognises", pi2.where())
        elif missing: rep.bad("R05.11", "index-form-rejected:" + "".join(missing), "the spec parser understands indices written with %s (parse_index), but the pre-check of --bump-core / --bump-extra-core / --bump-build (is_valid_index) knows only %s: `--bump-core ~1` is refused with \"must be in format 'index[=value]'\" although `--core ~1=v` addresses the same component" % (missing, sorted(have)), vi[0].where())
        else: rep.ok("R05.11", "every index marker parse_index understands (%s) is accepted by the bump pre-check" % sorted(need), nontrivial_key="idxforms")
    pp = zfn(F, "<impl crate::version::zerv::core::Zerv>::parse_and_validate_process_specs")
    if rep.anchor("R05.6", "Zerv::parse_and_validate_process_specs", pp):
        rep.fn_seen(pp)
        dup = 0
        for bi, si, st in pp.stmts():
            if st[0] == "=" and st[2][0] == "agg" and st[2][1].get("variant") == "InvalidBumpTarget":
                if any(d[0] == "call" and (d[1] or "").endswith("HashSet::<T, S, A>::insert") and pol is False for d, pol, dd in mir.guards_of(pp, bi)): dup += 1
        if dup >= 2: rep.ok("R05.6", "duplicate indices among overrides and among bumps are rejected (insert == false => Err)", nontrivial_key="dup")
        else: rep.bad("R05.6", "duplicate-accepted", "duplicate index detection is missing (%d of 2 sites)" % dup, pp.where())
        srt = any("sort" in (mir.callee(t) or "") for bi, t in pp.calls())
        if srt: rep.ok("R05.6", "specs are sorted by index before processing (flag order independence)", nontrivial_key="sort")
        else: rep.bad("R05.6", "specs-unsorted", "parsed specs are not sorted: the result would depend on the order the flags are written", pp.where())
    # ---- R05.7 phase order in to_zerv -------------------------------------------------------------------------------
    tz = zfn(F, "zerv_draft::ZervDraft::to_zerv")
    if rep.anchor("R05.7", "ZervDraft::to_zerv", tz):
        rep.fn_seen(tz)
        seq = ["apply_context_overrides", "create_zerv_version", "ResolvedArgs::resolve", "apply_component_processing", "normalize"]
        at = {}
        for bi, t in tz.calls():
            c = mir.callee(t) or ""
            for s_ in seq:
                if c.endswith("::" + s_) or c.endswith(s_): at.setdefault(s_, bi)
        dom = mir.dominators(tz)
        bad = [s_ for s_ in seq if s_ not in at]
        for a, b in zip(seq, seq[1:]):
            if a in at and b in at and at[a] not in dom.get(at[b], ()): bad.append("%s does not precede %s" % (a, b))
        if not bad: rep.ok("R05.7", "to_zerv: context overrides < schema choice < template resolution < component processing < normalize", nontrivial_key="phases")
        else: rep.bad("R05.7", "phase-order", "to_zerv phase order broken: %s" % bad, tz.where())
    # ---- R05.9 an override sets its value whenever it is given: the write depends on the flag's presence, not on its value ---------------
    n_ov = 0
    for p_, g in sorted(F.fns.items()):
        if not (p_.startswith("crate::version::zerv::vars::") and "apply_" in p_.rsplit("::", 1)[-1] and "override" in p_.rsplit("::", 1)[-1]) or g.kind == "closure": continue
        rep.fn_seen(g)
        for bi, si, st in g.stmts():
            if st[0] != "=" or len(st[1]) < 2 or st[1][0] != 1: continue
            fl = [e for e in st[1][1:] if not isinstance(e, str) and e[0] == "f"]
            if not fl or not fl[-1][3].endswith("vars::ZervVars"): continue
            n_ov += 1
            valued = []
            for d, pol, dd in mir.guards_of(g, bi):
                if d[0] == "bin" and d[1] in ("Gt", "Ge", "Lt", "Le", "Ne", "Eq"):
                    # a comparison on the payload of the override flag itself
                    for opnd in (d[2], d[3]):
                        if isinstance(opnd, list) and opnd and opnd[0] in ("cp", "mv"):
                            if any(o.kind == "param" and o.data == 2 and "overrides" in o.path_str() for o in mir.trace_op(g, opnd)): valued.append(d[1])
            site = "%s bb%d line %s" % (g.where(), bi, g.blocks[bi]["line"])
            if valued: rep.bad("R05.9", "override-depends-on-value:" + fl[-1][2], "the override of vars.%s is applied only when the given value passes a %s test: some explicitly given values (e.g. 0) are silently ignored" % (fl[-1][2], valued), site)
            else: rep.ok("R05.9", "override of vars.%s is applied whenever the flag is given" % fl[-1][2], sample=site, nontrivial_key="ov" + p_ + fl[-1][2])
    rep.floor("R05.9", "override writes in ZervVars::apply_*_overrides", n_ov, 5)
    # ---- R05.8 checked arithmetic ---------------------------------------------------------------------------------------
    cb = zfn(F, "<impl crate::version::zerv::core::Zerv>::checked_bump")
    n_unchecked = 0
    for p, f in F.fns.items():
        if not p.startswith(B) or "parse_index" in p: continue
        for bi, b in enumerate(f.blocks):
            if b["cleanup"]: continue
            t = b["t"]
            if t[0] == "assert" and t[3].startswith("Overflow(Add") or (t[0] == "assert" and t[3].startswith("Overflow(Mul")):
                if panics.const_bound(f, t[5][0]) is not None and panics.const_bound(f, t[5][1]) is not None: continue
                if panics.collection_index(f, t[5][0]) and panics.const_bound(f, t[5][1]) is not None: continue      # index arithmetic (position + 1), not a version number
                n_unchecked += 1
                rep.bad("R05.8", "unchecked-add:" + p.replace("crate::", ""), "bump arithmetic uses an unchecked `+`: it panics in debug builds and wraps silently in release builds", "%s bb%d line %s" % (f.where(), bi, b["line"]))
    if n_unchecked == 0: rep.ok("R05.8", "no unchecked addition in version::zerv::bump", nontrivial_key="noadd")
    if cb is not None:
        rep.fn_seen(cb)
        has_ca = any("checked_add" in (mir.callee(t) or "") for bi, t in cb.calls())
        to_err = any("ok_or" in (mir.callee(t) or "") for bi, t in cb.calls())
        if has_ca and not to_err:
            # `match a.checked_add(b) { Some(v) => Ok(v), None => Err(..) }`
            for bi, si, st in cb.stmts():
                if st[0] == "=" and st[2][0] == "agg" and st[2][1].get("variant") == "Err":
                    for d, pol, dd in mir.guards_of(cb, bi):
                        if d[0] == "discr" and "Option<" in str(d[2]) and isinstance(pol, tuple) and (("None" in pol[1]) if pol[0] == "in" else ("Some" in pol[1])):
                            if any(o.kind == "call" and "checked_add" in (mir.callee(o.fn.blocks[o.data]["t"]) or "") for o in mir.trace_place(cb, d[1], transparent=())): to_err = True
        bad_arith = [(mir.callee(t) or "").rsplit("::", 1)[-1] for bi, t in cb.calls() if any(x in (mir.callee(t) or "") for x in ("saturating_add", "wrapping_add", "overflowing_add", "unchecked_add"))]
        if has_ca and to_err and not bad_arith:
            rep.ok("R05.8", "checked_bump = checked_add(..) with the None case turned into an error", nontrivial_key="cb")
        elif bad_arith or not has_ca: rep.bad("R05.8", "checked-bump-body", "checked_bump does not use checked_add + error (%s)" % (bad_arith or "no checked_add"), cb.where())
        else: rep.undecided("R05.8", "checked-bump-shape", "checked_bump uses checked_add; how its None case is handled is not recognised", cb.where())
    return core.finish(rep, explanation=EXPL, assumptions=ASSUME, trusted=TRUST)

def promoted_variant(F, expr):
    if isinstance(expr, tuple) and expr[0] == "promoted":
        v = mir.promoted_value(F, {"k": "promoted", "of": expr[1], "idx": expr[2]})
        if v is not None: return mir.show(v).rsplit("::", 1)[-1]
    return None

EXPL = ("Structural clauses of C05, each a table or ordering read from the MIR: the default precedence order constant; the 11-row level dispatch (each Precedence arm calls the processor of that level with the override/bump "
        "fields of the same name, visiting the schema's order once); the six numeric field processors agree as siblings (path-enumerated: override assigns Some(v as u64), bump assigns checked_bump(old.unwrap_or(0), amount) "
        "and then resets from their OWN Precedence constant, writing only their own vars field); the reset table (strict index > current; numbers -> Some(0), pre-release/post/dev -> None, pre-release number -> Some(0), no schema write); "
        "index-addressed dispatch uses the same processors as by-name dispatch; every other Var variant, timestamps, out-of-range and duplicate indices and non-numeric values are rejected, specs are sorted; "
        "to_zerv runs context overrides < schema choice < template resolution < processing < normalize; no unchecked bump arithmetic remains. Not decided: the algebraic law over all flag subsets as a value equation.")
ASSUME = ["clap fields are order-free; HashSet::insert returns false on duplicates"]
TRUST = ["rustc MIR", "zfacts", "rules/c05.py (SymPath decision tables)"]
