"""Entry point: bin/check <ID> [--tier quick|thorough] [--explain path]"""
import importlib, json, os, sys, traceback
sys.path.insert(0, os.path.dirname(os.path.abspath(__file__)))
import core, facts, mir

def main():
    args = sys.argv[1:]
    if not args:
        print("usage: bin/check <ID> [--tier quick|thorough] [--explain report.json]"); return 2
    pid = args[0].upper()
    tier = os.environ.get("VERIF_TIER", "quick")
    explain = None
    i = 1
    while i < len(args):
        if args[i] == "--tier": tier = args[i + 1]; i += 2
        elif args[i] == "--explain": explain = args[i + 1]; i += 2
        else: i += 1
    if tier not in ("quick", "thorough"): tier = "quick"
    try:
        mod = importlib.import_module(pid.lower())
    except ImportError as e:
        print("no rule module for %s: %s" % (pid, e)); return 2
    try:
        fact, key = core.ensure_facts()
        F = facts.Facts(fact)
        rep = core.Report(pid, tier)
        rep.extra["tree_key"] = key
        if tier == "thorough":
            # checker self-tests first (their result is part of the evidence); the verdict below is about /repo itself
            rep.selftest = core.selftest(pid, mod, int(os.environ.get("VERIF_SEED", "0") or 0))
            print("self-test: %d/%d seeded variants detected, %d skipped; %d/%d behaviour-preserving refactorings silent" % (rep.selftest["detected"], rep.selftest["variants"], len(rep.selftest["skipped"]), rep.selftest["neutral_silent"], rep.selftest["neutral"]))
        try:
            rc = mod.check(F, rep, tier)
        except core.CheckBroken:
            raise
        except Exception:
            # the rule code met a MIR shape it cannot handle: that is a gap of the checker, not a verdict about /repo.
            # Rules that ran before it keep their verdicts; the crash is recorded as NOT-DECIDED (never as an alarm).
            tb = traceback.format_exc()
            rep.undecided("internal", "rule-code-exception", tb.strip().splitlines()[-1] + " @ " + " <- ".join(l.strip() for l in tb.splitlines() if l.strip().startswith("File") )[-300:])
            rep.extra["crashed"] = tb[-1500:]
            mod_expl = getattr(mod, "EXPL", "")
            rc = core.finish(rep, explanation=mod_expl, assumptions=getattr(mod, "ASSUME", None), trusted=getattr(mod, "TRUST", None))
        if explain:
            with open(explain) as f: v = json.load(f)
            print("--- explain %s ---" % explain)
            print(json.dumps(v, indent=1, ensure_ascii=False))
            still = [x for x in rep.violations if x["key"] == v.get("key")]
            print("re-derived on the current tree: %s" % ("STILL PRESENT" if still else "not present"))
        return rc
    except core.CheckBroken as e:
        print("CHECK-BROKEN %s: %s" % (pid, e)); return 2
    except Exception:
        traceback.print_exc()
        print("CHECK-BROKEN %s: internal error" % pid); return 2

if __name__ == "__main__":
    sys.exit(main())
