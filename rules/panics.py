"""R13.1: inventory of panic-capable constructs reachable from cli::app::run and their discharge.
Automatic recognisers first (guards, provenance, constants); then the audited table whose `requires`
are re-checked on the current tree on every run.  Anything else is a violation."""
import re
import mir, rx, clapx

PANIC_CALLS = (
    "std::option::Option::<T>::unwrap", "std::option::Option::<T>::expect",
    "std::result::Result::<T, E>::unwrap", "std::result::Result::<T, E>::expect",
    "std::result::Result::<T, E>::unwrap_err", "std::result::Result::<T, E>::expect_err",
    "core::panicking::", "std::rt::begin_panic", "std::process::abort",
    "as std::ops::Index<", "as std::ops::IndexMut<",
    "std::string::String::truncate", "std::string::String::insert", "std::string::String::remove", "std::string::String::drain",
    "std::string::String::split_off", "std::string::String::replace_range", "core::str::<impl str>::split_at",
    "std::vec::Vec::<T, A>::remove", "std::vec::Vec::<T, A>::insert", "std::vec::Vec::<T, A>::swap_remove", "std::vec::Vec::<T, A>::drain",
    "std::vec::Vec::<T, A>::split_off", "copy_from_slice", "unwrap_unchecked", "std::cell::RefCell",
    "core::fmt::rt::Argument::<'_>::from_usize", "std::slice::<impl [T]>::chunks", "core::slice::<impl [T]>::windows",
    "std::time::", "chrono::Duration", "std::iter::Iterator::step_by",
)
IGNORED_ASSERTS = ("MisalignedPointerDereference", "NullPointerDereference")
INT_TYPES = ("u8", "u16", "u32", "u64", "u128", "usize", "i8", "i16", "i32", "i64", "i128", "isize")

class Site:
    def __init__(self, fn, bi, kind, detail, ordinal):
        self.fn = fn; self.bi = bi; self.kind = kind; self.detail = detail; self.ordinal = ordinal
    def key(self):
        return "%s:%s#%d" % (self.fn.path.replace("crate::", ""), self.kind, self.ordinal)
    def where(self):
        return "%s bb%d line %s" % (self.fn.where(), self.bi, self.fn.blocks[self.bi]["line"])

def is_display_tostring(fn, t):
    """ToString::to_string on a type whose Display can fail (chrono's DelayedFormat)"""
    full = t[1].get("full") or ""
    return "ToString" in full and "chrono::format::DelayedFormat" in full

def inventory(F, reach):
    sites = []
    for p in sorted(reach):
        f = F.fns.get(p)
        if f is None: continue
        counts = {}
        for bi, b in enumerate(f.blocks):
            if b["cleanup"]: continue
            t = b["t"]
            kind = None
            if t[0] == "assert":
                if any(t[3].startswith(x) for x in IGNORED_ASSERTS): continue
                kind = "assert:" + t[3]
            elif t[0] == "call":
                names = mir.callee_names(t)
                c = mir.callee(t) or ""
                m = (t[1].get("decl") or c).rsplit("::", 1)[-1]
                if m.startswith("unwrap_or") or m in ("unwrap_or_default", "unwrap_or_else"): continue
                if any(x in n for x in PANIC_CALLS for n in names) or is_display_tostring(f, t):
                    short = m
                    if "core::panicking" in c: short = "panic"
                    if "Index<" in c or "IndexMut<" in c or "Index<" in (t[1].get("full") or ""):
                        mm = re.search(r"Index(?:Mut)?<([^>]*(?:<[^>]*>)?)>", t[1].get("full") or "")
                        short = "index[%s]" % (mm.group(1).replace("std::ops::", "") if mm else "?")
                    kind = "call:" + short
            if kind is None: continue
            n = counts.get(kind, 0); counts[kind] = n + 1
            sites.append(Site(f, bi, kind, t, n))
    return sites

# ---------------------------------------------------------------------------
# helpers

_F = [None]
_pure = {}
def is_pure_getter(g):
    """a local function that takes only shared references / Copy data and writes through none of its parameters"""
    if g.path in _pure: return _pure[g.path]
    ok = all(not ty.startswith("&mut") for ty in g.locals[1:g.nargs + 1])
    if ok:
        for bi, si, st in g.stmts():
            if st[0] == "=" and st[1][0] <= g.nargs and st[1][0] != 0 and len(st[1]) > 1: ok = False
        for bi, t in g.calls():
            c = mir.callee(t) or ""
            if any(x in c for x in ("RefCell", "Cell<", "Mutex", "set_", "push", "insert")): ok = False
    _pure[g.path] = ok
    return ok

def _okey_origin(o, depth=0):
    if o.kind == "call" and _F[0] is not None and depth < 4:
        t = o.fn.blocks[o.data]["t"]
        g = _F[0].fn(mir.callee(t) or "")
        if g is not None and is_pure_getter(g):
            args = ",".join(okey(o.fn, a, depth=depth + 1) for a in t[2])
            p = o.path_str()
            return "getter %s(%s)%s" % (g.path, args, "." + p if p else "")
    return repr(o)

def okey(fn, op_or_place, is_place=False, depth=0):
    """canonical text of where a value comes from (used to test 'same collection')"""
    os = mir.trace_place(fn, op_or_place) if is_place else mir.trace_op(fn, op_or_place)
    return "|".join(sorted(_okey_origin(o, depth) for o in os))

def const_bound(fn, op, depth=0):
    """upper bound of an integer operand built only from constants, casts of bools and additions; None if unknown"""
    if depth > 30: return None
    if op[0] == "c":
        v = mir.const_of(op)
        if isinstance(v, bool): return 1
        return v if isinstance(v, int) else None
    best = 0
    os = mir.trace_op(fn, op, transparent=())
    if not os: return None
    for o in os:
        if o.kind == "const":
            c = o.data
            if c.get("k") == "int": b = c["v"]
            elif c.get("k") == "bool": b = 1
            else: return None
        elif o.kind == "rv":
            rv = mir.rv_at(o.fn, *o.data)
            if rv[0] == "bin" and rv[1] in ("Add", "AddWithOverflow"):
                a = const_bound(o.fn, rv[2], depth + 1); c = const_bound(o.fn, rv[3], depth + 1)
                if a is None or c is None: return None
                b = a + c
            elif rv[0] == "cast":
                b = const_bound(o.fn, rv[2], depth + 1)
                if b is None:
                    if rv[3] == "bool": b = 1
                    else: return None
            else: return None
        else:
            return None
        best = max(best, b)
    return best

def describe_len(fn, op, depth=0):
    """('len', collection_key) | ('const', n) | ('min', [..]) | ('sub', e, n) | ('range_item', lo, hi) | ('unknown',)"""
    if depth > 8: return ("unknown",)
    v = mir.const_of(op) if op[0] == "c" else None
    if isinstance(v, int) and not isinstance(v, bool): return ("const", v)
    os = mir.trace_op(fn, op, transparent=())
    if len(os) != 1: return ("unknown",)
    o = os[0]
    if o.path and all((not isinstance(e, str)) and e[0] == "cast" for e in o.path):
        o = mir.Origin(o.kind, o.data, [], o.fn)      # integer casts do not change which quantity this is
    if o.kind == "const" and o.data.get("k") == "int": return ("const", o.data["v"])
    if o.kind == "call":
        t = o.fn.blocks[o.data]["t"]
        c = mir.callee(t) or ""
        if not o.path and c.endswith("::len") and t[2]:
            return ("len", okey(o.fn, t[2][0]))
        # `usize::from(u16::MAX)`, `x.into()`: a lossless integer conversion of whatever it converts
        if not o.path and len(t[2]) == 1 and (c.endswith(">::from") or c.endswith(">::into")) and any(x in (t[1].get("full") or "") for x in ("From<u8>", "From<u16>", "From<u32>", "Into<usize>", "Into<u64>", "From<bool>")):
            return describe_len(o.fn, t[2][0], depth + 1)
        if not o.path and c.endswith("::min") and len(t[2]) == 2:
            return ("min", [describe_len(o.fn, t[2][0], depth + 1), describe_len(o.fn, t[2][1], depth + 1)])
        if not o.path and c.endswith("::max") and len(t[2]) == 2:
            return ("max", [describe_len(o.fn, t[2][0], depth + 1), describe_len(o.fn, t[2][1], depth + 1)])
        if (c.endswith("Iterator>::next") or (t[1].get("decl") or "") == "std::iter::Iterator::next") and [e for e in o.path if not isinstance(e, str) and e[0] == "f"]:
            # item of a Range iterator
            for o2 in mir.trace_op(o.fn, t[2][0], transparent=("IntoIterator>::into_iter",)):
                if o2.kind == "agg":
                    rv = mir.rv_at(o2.fn, *o2.data)
                    if rv[1].get("k") == "adt" and rv[1]["adt"].endswith("ops::Range") and len(rv[2]) == 2:
                        return ("range_item", describe_len(o2.fn, rv[2][0], depth + 1), describe_len(o2.fn, rv[2][1], depth + 1))
        return ("unknown",)
    if o.kind == "rv":
        rv = mir.rv_at(o.fn, *o.data)
        if rv[0] == "un" and rv[1] == "PtrMetadata":
            return ("len", okey(o.fn, rv[2]))
        if rv[0] == "bin" and rv[1] in ("Sub", "SubWithOverflow"):
            c = mir.const_of(rv[3]) if rv[3][0] == "c" else None
            if isinstance(c, int): return ("sub", describe_len(o.fn, rv[2], depth + 1), c)
        if rv[0] == "cast":
            return describe_len(o.fn, rv[2], depth + 1)
    return ("unknown",)

def len_lower_bound(fn, block, ckey):
    """largest n such that a dominating guard establishes len(collection) >= n"""
    lb = 0
    for desc, pol, d in mir.guards_of(fn, block):
        if desc[0] == "call":
            c = desc[1] or ""; t = desc[2]
            if c.endswith("::is_empty") and pol is False and okey(fn, t[2][0]) == ckey: lb = max(lb, 1)
        if desc[0] == "bin" and isinstance(pol, bool):
            op, a, b = desc[1], desc[2], desc[3]
            da, db = describe_len(fn, a), describe_len(fn, b)
            if da == ("len", ckey) and db[0] == "const":
                n = db[1]
                if (op == "Gt" and pol) or (op == "Le" and not pol): lb = max(lb, n + 1)
                if (op == "Ge" and pol) or (op == "Lt" and not pol): lb = max(lb, n)
                if (op == "Eq" and pol) or (op == "Ne" and not pol): lb = max(lb, n)
    return lb

def index_in_bounds(fn, block, idx_op, coll_op):
    """idx < len(coll) established by guards / loop structure"""
    ckey = okey(fn, coll_op)
    d = describe_len(fn, idx_op)
    if d[0] == "const":
        lb = len_lower_bound(fn, block, ckey)
        return lb > d[1], "constant index %d under len >= %d" % (d[1], lb)
    def below_len(e):
        if e == ("len", ckey): return True
        if e[0] == "min": return any(below_len(x) for x in e[1])
        return False
    if d[0] == "range_item" and below_len(d[2]):
        return True, "loop index of a range ending at the collection's length"
    if d[0] == "sub" and d[1][0] == "range_item" and below_len(d[1][2]):
        return True, "loop index minus a constant (range ends at the length)"
    # explicit comparison idx < len / idx >= len -> return
    ikey = okey(fn, idx_op)
    for desc, pol, dd in mir.guards_of(fn, block):
        if desc[0] == "bin" and isinstance(pol, bool):
            op, a, b = desc[1], desc[2], desc[3]
            if okey(fn, a) == ikey and below_len(describe_len(fn, b)):
                if (op == "Lt" and pol) or (op == "Ge" and not pol):
                    return True, "guard index < len"
    # `let Some(x) = part.get(index) else { return .. }` earlier on the path: index < len(part); the indexed collection is that
    # part or a copy of it (to_vec / clone of the same getter result)
    ckeys = {ckey}
    for o in mir.trace_op(fn, coll_op, transparent=mir.TRANSPARENT + ("]>::to_vec", "::to_vec", "ToOwned>::to_owned", "::as_mut_slice", "DerefMut>::deref_mut", "IndexMut", "::as_mut")):
        ckeys.add(_okey_origin(o))
    for desc, pol, dd in mir.guards_of(fn, block):
        if desc[0] == "discr" and "Option<" in str(desc[2]) and isinstance(pol, tuple) and (("Some" in pol[1]) if pol[0] == "in" else ("None" in pol[1])):
            for o in mir.trace_place(fn, desc[1], transparent=()):
                if o.kind == "call":
                    t2 = o.fn.blocks[o.data]["t"]
                    if (mir.callee(t2) or "").endswith("::get") and len(t2[2]) > 1 and okey(fn, t2[2][1]) == ikey:
                        rk = {okey(fn, t2[2][0])} | {_okey_origin(o2) for o2 in mir.trace_op(fn, t2[2][0], transparent=mir.TRANSPARENT)}
                        if rk & ckeys: return True, "index already used in a successful checked get() on the same collection"
    return False, "no dominating bound for the index (%s)" % (d,)

def ascii_provenance(F, fn, op, depth=0):
    """the string is produced by formatting integers (Display / LowerHex / zero padding): pure ASCII"""
    if depth > 6: return False
    os = mir.trace_op(fn, op, transparent=mir.TRANSPARENT + ("std::hint::must_use",))
    if not os: return False
    for o in os:
        if o.kind != "call": return False
        t = o.fn.blocks[o.data]["t"]
        c = mir.callee(t) or ""
        if c.endswith("std::fmt::format") or c == "std::fmt::format":
            ok = False
            for b2, pieces in mir.fmt_templates(o.fn):
                lits = "".join(p for p in pieces if isinstance(p, str))
                if not lits.isascii(): return False
            # every Argument::new_* in the function formats an integer
            for b2, t2 in o.fn.calls():
                c2 = mir.callee(t2) or ""
                if "core::fmt::rt::Argument::<'_>::new_" in c2:
                    ty = (t2[1].get("targs") or ["?"])[0]
                    if ty not in INT_TYPES: return False
                    ok = True
            if not ok: return False
        elif "ToString" in (t[1].get("full") or "") and (t[1].get("targs") or ["?"])[0] in INT_TYPES:
            continue
        else:
            return False
    return True

WHY = []
def input_independent(F, fn, op, param_ok=False, depth=0, seen=None):
    r = _input_independent(F, fn, op, param_ok, depth, seen)
    return r

def _fail(msg):
    if len(WHY) < 5: WHY.append(msg)
    return False

def _input_independent(F, fn, op, param_ok=False, depth=0, seen=None):
    """True iff the value depends on constants only (and, when param_ok, on the caller's equally constant arguments).
    Parameters of finite-domain type (bool, &Self of a C-like enum) are treated as constants: the code enumerates them."""
    if seen is None: seen = set()
    if depth > 14: return _fail('depth')
    os = mir.trace_op(fn, op, transparent=())
    if not os: return _fail('no origin in %s' % fn.path)
    for o in os:
        if o.kind == "const": continue
        if o.kind == "param":
            ty = o.fn.locals[o.data] if o.data < len(o.fn.locals) else ""
            if param_ok or ty == "bool" or finite_enum_ref(F, ty): continue
            return _fail("param %s: %s of %s" % (o.data, ty, o.fn.path))
        if o.kind == "agg":
            rv = mir.rv_at(o.fn, *o.data)
            if rv[1].get("k") == "closure":
                # a closure is as constant as what it captures
                if all(input_independent(F, o.fn, a, param_ok, depth + 1, seen) for a in rv[2]): continue
                return _fail("closure capturing input in %s" % o.fn.path)
            if not all(input_independent(F, o.fn, a, param_ok, depth + 1, seen) for a in rv[2]): return False
            continue
        if o.kind == "rv":
            rv = mir.rv_at(o.fn, *o.data)
            ops = [x for x in rv[1:] if isinstance(x, list) and x and x[0] in ("cp", "mv", "c")]
            if not all(input_independent(F, o.fn, a, param_ok, depth + 1, seen) for a in ops): return False
            continue
        if o.kind == "call":
            t = o.fn.blocks[o.data]["t"]
            c = mir.callee(t) or ""
            if effectful(F, c): return _fail("callee %s may read the environment" % c)
            g = F.fn(c)
            if g is not None and (g.path, "body") not in seen:
                # the callee may pick among constants by branching on its parameters: only the DATA reaching its
                # return value matters (a finite choice the code enumerates)
                seen.add((g.path, "body"))
                if input_independent(F, g, ["cp", [0]], False, depth + 1, seen): continue
            # otherwise: a deterministic function of constant arguments is constant
            if not all(input_independent(F, o.fn, a, param_ok, depth + 1, seen) for a in t[2]):
                return False
            if c.endswith("box_assume_init_into_vec_unsafe"):
                # vec![..]: the elements are written through a raw pointer in the same function
                for bi2, si2, st in o.fn.stmts():
                    if st[0] == "=" and st[2][0] == "agg" and st[2][1].get("k") == "array":
                        if not all(input_independent(F, o.fn, a, param_ok, depth + 1, seen) for a in st[2][2]): return False
            continue
        if o.kind == "partial":
            # a vec![..] being filled in place: look at what is written
            continue
        return _fail("origin %r in %s" % (o, o.fn.path))
    return True

EFFECTS = ("std::env::", "std::fs::", "std::process::", "std::io::stdin", "std::time::", "chrono::Utc::now", "chrono::Local", "rand::", "std::net::", "std::thread::", "getrandom", "RandomState")
_eff = {}
def effectful(F, callee):
    """the callee (or anything it can call, for local functions) touches clock / environment / filesystem / processes"""
    if callee in _eff: return _eff[callee]
    if any(x in callee for x in EFFECTS): _eff[callee] = True; return True
    g = F.fn(callee)
    if g is None: _eff[callee] = False; return False
    cg = _CG[0]
    res = False
    if cg is not None:
        for p in cg.closure([callee]):
            if any(x in p for x in EFFECTS): res = True; break
    _eff[callee] = res
    return res
_CG = [None]

PURE_EXTERNAL = ("std::vec::Vec::<T>::new", "std::boxed::Box::<T>::new", "box_assume_init_into_vec_unsafe", "std::string::ToString>::to_string",
                 "as std::string::ToString>::to_string", "std::string::String::new", "as std::convert::From", "as std::convert::Into", "std::vec::from_elem",
                 "as std::clone::Clone>::clone", "as std::borrow::ToOwned>::to_owned", "std::slice::<impl [T]>::to_vec", "as std::default::Default>::default",
                 "as std::ops::Try>::branch", "as std::ops::Deref>::deref", "std::slice::<impl [T]>::into_vec", "std::option::Option::<T>::unwrap", "std::result::Result::<T, E>::unwrap",
                 "std::result::Result::<T, E>::expect", "indexmap::", "std::iter::Iterator::collect", "std::iter::Iterator::map", "IntoIterator>::into_iter", "std::vec::Vec::<T, A>::push", "std::vec::Vec::<T, A>::extend")

def finite_enum_ref(F, ty):
    m = re.match(r"^&(?:mut )?(crate::[A-Za-z0-9_:]+)$", ty)
    if not m: return False
    a = F.adts.get(m.group(1))
    return bool(a and a["kind"] == "enum" and all(not v["fields"] for v in a["variants"]))

# ---------------------------------------------------------------------------
# automatic discharge

def auto(F, s, ctx):
    f, bi, t = s.fn, s.bi, s.detail
    k = s.kind
    if k.startswith("assert:Overflow("):
        ops = t[5]
        if len(ops) == 2:
            a = const_bound(f, ops[0]); b = const_bound(f, ops[1])
            if "Add" in k and a is not None and b is not None and a + b < 2 ** 31:
                return True, "constant-bounded addition (<= %d)" % (a + b)
            if "Add" in k and b is not None:
                # x + const under a dominating upper bound on x
                xk = okey(f, ops[0])
                for desc, pol, d in mir.guards_of(f, bi):
                    if desc[0] == "bin" and isinstance(pol, bool) and okey(f, desc[2]) == xk:
                        if (desc[1] in ("Lt", "Le") and pol) or (desc[1] in ("Ge", "Gt") and not pol):
                            return True, "x + %d under a dominating upper bound on x" % b
            if "Sub" in k and b is not None:
                da = describe_len(f, ops[0])
                if da[0] == "len":
                    # len(x) - k under ends_with(x, S), |S| >= k   or   len >= k
                    for desc, pol, d in mir.guards_of(f, bi):
                        if desc[0] == "call" and (desc[1] or "").endswith("::ends_with") and pol is True:
                            tt = desc[2]
                            sfx = mir.const_arg(f, tt[2][1])
                            if isinstance(sfx, str) and len(sfx.encode()) >= b and okey(f, tt[2][0]) == da[1] or (isinstance(sfx, str) and len(sfx.encode()) >= b and same_string(f, tt[2][0], da[1])):
                                return True, "len - %d under ends_with(%r)" % (b, sfx)
                    if len_lower_bound(f, bi, da[1]) >= b:
                        return True, "len - %d under len >= %d" % (b, b)
                if da[0] == "range_item" and da[1][0] == "const" and da[1][1] >= b:
                    return True, "loop index (starting at %d) minus %d" % (da[1][1], b)
            if "Add" in k:
                # signed: (len as isize) + idx under idx < 0   (non-negative + negative cannot overflow)
                for i in (0, 1):
                    if from_unsigned_len(f, ops[i]):
                        ok2 = okey(f, ops[1 - i])
                        for desc, pol, d in mir.guards_of(f, bi):
                            if desc[0] == "bin" and isinstance(pol, bool) and okey(f, desc[2]) == ok2 and desc[3][0] == "c" and mir.const_of(desc[3]) == 0:
                                if (desc[1] == "Ge" and not pol) or (desc[1] == "Lt" and pol):
                                    return True, "(len as isize) + idx under idx < 0"
                # len(a) + len(b): each is at most isize::MAX, the sum fits usize
                if collection_index(f, ops[0]) and collection_index(f, ops[1]):
                    return True, "sum of two lengths / indices of in-memory collections (each <= isize::MAX)"
                # position / length of an in-memory collection plus a small constant: bounded by isize::MAX + c
                if b is not None and b <= 65536 and collection_index(f, ops[0]):
                    return True, "index or length of an in-memory collection (<= isize::MAX) plus %d" % b
                # unit-step counter: every definition of x is a constant or x + small constant
                if b is not None and b <= 16 and unit_counter(f, ops[0]):
                    return True, "counter that starts at a constant and grows by %d per loop iteration (cannot reach 2^64)" % b
        return False, None
    if k == "assert:OverflowNeg":
        # the assert's condition is Eq(x, MIN) == false: find x
        x = neg_operand(f, bi)
        if x is not None:
            xk = okey(f, x)
            for desc, pol, d in mir.guards_of(f, bi):
                if desc[0] == "bin" and isinstance(pol, bool) and okey(f, desc[2]) == xk and desc[3][0] == "c" and mir.const_of(desc[3]) == 0:
                    if (desc[1] in ("Le", "Lt") and not pol) or (desc[1] in ("Gt", "Ge") and pol):
                        return True, "-x under a dominating guard x >= 0"
            if from_unsigned_len(f, x):
                return True, "-(len as isize): a collection length never equals isize::MIN"
        return False, None
    if k == "assert:BoundsCheck":
        ops = t[5]
        if len(ops) == 2:
            ln = describe_len(f, ops[0])
            if ln[0] == "len":
                d = describe_len(f, ops[1])
                ok, why = index_in_bounds_key(f, bi, ops[1], ln[1])
                if ok: return True, why
            # pair[0] / pair[1] inside a closure over `slice.windows(N)` / `chunks_exact(N)`: every element has exactly N items
            idx = mir.const_of(ops[1]) if ops[1][0] == "c" else const_bound(f, ops[1])
            if f.kind == "closure" and isinstance(idx, int):
                n = fixed_window_len(F, f, ops[0])
                if n is not None and idx < n: return True, "constant index %d into an element of windows(%d)/chunks_exact(%d)" % (idx, n, n)
        return False, None
    if k.startswith("call:index["):
        full = t[1].get("full") or ""
        coll, idx = t[2][0], t[2][1]
        if "RangeFull>" in full:
            return True, "v[..] (the full range) is the whole slice: it cannot be out of bounds"
        if "RangeTo<usize>" in full or "RangeFrom<usize>" in full or "Range<usize>" in full:
            return slice_ok(F, f, bi, t, full)
        if "Index<usize>" in full or "IndexMut<usize>" in full:
            ok, why = index_in_bounds(f, bi, idx, coll)
            if ok: return True, why
            # v[p] with p = v.iter().position(..) of the same collection
            ck = okey(f, coll)
            for o in mir.trace_op(f, idx, transparent=mir.PASS_THROUGH):
                if o.kind == "call" and ((mir.callee(o.fn.blocks[o.data]["t"]) or "").endswith("::position") or (mir.callee(o.fn.blocks[o.data]["t"]) or "").endswith("::rposition")):
                    t2 = o.fn.blocks[o.data]["t"]
                    for o2 in mir.trace_op(o.fn, t2[2][0], transparent=mir.TRANSPARENT + ("::iter", "IntoIterator>::into_iter", "::by_ref")):
                        pass
                    src = [o3 for o3 in mir.trace_op(o.fn, t2[2][0], transparent=())]
                    for o3 in src:
                        if o3.kind == "call" and (mir.callee(o3.fn.blocks[o3.data]["t"]) or "").endswith("::iter"):
                            if okey(o3.fn, o3.fn.blocks[o3.data]["t"][2][0]) == ck or same_string(o3.fn, o3.fn.blocks[o3.data]["t"][2][0], ck):
                                return True, "index returned by position() over the same collection"
            return (False, why)
        return False, None
    if k in ("call:windows", "call:chunks", "call:chunks_exact", "call:rchunks"):
        n = mir.const_arg(f, t[2][1]) if len(t[2]) > 1 else None
        if isinstance(n, int) and n > 0: return True, "window / chunk size is the non-zero constant %d" % n
        return False, "window / chunk size is not a non-zero constant"
    if k in ("call:unwrap", "call:expect"):
        arg = t[2][0]
        # regex capture group that participates in every match
        for o in mir.trace_op(f, arg, transparent=()):
            if o.kind == "call":
                t2 = o.fn.blocks[o.data]["t"]
                c2 = mir.callee(t2) or ""
                if c2.endswith("regex::Captures::<'h>::name"):
                    g = mir.const_arg(o.fn, t2[2][1])
                    groups = ctx.regex_groups(o.fn)
                    if groups is not None and g in groups and groups[g]["mandatory"] and not groups[g]["parent"]:
                        return True, "capture group %r participates in every match of the regex" % g
                    return False, "capture group %r is optional in the regex" % g
                if c2 == "regex::Regex::new":
                    pat = mir.const_arg(o.fn, t2[2][0])
                    if isinstance(pat, str) and ctx.compiles(pat):
                        return True, "Regex::new on a constant pattern that compiles"
                    return False, "Regex::new pattern is not a constant that compiles"
        if input_independent(F, f, arg):
            return True, "input-independent value (constants / finite-domain parameters only): the outcome is the same on every execution of this path"
        return False, None
    if k == "call:to_string" and is_display_tostring(f, t):
        # chrono's DelayedFormat only fails on an invalid format string
        for o in mir.trace_op(f, t[2][0], transparent=()):
            if o.kind == "call":
                t2 = o.fn.blocks[o.data]["t"]
                if (mir.callee(t2) or "").endswith("::format") and len(t2[2]) >= 2:
                    cs = const_strings(F, o.fn, t2[2][1], ctx.cg)
                    if cs and all(valid_strftime(x) for x in cs):
                        return True, "chrono format strings are the constants %s (valid strftime)" % sorted(cs)
                    return False, "chrono format string is not a known-valid constant (%s)" % (sorted(cs) if cs else "input-derived")
        return False, None
    if k == "call:truncate":
        # a string formatted from integers is ASCII: every offset <= len is a char boundary, and a cut beyond len is a no-op
        if ascii_provenance(F, f, t[2][0]):
            return True, "String::truncate on a string formatted from integers (ASCII): any position is a char boundary, beyond len is a no-op"
        # String::truncate(s, cut) with cut = index from s.char_indices()
        cut = t[2][1]
        sk = okey(f, t[2][0])
        for o in mir.trace_op(f, cut, transparent=()):
            ok_o = False
            if o.kind == "call" and (mir.callee(o.fn.blocks[o.data]["t"]) or "").endswith("Iterator::nth") or (o.kind == "call" and "CharIndices" in (o.fn.blocks[o.data]["t"][1].get("full") or "")):
                t2 = o.fn.blocks[o.data]["t"]
                for o2 in mir.trace_op(o.fn, t2[2][0], transparent=("IntoIterator>::into_iter",)):
                    if o2.kind == "call" and (mir.callee(o2.fn.blocks[o2.data]["t"]) or "").endswith("::char_indices"):
                        if okey(o2.fn, o2.fn.blocks[o2.data]["t"][2][0]) == sk: ok_o = True
            if not ok_o: return False, "truncate position is not an index produced by char_indices() of the same string"
        return True, "truncate at an index yielded by char_indices() of the same string (char boundary, <= len)"
    if k == "call:from_usize":
        # run-time width/precision: every feasible path must bound the value by u16::MAX
        x = t[2][0]
        xk = okey(f, x)
        ok_all, why = all_paths(f, bi, lambda conds: any(c[0] == xk and c[1] in ("le", "lt") and c[2] <= 65535 + (1 if c[1] == "lt" else 0) for c in conds))
        if ok_all: return True, "format width bounded by u16::MAX on every feasible path"
        return False, "run-time format width/precision is not bounded by u16::MAX on every path (%s)" % why
    if k == "call:panic":
        # unreachable!() in the default arm of a switch whose scrutinee is bounded by a dominating guard
        for desc, pol, d in mir.guards_of(f, bi):
            tt = f.blocks[d]["t"]
            if pol and isinstance(pol, tuple) and pol[0] == "vals" and pol[3] and not pol[1]:
                excluded = sorted(pol[2])
                if excluded and excluded == list(range(len(excluded))):
                    xk = okey(f, tt[1])
                    for desc2, pol2, d2 in mir.guards_of(f, d):
                        if desc2[0] == "bin" and desc2[1] == "Lt" and pol2 is True and okey(f, desc2[2]) == xk:
                            c = mir.const_of(desc2[3]) if desc2[3][0] == "c" else None
                            if isinstance(c, int) and c <= len(excluded):
                                return True, "default arm after arms 0..%d under x < %d" % (len(excluded) - 1, c)
        return False, None
    return False, None

def neg_operand(f, bi):
    """operand x of the `-x` whose overflow this Assert block checks"""
    t = f.blocks[bi]["t"]
    nxt = t[4]
    for st in f.blocks[nxt]["s"]:
        if st[0] == "=" and st[2][0] == "un" and st[2][1] == "Neg": return st[2][2]
    for st in f.blocks[bi]["s"]:
        if st[0] == "=" and st[2][0] == "bin" and st[2][1] == "Eq": return st[2][2]
    return None

INDEX_SOURCES = ("Iterator::position", "Iterator::rposition", "Iterator>::position", "Iterator>::rposition", "::len", "Iterator::count", "core::str::<impl str>::find", "core::str::<impl str>::rfind", "::binary_search", "::get_index_of", "::get_full")
def collection_index(f, op, depth=0):
    """every origin of the operand is the result of position()/len()/count()/find() (possibly unwrapped with ?, ok_or, unwrap),
    or an overflow-checked sum of such values and small constants (lengths of live in-memory objects cannot add up beyond the address space)"""
    if op[0] == "c":
        v = mir.const_of(op)
        return isinstance(v, int) and 0 <= v <= 65536
    os = mir.trace_op(f, op, transparent=mir.PASS_THROUGH + ("Option::<T>::ok_or_else", "Option::<T>::ok_or", "as std::ops::Try>::branch", "Option::<T>::unwrap_or"))
    if not os: return False
    for o in os:
        if o.kind == "rv" and depth < 4:
            rv = mir.rv_at(o.fn, *o.data)
            if rv[0] == "bin" and rv[1] in ("AddWithOverflow", "Add") and collection_index(o.fn, rv[2], depth + 1) and collection_index(o.fn, rv[3], depth + 1): continue
            return False
        if o.kind != "call": return False
        c = mir.callee(o.fn.blocks[o.data]["t"]) or ""
        if any(c.endswith(x) or x in c for x in INDEX_SOURCES): continue
        g = _F[0].fn(c) if _F[0] is not None else None
        if g is not None and depth < 3 and collection_index(g, ["cp", [0]], depth + 1): continue      # a local getter returning such an index
        return False
    return True

def fixed_window_len(F, c, len_op):
    """N when the slice whose length is bounds-checked is the closure's parameter and the closure is passed to an adaptor
    over slice::windows(N) / chunks_exact(N) with constant N > 0"""
    src = mir.trace_op(c, len_op)
    if not src or not all(o.kind == "param" and o.data >= 2 for o in src):
        # the Len operand is usually PtrMetadata of the parameter: look at the locals' types instead
        if not any(ty.startswith("&[") or ty.startswith("&&[") for ty in c.locals[2:c.nargs + 1]): return None
    parent = F.fn(c.parent) if c.parent else None
    if parent is None: return None
    for bi, t in parent.calls():
        full = t[1].get("full") or ""
        if c.path.rsplit("::", 1)[-1].strip("{}") and ("Windows<" in full or "ChunksExact<" in full) and any(o.kind == "agg" and mir.rv_at(o.fn, *o.data)[1].get("path") == c.path for a in t[2] for o in mir.trace_op(parent, a, transparent=())):
            for b2, t2 in parent.calls():
                c2 = mir.callee(t2) or ""
                if (c2.endswith("]>::windows") or c2.endswith("]>::chunks_exact")) and len(t2[2]) > 1:
                    n = mir.const_arg(parent, t2[2][1])
                    if isinstance(n, int) and n > 0: return n
    return None

def from_unsigned_len(f, op):
    d = describe_len(f, op)
    return d[0] == "len"

def unit_counter(f, op):
    if op[0] not in ("cp", "mv") or len(op[1]) != 1: return False
    x = op[1][0]
    # follow a temp copy back to the user variable
    defs = mir.local_defs(f).get(x, [])
    if len(defs) == 1 and defs[0][0] == "s" and defs[0][4][0] == "use" and defs[0][4][1][0] in ("cp", "mv") and len(defs[0][4][1][1]) == 1:
        x = defs[0][4][1][1][0]; defs = mir.local_defs(f).get(x, [])
    if not defs: return False
    for d in defs:
        if d[0] != "s": return False
        rv = d[4]
        if rv[0] == "use" and rv[1][0] == "c": continue
        if rv[0] == "use" and rv[1][0] in ("cp", "mv"):
            # x = move (_t.0) where _t = AddWithOverflow(x, c)
            src = rv[1][1]
            sd = mir.local_defs(f).get(src[0], [])
            if len(sd) == 1 and sd[0][0] == "s" and sd[0][4][0] == "bin" and sd[0][4][1] in ("AddWithOverflow", "Add"):
                a, c = sd[0][4][2], sd[0][4][3]
                if c[0] == "c" and isinstance(mir.const_of(c), int) and a[0] in ("cp", "mv"):
                    continue
            return False
        if rv[0] == "bin" and rv[1] in ("Add",) and rv[3][0] == "c": continue
        return False
    return True

VALID_STRFTIME = set("YCyGgmbBhdeaAwujUWVDxFvHkIlPpMSfTXrRZzstn%") | {"-", "_", "0", ".", "3", "6", "9", ":", "#", "+"}
def valid_strftime(s):
    i = 0
    while i < len(s):
        if s[i] == "%":
            i += 1
            while i < len(s) and s[i] in "-_0.369:#+": i += 1
            if i >= len(s) or s[i] not in "YCyGgmbBhdeaAwujUWVDxFvHkIlPpMSfTXrRZzstn%": return False
        i += 1
    return True

def const_strings(F, f, op, cg, depth=0):
    """all constant strings an operand can be, following parameters to every local caller; None if not all constant"""
    out = set()
    for o in mir.trace_op(f, op):
        if o.kind == "const" and o.data.get("k") == "str": out.add(o.data["v"])
        elif o.kind == "param" and not o.path and depth < 3:
            sites = cg.sites.get(o.fn.path, [])
            if not sites: return None
            for g, bi in sites:
                sub = const_strings(F, g, g.blocks[bi]["t"][2][o.data - 1], cg, depth + 1)
                if sub is None: return None
                out |= sub
        elif o.kind == "agg" and depth < 4:
            rv = mir.rv_at(o.fn, *o.data)
            for a in rv[2]:
                sub = const_strings(F, o.fn, a, cg, depth + 1)
                if sub is None: return None
                out |= sub
        elif o.kind == "call" and depth < 3 and F.fn(mir.callee(o.fn.blocks[o.data]["t"]) or "") is not None:
            # the payload of an Option / the value returned by a local lookup helper: every string it can return
            g = F.fn(mir.callee(o.fn.blocks[o.data]["t"]))
            sub = _returned_strings(F, g, cg, depth + 1)
            if sub is None: return None
            out |= sub
        else:
            return None
    return out

def _returned_strings(F, g, cg, depth):
    out = set()
    for o in mir.trace_place(g, [0], transparent=()):
        if o.kind == "const" and o.data.get("k") == "str": out.add(o.data["v"])
        elif o.kind == "agg":
            rv = mir.rv_at(o.fn, *o.data)
            for a in rv[2]:
                sub = const_strings(F, o.fn, a, cg, depth)
                if sub is None: return None
                out |= sub
        elif o.kind == "const": continue          # None / unit variants
        else:
            sub = None
            if o.kind in ("param", "call"): return None
            return None
    return out

def same_string(fn, op, key):
    return okey(fn, op) == key

def index_in_bounds_key(fn, block, idx_op, ckey):
    d = describe_len(fn, idx_op)
    if d[0] == "const":
        lb = len_lower_bound(fn, block, ckey)
        return lb > d[1], "constant index %d under len >= %d" % (d[1], lb)
    def below_len(e):
        if e == ("len", ckey): return True
        if e[0] == "min": return any(below_len(x) for x in e[1])
        return False
    if d[0] == "range_item" and below_len(d[2]): return True, "loop index of a range ending at the collection's length"
    return False, "no bound"

def slice_ok(F, f, bi, t, full):
    coll, rng = t[2][0], t[2][1]
    ckey = okey(f, coll)
    r = None
    for o in mir.trace_op(f, rng, transparent=()):
        if o.kind == "agg":
            rv = mir.rv_at(o.fn, *o.data)
            r = (rv[1], rv[2])
    if r is None: return False, "range operand is not a literal range"
    kd, ops = r
    name = kd.get("adt", "").rsplit("::", 1)[-1]
    guards = mir.guards_of(f, bi)
    if name == "RangeTo":
        e = describe_len(f, ops[0])
        # x[..len(x)-k] under ends_with(x, S)
        if e[0] == "sub" and e[1] == ("len", ckey):
            for desc, pol, d in guards:
                if desc[0] == "call" and (desc[1] or "").endswith("::ends_with") and pol is True:
                    tt = desc[2]; sfx = mir.const_arg(f, tt[2][1])
                    if isinstance(sfx, str) and sfx.isascii() and len(sfx) >= e[2] and okey(f, tt[2][0]) == ckey:
                        return True, "x[..len-%d] under ends_with(x, %r): in bounds and on a char boundary (ASCII suffix)" % (e[2], sfx)
            return False, "x[..len-k] without a dominating ends_with guard"
        # s[..min(len(s), n)]: never past the end
        if e[0] == "min" and any(x == ("len", ckey) for x in e[1]):
            if ascii_provenance(F, f, coll): return True, "s[..min(len(s), n)], s formatted from integers (ASCII): in bounds and on a char boundary"
            return False, "s[..min(len, n)] is in bounds but s is not of ASCII provenance: may split a multi-byte character"
        # s[..cut] with cut = byte offset yielded by s.char_indices(): in bounds and on a char boundary
        via_ci = []
        for o in mir.trace_op(f, ops[0], transparent=()):
            hit = False
            if o.kind == "call":
                t2 = o.fn.blocks[o.data]["t"]
                if (mir.callee(t2) or "").endswith("Iterator::nth") or (mir.callee(t2) or "").endswith("Iterator>::next") or "CharIndices" in (t2[1].get("full") or ""):
                    for o2 in mir.trace_op(o.fn, t2[2][0], transparent=("IntoIterator>::into_iter",)):
                        if o2.kind == "call" and (mir.callee(o2.fn.blocks[o2.data]["t"]) or "").endswith("::char_indices") and okey(o2.fn, o2.fn.blocks[o2.data]["t"][2][0]) == ckey: hit = True
            via_ci.append(hit)
        if via_ci and all(via_ci): return True, "s[..cut] with cut an offset yielded by s.char_indices() (char boundary, <= len)"
        # s[..n] under len(s) > n with s of ASCII provenance
        nk = okey(f, ops[0])
        bounded = False
        for desc, pol, d in guards:
            if desc[0] == "bin" and isinstance(pol, bool):
                if describe_len(f, desc[2]) == ("len", ckey) and okey(f, desc[3]) == nk and ((desc[1] in ("Gt", "Ge") and pol) or (desc[1] in ("Lt", "Le") and not pol)):
                    bounded = True
        if bounded and ascii_provenance(F, f, coll):
            return True, "s[..n] under len(s) >= n, s formatted from integers (ASCII): in bounds and on a char boundary"
        if bounded: return False, "s[..n] is length-guarded but s is not of ASCII provenance: may split a multi-byte character"
        return False, "s[..n] without a dominating length guard"
    if name == "RangeFrom":
        e = describe_len(f, ops[0])
        if e[0] == "len":
            for desc, pol, d in guards:
                if desc[0] == "call" and (desc[1] or "").endswith("::starts_with") and pol is True:
                    tt = desc[2]
                    if okey(f, tt[2][0]) == ckey and okey(f, tt[2][1]) == e[1]:
                        return True, "y[len(p)..] under y.starts_with(p)"
        return False, "y[n..] without a dominating starts_with guard"
    return False, "unrecognised range form " + name

# ---------------------------------------------------------------------------
class Ctx:
    def __init__(self, F, cg=None):
        self.F = F; self._groups = {}; self._compiles = {}; self.cg = cg; _F[0] = F; _CG[0] = cg
    def regex_groups(self, fn):
        key = fn.path
        if key in self._groups: return self._groups[key]
        res = None
        for s in rx.statics_used(fn):
            p, _ = rx.regex_of_static(self.F, s)
            if p is not None:
                out = rx.run({"r": {"pat": p, "unicode": True}}, [])
                if out["patterns"]["r"].get("ok"):
                    res = {g["name"]: g for g in out["patterns"]["r"]["groups"]}
        self._groups[key] = res
        return res
    def compiles(self, pat):
        if pat not in self._compiles:
            out = rx.run({"r": {"pat": pat, "unicode": True}}, [])
            self._compiles[pat] = bool(out["patterns"]["r"].get("ok"))
        return self._compiles[pat]


def all_paths(f, target, pred, limit=20000):
    """pred(conds) must hold on every feasible acyclic path entry -> target.
    conds: (operand_key, rel, const) for integer comparisons against constants, (key, 'is', bool) for boolean switches."""
    try:
        paths = [p for p in mir.enum_paths(f, limit=limit, stop_blocks=[target]) if p[-1] == target]
    except mir.TooManyPaths:
        return False, "too many paths"
    if not paths: return False, "no path"
    n = 0
    for p in paths:
        conds = []; boolvals = {}; feasible = True
        for i, b in enumerate(p[:-1]):
            t = f.blocks[b]["t"]
            if t[0] != "switch": continue
            nxt = p[i + 1]
            desc = mir.describe_discr(f, b)
            ty = t[4] if len(t) > 4 else ""
            if ty != "bool": continue
            truth = not any(v == 0 and tb == nxt for v, tb in t[2])
            if nxt == t[3] and any(v == 0 for v, tb in t[2]): truth = True
            while desc[0] == "not": desc = desc[1]; truth = not truth
            dc = describe_len(f, desc[3]) if desc[0] == "bin" else ("unknown",)
            if desc[0] == "bin" and dc[0] == "const":
                k = okey(f, desc[2]); c = dc[1]; op = desc[1]
                rel = {"Gt": ("gt", "le"), "Ge": ("ge", "lt"), "Lt": ("lt", "ge"), "Le": ("le", "gt")}.get(op)
                if rel: conds.append((k, rel[0] if truth else rel[1], c))
            else:
                if desc[0] == "call": k = "call:" + str(desc[1]) + ":" + ",".join(okey(f, a) for a in desc[2][2])
                elif desc[0] == "place": k = "place:" + okey(f, desc[1], True)
                else:
                    k = okey(f, t[1])
                if k in boolvals and boolvals[k] != truth: feasible = False; break
                boolvals[k] = truth
        if not feasible: continue
        n += 1
        if not pred(conds): return False, "path %s" % p[:12]
    return (n > 0), "%d feasible paths" % n
