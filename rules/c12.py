"""C12 - Zerv RON is a lossless interchange format and invalid objects are refused (structural clauses).
R12.1 serde symmetry over the Zerv type closure; R12.2 validate-before-render chain; R12.3 who may write schema parts;
R12.4 validator completeness; R12.5 validator vs resolver pattern tables."""
import re
import core, mir, clapx, panics

ROOT_TY = "crate::version::zerv::core::Zerv"

def type_closure(F, root):
    seen = []; work = [root]
    while work:
        t = work.pop()
        if t in seen or t not in F.adts: continue
        seen.append(t)
        for v in F.adts[t]["variants"]:
            for fld in v["fields"]:
                for m in re.findall(r"crate::[A-Za-z0-9_:]+", fld["ty"]):
                    if m not in seen: work.append(m)
    return seen

def serde_fns(F, ty):
    ser = de = None; fields_const = variants_const = None
    for p, f in F.fns.items():
        if f.d.get("impl_self") == ty and (f.d.get("impl_trait") or "").endswith("_serde::Serialize") and p.endswith("::serialize"): ser = f
        if f.d.get("impl_self") == ty and (f.d.get("impl_trait") or "").endswith("_serde::Deserialize") and p.endswith("::deserialize"): de = f
    if ser is None or de is None:
        for p, f in F.fns.items():
            if ("Serialize for %s>::serialize" % ty) in p and p.endswith(">::serialize"): ser = ser or f
            if ("Deserialize<'de> for %s>::deserialize" % ty) in p and p.endswith(">::deserialize"): de = de or f
    if de is not None:
        fields_const = F.fn(de.path + "::FIELDS"); variants_const = F.fn(de.path + "::VARIANTS")
    return ser, de, fields_const, variants_const

def ser_names(F, ser):
    """(kind, [(name, conditional?)]) from the derived serialize body"""
    names = []; kind = None
    for bi, t in ser.calls():
        c = (t[1].get("decl") or mir.callee(t) or "")
        m = c.rsplit("::", 1)[-1]
        if m == "serialize_field" and "SerializeStruct" in c or (m == "serialize_field" and len(t[2]) >= 2):
            nm = mir.const_arg(ser, t[2][1])
            cond = any(not (d[0] == "discr" and str(d[2]).startswith("std::ops::ControlFlow")) and not (d[0] == "discr" and "Result<" in str(d[2])) for d, pol, dd in mir.guards_of(ser, bi))
            names.append((nm, cond)); kind = "struct"
        elif m == "skip_field":
            names.append((mir.const_arg(ser, t[2][1]), "skip")); kind = "struct"
        elif m in ("serialize_unit_variant", "serialize_newtype_variant", "serialize_tuple_variant", "serialize_struct_variant"):
            nm = mir.const_arg(ser, t[2][3]) if len(t[2]) > 3 else None
            names.append((nm, False)); kind = "enum"
    return kind, names

def ok_only_after_validate(fn):
    """(paths returning Ok, problems): on every feasible path of fn that returns Ok(..), a ::validate() call ran and succeeded -
    `validate()?`, `match validate() { Ok(()) => .., Err(e) => return Err(e) }`, or the result is `validate().map(|()| value)`"""
    def mentions(e, pred, depth=0):
        if depth > 12 or not isinstance(e, tuple): return False
        if pred(e): return True
        for x in e[1:]:
            if isinstance(x, tuple) and mentions(x, pred, depth + 1): return True
            if isinstance(x, list):
                for y in x:
                    if isinstance(y, tuple) and (mentions(y, pred, depth + 1) or (len(y) == 2 and isinstance(y[1], tuple) and mentions(y[1], pred, depth + 1))): return True
        return False
    is_val = lambda e: e[0] == "call" and isinstance(e[1], str) and e[1].endswith("::validate")
    try: sps = mir.sym_paths(fn, limit=20000)
    except mir.TooManyPaths: return None, ["too many paths"]
    n = 0; probs = []
    for sp in sps:
        r = sp.ret()
        if r[0] == "call" and isinstance(r[1], str) and (r[1].endswith("Result::<T, E>::map") or r[1].endswith("Result::<T, E>::and_then") or r[1].endswith("Result::<T, E>::and")) and r[2] and mentions(r[2][0], is_val):
            n += 1; continue
        if not (r[0] == "agg" and str(r[1]).endswith("Result::Ok")): continue
        n += 1
        good = False
        for d, truth, b in sp.facts():
            if isinstance(truth, tuple) and d[0] == "discr" and mentions(d[1], is_val) and truth[0] == "eq" and tuple(truth[1]) == (0,): good = True
        if not good: probs.append("Ok returned on a path without a successful validate() (conditions %s)" % [mir.show(d)[:40] for d, t_, b in sp.facts()][:4])
    return n, probs

def check(F, rep, tier):
    if not rep.anchor("R12.1", "struct Zerv", F.adts.get(ROOT_TY)):
        return core.finish(rep, explanation=EXPL)
    tys = type_closure(F, ROOT_TY)
    rep.floor("R12.1", "types in the Zerv closure", len(tys), 8)
    rep.extra["zerv_type_closure"] = [t.rsplit("::", 1)[-1] for t in tys]
    for ty in tys:
        short = ty.rsplit("::", 1)[-1]
        ser, de, fconst, vconst = serde_fns(F, ty)
        if ser is None or de is None:
            rep.bad("R12.1", "no-serde:" + short, "type %s in the Zerv closure has no Serialize/Deserialize impl pair" % short, None); continue
        rep.fn_seen(ser, de)
        adt = F.adts[ty]
        derived_s = bool(ser.d.get("derived") or ser.d.get("exp")); derived_d = bool(de.d.get("derived") or de.d.get("exp"))
        if derived_s != derived_d:
            rep.bad("R12.1", "one-sided-custom:" + short, "%s derives one of Serialize/Deserialize and hand-writes the other" % short, ser.where()); continue
        if not derived_s:
            handwritten_pair(F, rep, ty, ser, de); continue
        kind, names = ser_names(F, ser)
        sn = [n for n, c in names]
        for n, c in names:
            if c == "skip": rep.bad("R12.1", "skip-field:%s.%s" % (short, n), "%s.%s can be skipped when serialising (skip_serializing_if): the emitted object would not parse back identically" % (short, n), ser.where())
            elif c: rep.bad("R12.1", "conditional-field:%s.%s" % (short, n), "%s.%s is serialised conditionally" % (short, n), ser.where())
        if adt["kind"] == "struct":
            nfields = len(adt["variants"][0]["fields"])
            dn = clapx.const_str_array(F, fconst, ["cp", [0]]) if fconst is not None else None
            if dn is None:
                rep.undecided("R12.1", "unrecognised-shape:" + short, "cannot read the deserialiser's FIELDS of %s" % short, de.where()); continue
            if sorted(map(str, sn)) == sorted(dn) and len(sn) == nfields:
                rep.ok("R12.1", "%s: %d fields serialised unconditionally = the deserialiser's FIELDS = the struct's fields" % (short, nfields), sample=sorted(dn), nontrivial_key=short)
            else:
                rep.bad("R12.1", "field-asymmetry:" + short, "%s: serialised fields %s, deserialiser FIELDS %s, struct has %d fields" % (short, sorted(map(str, sn)), sorted(dn), nfields), ser.where())
        else:
            dn = clapx.const_str_array(F, vconst, ["cp", [0]]) if vconst is not None else None
            nv = len(adt["variants"])
            if dn is None:
                rep.undecided("R12.1", "unrecognised-shape:" + short, "cannot read the deserialiser's VARIANTS of %s" % short, de.where()); continue
            if sorted(set(map(str, sn))) == sorted(dn) and len(dn) == nv:
                rep.ok("R12.1", "%s: %d variants, serialised names = the deserialiser's VARIANTS" % (short, nv), sample=sorted(dn), nontrivial_key=short)
            else:
                rep.bad("R12.1", "variant-asymmetry:" + short, "%s: serialised variant names %s, deserialiser VARIANTS %s, enum has %d variants" % (short, sorted(set(map(str, sn))), sorted(dn), nv), ser.where())
    validate_before_render(F, rep)
    who_writes_schema(F, rep)
    validator_complete(F, rep)
    validator_vs_resolver(F, rep)
    whole_document(F, rep)
    # ---- R12.6 dependencies ------------------------------------------------------------------------------------------------------
    # "the emitted object re-reads to itself / pipe == direct" needs the object to be normalised AFTER the overrides and bumps
    # (epoch Some(0) -> None), and "malformed input is refused" needs stdin to be decoded strictly
    # ---- R12.10 what was read from stdin is processed as read: the stdin pipeline itself writes no variable of the object ---------------
    nsp = 0; altered = 0
    for p_, g_ in sorted(F.fns.items()):
        if "crate::cli::version::stdin_pipeline::" not in p_ or "::tests" in p_: continue
        nsp += 1; rep.fn_seen(g_)
        for bi, si, st in g_.stmts():
            if st[0] != "=" or len(st[1]) < 2: continue
            fl = [e for e in st[1][1:] if not isinstance(e, str) and e[0] == "f" and str(e[3]).endswith("::ZervVars")]
            if fl:
                altered += 1
                rep.bad("R12.10", "stdin-object-altered:" + fl[-1][2], "the stdin pipeline writes vars.%s of the object it has just read (%s): the object that is processed and re-emitted is not the one that was piped in, so piping changes the result (e.g. a timestamp rescaled)" % (fl[-1][2], p_.replace("crate::", "").rsplit("::", 1)[-1]), "%s bb%d line %s" % (g_.where(), bi, g_.blocks[bi]["line"]))
    if not altered: rep.ok("R12.10", "the stdin pipeline (%d functions) writes no variable of the object it read; overrides and bumps are applied by the shared processing steps" % nsp, nontrivial_key="stdinasread")
    rep.floor("R12.10", "functions of the stdin pipeline", nsp, 1)
    core.borrow(F, rep, "c05", "C05", "R12.6", ("R05.7:phase-order",), "overrides and bumps are applied before normalize()")
    ex = F.fn("crate::cli::app::extract_stdin_once")
    if rep.anchor("R12.6", "cli::app::extract_stdin_once", ex):
        rep.fn_seen(ex)
        exi = mir.inlined(F, ex, depth=2, ok=lambda F_, caller, cp, g: g is not None and g.kind != "closure" and cp.startswith("crate::cli::app::"))
        names = [mir.callee(t) or "" for bi, t in exi.calls()]
        lossy = [c for c in names if any(x in c for x in ("from_utf8_lossy", "from_utf8_unchecked", "from_utf16_lossy"))]
        strict = [c for c in names if c.rsplit("::", 1)[-1] == "read_to_string" or c.endswith("io::read_to_string") or c.endswith("String::from_utf8") or c.endswith("str::from_utf8") or c.endswith("::read_line")]
        if lossy: rep.bad("R12.6", "stdin-lossy-decoding", "stdin is decoded with %s: a document that is not valid UTF-8 is silently altered and then parsed instead of being refused" % [c.rsplit("::", 1)[-1] for c in lossy], ex.where())
        elif strict: rep.ok("R12.6", "stdin is read with a UTF-8 validating read (%s)" % sorted({c.rsplit("::", 1)[-1] for c in strict}), nontrivial_key="stdinutf8")
        else: rep.undecided("R12.6", "stdin-decoding-shape", "how stdin is decoded is not recognised (%s)" % [c.rsplit("::", 1)[-1] for c in names][:6], ex.where())
    # ---- R12.8 no hand-written field deserialiser changes what was written -------------------------------------------------------------
    # (the document types derive Serialize and Deserialize; a `deserialize_with` helper that filters or rewrites a value makes the
    # object read back differ from the object emitted)
    ALTER = ("::filter", "::unwrap_or", "::unwrap_or_default", "::unwrap_or_else", "::trim", "::trim_end", "::trim_start", "::to_lowercase", "::to_uppercase", "::replace", "::or", "::or_else",
             "::min", "::max", "::truncate", "::take", "::parse", "::and_then", "::then_some", "::then", "::clamp", "::saturating_sub", "::saturating_add")
    nhelp = 0
    for p_, g_ in F.fns.items():
        if "::tests" in p_ or "test_utils" in p_ or "::_::" in p_ or g_.kind == "closure": continue
        if not (p_.startswith("crate::version::zerv::") or p_.startswith("<crate::version::zerv::")): continue
        cs = [mir.callee(t) or "" for h_ in [g_] + F.children(g_.path) for bi, t in h_.calls()]
        if not any("Deserialize" in c and c.endswith("::deserialize") for c in cs): continue
        if g_.d.get("impl_trait"): continue            # a whole hand-written Deserialize impl is the business of R12.3/R12.4
        nhelp += 1
        alt = sorted({c.rsplit("::", 1)[-1] for c in cs if any(c.endswith(x) for x in ALTER)})
        if alt: rep.bad("R12.8", "field-deserialiser-alters:" + p_.rsplit("::", 1)[-1], "the field deserialiser %s passes the value it read through %s: some written values (e.g. Some(\"\")) are read back as something else, so an emitted object no longer re-reads to itself" % (p_.rsplit("::", 1)[-1], alt), g_.where())
        else: rep.undecided("R12.8", "field-deserialiser:" + p_.rsplit("::", 1)[-1], "a hand-written field deserialiser whose effect on the value is not evaluated", g_.where())
    if not nhelp: rep.ok("R12.8", "the Zerv document types are read by derived field-by-field deserialisation only (no deserialize_with helper)", nontrivial_key="nohelper")
    # ---- R12.7 what the writer can nest, the reader must be able to read ------------------------------------------------------------
    # vars.custom is a serde_json::Value of any depth; the emitter (ron::ser::to_string_pretty) writes every level, the readers use
    # ron::from_str, i.e. ron's default recursion limit (128, two levels per JSON nesting step in RON's encoding of a Value)
    zv = F.adts.get("crate::version::zerv::vars::ZervVars")
    custom_ty = None
    if zv:
        for v in zv["variants"]:
            for fl in v["fields"]:
                if fl["name"] == "custom": custom_ty = fl["ty"]
    writers = [(p_, bi) for p_, g_ in F.fns.items() if "::tests" not in p_ for bi, t in g_.calls() if (mir.callee(t) or "") in ("ron::ser::to_string_pretty", "ron::to_string", "ron::ser::to_string") and "zerv::core::Zerv" in str((t[1].get("targs") or [""])[0])]
    readers = [(g_, bi, mir.callee(t)) for p_, g_ in F.fns.items() if "::tests" not in p_ and "test_utils" not in p_ for bi, t in g_.calls()
               if (mir.callee(t) or "") in ("ron::from_str", "ron::de::from_str", "ron::Options::from_str") and "zerv::core::Zerv" in str((t[1].get("targs") or [""])[0])]
    if custom_ty is None or not writers or not readers:
        rep.undecided("R12.7", "depth-shape", "custom field type %s, %d writer(s), %d reader(s) of Zerv documents found" % (custom_ty, len(writers), len(readers)), None)
    else:
        unbounded = "serde_json::Value" in custom_ty or "tera::Value" in custom_ty
        depth_checked = any((mir.callee(t) or "").startswith("crate::") and "depth" in (mir.callee(t) or "").rsplit("::", 1)[-1].lower() for p_, g_ in F.fns.items() if "::tests" not in p_ for bi, t in g_.calls())
        for g_, bi, c in readers:
            site = "%s bb%d line %s" % (g_.where(), bi, g_.blocks[bi]["line"])
            key = g_.path.replace("crate::", "").rsplit("::", 1)[-1]
            if "format_handler" in g_.path: key = "parse_and_validate_zerv_ron"      # the stdin reader, whatever helper holds the call
            if c.endswith("Options::from_str"): rep.undecided("R12.7", "reader-options:" + key, "the reader uses explicit ron::Options: its recursion limit is not evaluated", site)
            elif unbounded and not depth_checked and "format_handler" not in g_.path:
                rep.ok("R12.7", "%s re-reads a document zerv produced in-process from an object that was itself read or built from flags (same limit as the stdin reader)" % key, sample=site, nontrivial_key="depthint" + key)
            elif unbounded and not depth_checked:
                rep.bad("R12.7", "reader-depth-limit:" + key, "%s reads Zerv documents with ron::from_str (default recursion limit 128) while vars.custom (%s) is emitted at any nesting depth: an emitted object whose custom JSON is nested 64 levels or more is refused when read back" % (key, custom_ty), site)
            else: rep.ok("R12.7", "%s: nesting depth of what is emitted is bounded" % key, sample=site, nontrivial_key="depth" + key)
    return core.finish(rep, explanation=EXPL, assumptions=ASSUME, trusted=TRUST)

def handwritten_pair(F, rep, ty, ser, de):
    short = ty.rsplit("::", 1)[-1]
    # recognised inverse: serialize = to_vec().serialize ; deserialize = Vec::deserialize -> from_precedences
    s_calls = [mir.callee(t) or "" for bi, t in ser.calls()]
    d_calls = [mir.callee(t) or "" for bi, t in de.calls()]
    s_ok = any(c.endswith("::to_vec") for c in s_calls) and any("Serialize" in (t[1].get("full") or "") and "Vec<" in (t[1].get("full") or "") for bi, t in ser.calls())
    d_ok = any("Deserialize" in (t[1].get("full") or "") and "Vec<" in (t[1].get("full") or "") for bi, t in de.calls()) and any(c.endswith("::from_precedences") for c in d_calls)
    if s_ok and d_ok:
        # to_vec and from_precedences are inverse on order: to_vec = keys().cloned().collect(); from = into_iter().map(|p|(p,())).collect() over an insertion-ordered IndexMap
        tv = [x for x in F.find(short + "::to_vec")]; fp = [x for x in F.find(short + "::from_precedences")]
        ordered = tv and fp and any("indexmap::IndexMap" in (t[1].get("full") or "") and (mir.callee(t) or "").endswith("::keys") for bi, t in tv[0].calls())
        if ordered: rep.ok("R12.1", "%s: hand-written pair is the recognised inverse (to_vec().serialize / Vec::deserialize -> from_precedences over an insertion-ordered map)" % short, nontrivial_key=short)
        else: rep.bad("R12.1", "handwritten-order:" + short, "%s serialises through a helper that does not preserve insertion order" % short, ser.where())
    else:
        rep.undecided("R12.1", "unrecognised-shape:handwritten:" + short, "hand-written Serialize/Deserialize of %s is not the recognised inverse pair (ser calls %s, de calls %s)" % (short, s_calls[:4], d_calls[:4]), ser.where())

def validate_before_render(F, rep):
    rule = "R12.2"
    rp = F.fn("crate::cli::version::pipeline::run_version_pipeline")
    tz = F.fn("crate::cli::version::zerv_draft::ZervDraft::to_zerv")
    cz = F.fn("crate::cli::version::zerv_draft::ZervDraft::create_zerv_version")
    zn = F.fn("crate::version::zerv::core::Zerv::new")
    for nm, f in (("run_version_pipeline", rp), ("ZervDraft::to_zerv", tz), ("ZervDraft::create_zerv_version", cz), ("Zerv::new", zn)):
        if not rep.anchor(rule, nm, f): return
    rep.fn_seen(rp, tz, cz, zn)
    def origin_is_call_to(f, op, target):
        os = mir.trace_op(f, op, transparent=("Try>::branch",))
        return bool(os) and all(o.kind == "call" and (mir.callee(o.fn.blocks[o.data]["t"]) or "") == target for o in os)
    # 1. the Zerv handed to format_output is the result of to_zerv
    fo = [(bi, t) for bi, t in rp.calls() if (mir.callee(t) or "").endswith("OutputFormatter::format_output")]
    rep.floor(rule, "format_output calls in run_version_pipeline", len(fo), 1)
    for bi, t in fo:
        if origin_is_call_to(rp, t[2][0], tz.path): rep.ok(rule, "rendered object originates from ZervDraft::to_zerv", nontrivial_key="fo%d" % bi)
        else: rep.bad(rule, "render-unvalidated-object", "the object rendered by run_version_pipeline does not come from ZervDraft::to_zerv: %r" % mir.trace_op(rp, t[2][0]), "%s bb%d" % (rp.where(), bi))
    # 2. to_zerv's result originates from create_zerv_version
    rets = mir.trace_place(tz, [0], transparent=())
    payload_ok = False
    for bi, si, st in tz.stmts():
        if st[0] == "=" and st[1] == [0] and st[2][0] == "agg" and st[2][1].get("variant") == "Ok":
            payload_ok = origin_is_call_to(tz, st[2][2][0], cz.path)
    if payload_ok: rep.ok(rule, "to_zerv returns the object built by create_zerv_version", nontrivial_key="tz")
    else: rep.bad(rule, "to-zerv-other-object", "ZervDraft::to_zerv does not return the object produced by create_zerv_version", tz.where())
    # 3. create_zerv_version's result is Zerv::new(..)
    os = mir.trace_place(cz, [0], transparent=())
    os_ok = [o for o in os if not (o.kind == "call" and "from_residual" in (mir.callee(cz.blocks[o.data]["t"]) or ""))]
    if os_ok and all(o.kind == "call" and (mir.callee(cz.blocks[o.data]["t"]) or "") == zn.path for o in os_ok):
        rep.ok(rule, "create_zerv_version returns Zerv::new(schema, vars)", nontrivial_key="cz")
    else: rep.bad(rule, "bypass-zerv-new", "create_zerv_version does not build its result with Zerv::new (validation bypassed): %r" % os, cz.where())
    # 4. in Zerv::new a successful validate() dominates the Ok
    dom = mir.dominators(zn)
    val = [bi for bi, t in zn.calls() if (mir.callee(t) or "").endswith("ZervSchema>::validate") or (mir.callee(t) or "").endswith("::validate")]
    oks = [bi for bi, si, st in zn.stmts() if st[0] == "=" and st[1] == [0] and st[2][0] == "agg" and st[2][1].get("variant") == "Ok"]
    good = bool(val) and bool(oks)
    for ob in oks:
        gs = mir.guards_of(zn, ob)
        cont = any(d[0] == "discr" and str(d[2]).startswith("std::ops::ControlFlow") and isinstance(pol, tuple) and "Continue" in pol[1] for d, pol, dd in gs)
        if not (any(v in dom.get(ob, ()) for v in val) and cont): good = False
    if not good:
        n_ok_, probs_ = ok_only_after_validate(zn)
        if n_ok_ and not probs_: good = True
    if good: rep.ok(rule, "Zerv::new: a successful schema.validate() precedes every Ok", nontrivial_key="zn")
    else: rep.bad(rule, "new-without-validate", "Zerv::new can return Ok without a successful schema.validate()", zn.where())
    # 5. every other construction of a Zerv value reachable from run is on the audited list
    cg = mir.CallGraph(F)
    reach = cg.closure(["crate::cli::app::run"])
    allowed = ("version::zerv::core::Zerv::new", "to_zerv::<impl crate::version::semver::core::SemVer>::to_zerv_with_schema", "to_zerv::<impl crate::version::pep440::core::PEP440>::to_zerv_with_schema",
               "_serde::Deserialize", "as std::clone::Clone>::clone", "test_utils")
    n = 0
    for p in sorted(reach):
        f = F.fns.get(p)
        if f is None: continue
        for bi, si, st in f.stmts():
            if st[0] == "=" and st[2][0] == "agg" and st[2][1].get("k") == "adt" and st[2][1]["adt"] == ROOT_TY:
                n += 1
                if any(a in p for a in allowed): rep.ok(rule, "Zerv literal in an audited constructor (%s)" % p.rsplit("::", 2)[-2:], nontrivial_key="lit" + p)
                else: rep.bad(rule, "zerv-literal:" + p.replace("crate::", ""), "a Zerv value is built with a struct literal outside the audited constructors (no validation)", "%s bb%d" % (f.where(), bi))
    rep.floor(rule, "Zerv struct literals reachable from run", n, 3)

def who_writes_schema(F, rep):
    rule = "R12.3"
    parts = {"core", "extra_core", "build"}
    n = 0
    SCHEMA = "crate::version::zerv::schema::core::ZervSchema"
    for p, f in F.fns.items():
        for bi, si, st in f.stmts():
            if st[0] != "=": continue
            # direct field writes
            flds = [e for e in st[1][1:] if not isinstance(e, str) and e[0] == "f"]
            if flds and flds[-1][2] in parts and flds[-1][3] == SCHEMA:
                n += 1
                site = "%s bb%d line %s" % (f.where(), bi, f.blocks[bi]["line"])
                if not p.startswith(SCHEMA + "::set_"):
                    rep.bad(rule, "schema-part-write:" + p.replace("crate::", ""), "ZervSchema.%s is written outside the validating setters" % flds[-1][2], site); continue
                dom = mir.dominators(f)
                val = [b2 for b2, t in f.calls() if (mir.callee(t) or "").endswith("::validate")]
                gs = mir.guards_of(f, bi)
                succ = sum(1 for d, pol, dd in gs if d[0] == "discr" and str(d[2]).startswith("std::ops::ControlFlow") and isinstance(pol, tuple) and "Continue" in pol[1])
                # the validated candidate must contain the value being written
                cand_ok = False
                for b2 in val:
                    t = f.blocks[b2]["t"]
                    for o in mir.trace_op(f, t[2][0]):
                        if o.kind == "agg":
                            rv = mir.rv_at(o.fn, *o.data)
                            if rv[1].get("adt") == SCHEMA:
                                idx = rv[1]["fields"].index(flds[-1][2])
                                src = panics.okey(f, rv[2][idx]); new = panics.okey(f, st[2][1] if st[2][0] == "use" else ["cp", [0]])
                                cand_ok = (src == new) or any(x in src for x in new.split("|"))
                if val and any(v in dom.get(bi, ()) for v in val) and succ >= 1 and cand_ok:
                    rep.ok(rule, "%s: write dominated by a successful validate() of the candidate holding the new value" % p.rsplit("::", 1)[-1], sample=site, nontrivial_key=p)
                else:
                    rep.bad(rule, "setter-without-validate:" + p.rsplit("::", 1)[-1], "%s writes ZervSchema.%s without a dominating successful validate() of the candidate (validate calls %s, success guards %d, candidate matches %s)" % (p.rsplit("::", 1)[-1], flds[-1][2], val, succ, cand_ok), site)
            # struct literals of ZervSchema
            if st[2][0] == "agg" and st[2][1].get("k") == "adt" and st[2][1]["adt"] == SCHEMA:
                ok_fn = p.startswith(SCHEMA + "::") or "_serde::Deserialize" in p or "Clone>::clone" in p or "as std::clone::Clone" in p
                if ok_fn: rep.ok(rule, "ZervSchema literal inside the type's own impl (%s)" % p.rsplit("::", 1)[-1])
                else: rep.bad(rule, "schema-literal:" + p.replace("crate::", ""), "a ZervSchema value is built with a struct literal outside ZervSchema's own constructors", "%s bb%d" % (f.where(), bi))
    rep.floor(rule, "direct writes to schema parts", n, 3)
    # constructors return only after validate
    for nm in ("new_with_precedence",):
        f = F.fn(SCHEMA + "::" + nm)
        if rep.anchor(rule, "ZervSchema::" + nm, f):
            dom = mir.dominators(f)
            val = [b2 for b2, t in f.calls() if (mir.callee(t) or "").endswith("::validate")]
            oks = [bi for bi, si, st in f.stmts() if st[0] == "=" and st[1] == [0] and st[2][0] == "agg" and st[2][1].get("variant") == "Ok"]
            n_ok_, probs_ = ok_only_after_validate(f)
            if val and oks and all(any(v in dom.get(o, ()) for v in val) for o in oks): rep.ok(rule, "ZervSchema::%s validates before Ok" % nm, nontrivial_key=nm)
            elif n_ok_ and not probs_: rep.ok(rule, "ZervSchema::%s returns Ok only through a successful validate()" % nm, nontrivial_key=nm)
            else: rep.bad(rule, "constructor-without-validate:" + nm, "ZervSchema::%s can return Ok without validate()" % nm, f.where())

def validator_loops(F, rep, V):
    """R12.9: a validation loop looks at every component: the only way out of a loop of the validators that can still end in Ok is the
    iterator running out.  (A `break` after "everything needed has been seen" skips the checks of the components that follow.)"""
    rule = "R12.9"
    nloops = 0
    for p_, g_ in sorted(F.fns.items()):
        if not p_.startswith(V) or g_.kind == "closure": continue
        pr = mir.preds(g_)
        for hb, t in g_.calls():
            if not (mir.callee(t) or "").endswith("Iterator>::next"): continue
            # natural loop of this header: blocks that reach hb and are reachable from it
            fwd = mir.reachable(g_, hb)
            body = {b_ for b_ in fwd if hb in mir.reachable(g_, b_)} if any(hb in mir.reachable(g_, s_) for s_ in mir.succs(g_, hb)) else set()
            if not body: continue
            nloops += 1
            dest = t[3][0] if t[3] else None
            early = []
            for b_ in sorted(body):
                if g_.blocks[b_].get("cleanup"): continue
                for s_ in mir.succs(g_, b_):
                    if s_ in body or g_.blocks[s_].get("cleanup"): continue
                    tt = g_.blocks[b_]["t"]
                    # the regular exit: the switch on the discriminant of what next() returned
                    if tt[0] == "switch" and dest is not None and any(st[0] == "=" and st[2][0] == "discr" and st[2][1][0] == dest for st in g_.blocks[b_]["s"]): continue
                    if tt[0] == "switch" and dest is not None and tt[1][0] in ("cp", "mv") and any(st[0] == "=" and st[1] == tt[1][1] and st[2][0] == "discr" and st[2][1][0] == dest for b2 in body for st in g_.blocks[b2]["s"]): continue
                    # can this exit still end in Ok?
                    after = mir.reachable(g_, s_)
                    oks = [b3 for b3 in after for st in g_.blocks[b3]["s"] if st[0] == "=" and st[1] == [0] and st[2][0] == "agg" and isinstance(st[2][1], dict) and st[2][1].get("variant") == "Ok"]
                    if oks: early.append((b_, s_))
            site = "%s bb%d line %s" % (g_.where(), hb, g_.blocks[hb]["line"])
            nm = p_.rsplit("::", 1)[-1]
            if early: rep.bad(rule, "validation-loop-left-early:" + nm, "%s leaves its loop over the components before the iterator is exhausted and can still return Ok (exit edges %s): components after that point are not validated (core [major, minor, patch, epoch] is accepted)" % (nm, early[:3]), site)
            else: rep.ok(rule, "%s: the loop ends only when the components run out, or with an error" % nm, sample=site, nontrivial_key="loop%s%d" % (nm, hb))
    rep.floor(rule, "component loops in the schema validators", nloops, 3)

def validator_complete(F, rep):
    rule = "R12.4"
    V = "crate::version::zerv::schema::validation::<impl crate::version::zerv::schema::core::ZervSchema>::"
    v = F.fn(V + "validate")
    if not rep.anchor(rule, "ZervSchema::validate", v): return
    rep.fn_seen(v)
    validator_loops(F, rep, V)
    need = ["validate_core", "validate_extra_core", "validate_build"]
    oks = [bi for bi, si, st in v.stmts() if st[0] == "=" and st[1] == [0] and st[2][0] == "agg" and st[2][1].get("variant") == "Ok"]
    for nm in need:
        blocks = [bi for bi, t in v.calls() if (mir.callee(t) or "") == V + nm]
        if not blocks:
            rep.bad(rule, "section-not-validated:" + nm, "ZervSchema::validate does not call %s" % nm, v.where()); continue
        ok = bool(oks) and all(mir.must_pass(v, blocks, 0, [o]) for o in oks)
        # and its error is propagated: the result feeds a Try::branch
        prop = any(any(a[0] in ("cp", "mv") and a[1][0] == v.blocks[b]["t"][3][0] for a in t2[2]) and "Try>::branch" in (mir.callee(t2) or "") for b in blocks for b2, t2 in v.calls())
        if ok and prop: rep.ok(rule, "every Ok of validate passes %s()? " % nm, nontrivial_key=nm)
        else: rep.bad(rule, "section-skippable:" + nm, "validate can return Ok without %s()? (on all paths: %s, error propagated: %s)" % (nm, ok, prop), v.where())
    # emptiness test
    empt = [bi for bi, t in v.calls() if (mir.callee(t) or "").endswith("::is_empty")]
    if len(empt) >= 3: rep.ok(rule, "emptiness of all three sections is tested", nontrivial_key="empty")
    else: rep.bad(rule, "no-emptiness-test", "validate does not test that the schema has at least one component (%d is_empty calls)" % len(empt), v.where())
    # section validators: which (section, class) combinations are rejected
    def rejects(fn_name):
        f = F.fn(V + fn_name)
        out = set()
        if f is None: return None
        rep.fn_seen(f)
        # error-constructor helpers are seen through (the Err is then built under the guards of its call site)
        f = mir.inlined(F, f, depth=2, ok=lambda F_, caller, cp, g: g is not None and g.kind != "closure" and cp.startswith("crate::version::zerv::schema::validation") and not cp.endswith("validate_components") and not cp.endswith("validate_primary_order") and not mir.has_loop(g))
        for bi, si, st in f.stmts():
            if st[0] == "=" and st[2][0] == "agg" and st[2][1].get("variant") in ("StdinError",):
                preds = []
                for d, pol, dd in mir.guards_of(f, bi):
                    if d[0] == "call" and d[1]:
                        m = d[1].rsplit("::", 1)[-1]
                        if m in ("is_primary_component", "is_secondary_component", "contains", "insert"): preds.append((m, pol))
                    if d[0] == "not" or (d[0] == "call" and False): pass
                out.add(tuple(sorted(map(str, preds))))
        return out
    want = {
        "validate_core_placement": [("is_primary_component", True, "contains", True), ("is_secondary_component", True)],
        "validate_extra_core": [("is_secondary_component", True, "insert", False), ("is_primary_component", True)],
        "validate_build": [("is_primary_component", True), ("is_secondary_component", True)],
    }
    for fn_name, rows in want.items():
        got = rejects(fn_name)
        if got is None:
            rep.bad(rule, "anchor-missing:" + fn_name, "section validator %s missing" % fn_name, v.where()); continue
        flat = {str(g) for g in got}
        for row in rows:
            pairs = [(row[i], row[i + 1]) for i in range(0, len(row), 2)]
            hit = any(all(str((m, tr)) in g for m, tr in pairs) for g in flat)
            if hit: rep.ok(rule, "%s rejects %s" % (fn_name, pairs), nontrivial_key=fn_name + str(pairs))
            else: rep.bad(rule, "placement-rule-missing:%s:%s" % (fn_name, pairs[0][0]), "%s no longer rejects components with %s (found rejection guards %s)" % (fn_name, pairs, sorted(flat)), v.where())
    # every section validator checks the components (ts() patterns) of its OWN section
    for fn_name, getter in (("validate_core", "core"), ("validate_extra_core", "extra_core"), ("validate_build", "build")):
        f = F.fn(V + fn_name)
        if f is None: continue
        ok = False
        for bi, t in f.calls():
            if (mir.callee(t) or "") == V + "validate_components":
                srcs = [(mir.callee(o.fn.blocks[o.data]["t"]) or "").rsplit("::", 1)[-1] for o in mir.trace_op(f, t[2][0], transparent=mir.TRANSPARENT) if o.kind == "call"]
                propagated = any(any(a[0] in ("cp", "mv") and a[1][0] == t[3][0] for a in t2[2]) and "Try>::branch" in (mir.callee(t2) or "") for b2, t2 in f.calls())
                if srcs == [getter] and propagated: ok = True
        if ok: rep.ok(rule, "%s validates the components of %s()" % (fn_name, getter), nontrivial_key=fn_name + "comp")
        else: rep.bad(rule, "components-not-validated:" + fn_name, "%s does not run validate_components(self.%s())?: an unknown ts() pattern in that section is accepted when the schema arrives by deserialisation" % (fn_name, getter), f.where())
    # order of primaries
    po = F.fn(V + "validate_primary_order")
    if rep.anchor(rule, "validate_primary_order", po):
        rep.fn_seen(po)
        le = False
        for bi, si, st in po.stmts():
            if st[0] == "=" and st[2][0] == "agg" and st[2][1].get("variant") == "StdinError":
                for d, pol, dd in mir.guards_of(po, bi):
                    if d[0] == "bin" and ((d[1] == "Le" and pol is True) or (d[1] == "Gt" and pol is False)): le = True
        if not le:
            # `indices.windows(2).any(|pair| pair[1] <= pair[0])` as the rejection condition
            for bi, si, st in po.stmts():
                if st[0] == "=" and st[2][0] == "agg" and st[2][1].get("variant") == "StdinError":
                    for d, pol, dd in mir.guards_of(po, bi):
                        if d[0] == "call" and (d[1] or "").endswith("Iterator::any") and pol is True:
                            for c in mir.closures_in(F, po):
                                cmps = [(st2[2][1], st2[2][2], st2[2][3]) for b2, s2, st2 in c.stmts() if st2[0] == "=" and st2[2][0] == "bin" and st2[2][1] in ("Le", "Ge", "Lt", "Gt")]
                                if len(cmps) == 1 and cmps[0][0] in ("Le", "Ge"): le = "any"
        if le: rep.ok(rule, "primary order rejected when indices[i] <= indices[i-1]", nontrivial_key="order")
        elif not any(st[0] == "=" and st[2][0] == "agg" and st[2][1].get("variant") == "StdinError" for bi, si, st in po.stmts()): rep.bad(rule, "primary-order", "validate_primary_order does not reject non-increasing primary components", po.where())
        else: rep.undecided(rule, "primary-order-shape", "validate_primary_order rejects under a condition this rule does not evaluate", po.where())
        called = any((mir.callee(t) or "") == po.path for g in (F.fn(V + "validate_core"),) if g for bi, t in g.calls())
        if not called: rep.bad(rule, "primary-order-not-called", "validate_core does not call validate_primary_order", po.where())

def whole_document(F, rep):
    """RON input is parsed as a WHOLE document: through ron::from_str / ron::de::from_str / Options::from_str (which check for
    trailing characters), or - when a ron Deserializer is driven by hand - with a dominating end() before Ok."""
    rule = "R12.6"
    n = 0
    for p, f in F.fns.items():
        if f.d.get("derived") or f.d.get("exp") or "_serde::" in p: continue
        for bi, t in f.calls():
            full = t[1].get("full") or ""; c = mir.callee(t) or ""
            if c.startswith("ron::") and c.rsplit("::", 1)[-1] in ("from_str", "from_reader", "from_bytes") and "Deserializer" not in c:
                n += 1
                rep.ok(rule, "%s parses RON with %s (rejects trailing characters)" % (p.rsplit("::", 2)[-2] + "::" + p.rsplit("::", 1)[-1], c), nontrivial_key=p + str(bi))
            elif ("ron::de::Deserializer" in full or "ron::Deserializer" in full) and ("Deserialize" in full and c.endswith("::deserialize")):
                n += 1
                ends = [b2 for b2, t2 in f.calls() if (mir.callee(t2) or "").endswith("Deserializer::<'de>::end") or (mir.callee(t2) or "").endswith("Deserializer::end")]
                dom = mir.dominators(f)
                oks = [b2 for b2 in mir.return_blocks(f)]
                # every normal return that can carry Ok must be dominated by end()
                good = bool(ends) and all(any(e in dom.get(o, ()) for e in ends) or not mir.reachable(f, bi).__contains__(o) for o in oks)
                site = "%s bb%d line %s" % (f.where(), bi, f.blocks[bi]["line"])
                if good: rep.ok(rule, "hand-driven ron Deserializer followed by end()", sample=site, nontrivial_key=p + str(bi))
                else: rep.bad(rule, "trailing-input-accepted:" + p.replace("crate::", ""), "a ron Deserializer is driven by hand without a dominating end(): a valid object followed by trailing text is accepted instead of rejected", site)
    rep.floor(rule, "RON parse sites", n, 3)

def pct_in_validator(iv):
    return any((mir.callee(t) or "").endswith("::starts_with") and mir.const_arg(iv, t[2][1]) == "%" for bi, t in iv.calls())

def validator_vs_resolver(F, rep):
    rule = "R12.5"
    V = "crate::version::zerv::schema::validation::<impl crate::version::zerv::schema::core::ZervSchema>::"
    iv = F.fn(V + "is_valid_timestamp_pattern")
    if not rep.anchor(rule, "is_valid_timestamp_pattern", iv): return
    rep.fn_seen(iv)
    # acceptance paths of the validator
    acc = []
    for p in mir.enum_paths(iv):
        sp = mir.SymPath(iv, p)
        r = sp.ret()
        while r[0] == "un" and r[1] == "Not": r = r[2]
        if r == ("const", False): continue
        true_calls = []
        for c, (rel, vals), b in sp.conds:
            if c[0] == "call":
                truth = not ((rel == "eq" and 0 in vals) or (rel == "ne" and 0 not in vals))
                if truth: true_calls.append((str(c[1]).rsplit("::", 1)[-1], tuple(a[1] for a in c[2] if a[0] == "const")))
        if r[0] == "call": true_calls.append((str(r[1]).rsplit("::", 1)[-1], tuple(a[1] for a in r[2] if a[0] == "const")))
        if any(m == "contains" for m, c in true_calls): acc.append("list-member")
        elif any(m == "starts_with" and "%" in c for m, c in true_calls): acc.append("call:starts_with('%')")
        else: acc.append("other:" + ",".join(m for m, c in true_calls))
    # the resolver: which first characters can the tokenizer accept?
    da = F.fn("crate::version::zerv::utils::timestamp::determine_character_action")
    ipc = F.fn("crate::version::zerv::utils::timestamp::is_pattern_char")
    accepts_percent = None
    if da is not None and ipc is not None:
        chars = set()
        for f in (da, ipc):
            for bi, b in enumerate(f.blocks):
                t = b["t"]
                if t[0] == "switch" and (t[4] if len(t) > 4 else "") == "char":
                    for v, tb in t[2]: chars.add(chr(v))
            for bi, si, st in f.stmts():
                if st[0] == "=" and st[2][0] == "bin" and st[2][1] == "Eq":
                    for o in (st[2][2], st[2][3]):
                        c = mir.const_of(o) if o[0] == "c" else None
                        if isinstance(c, str) and len(c) == 1: chars.add(c)
        accepts_percent = "%" in chars
        rep.extra["tokenizer_alphabet"] = sorted(chars)
    for a in acc:
        if a == "list-member":
            rep.ok(rule, "validator accepts members of get_valid_timestamp_patterns (resolvable: C17 R17.2)", nontrivial_key="list")
        elif (a.startswith("call:starts_with") or a.startswith("call:any") or a.startswith("other:")) and pct_in_validator(iv):
            rt = F.fn("crate::version::zerv::utils::timestamp::resolve_timestamp")
            res_ok = False
            if rt is not None:
                rt = mir.inlined(F, rt, depth=3, ok=lambda F_, caller, cp, g: g is not None and g.kind != "closure" and cp.startswith("crate::version::zerv::utils::timestamp") and not mir.has_loop(g))
                for bi, t in rt.calls():
                    if (mir.callee(t) or "").endswith("::format") and "chrono" in (t[1].get("full") or ""):
                        fmt_src = mir.trace_op(rt, t[2][1])
                        from_param = all(o.kind == "param" and o.data == 1 for o in fmt_src)
                        guarded = any(d[0] == "call" and (d[1] or "").endswith("::starts_with") and pol is True and mir.const_arg(rt, d[2][2][1]) == "%" for d, pol, dd in mir.guards_of(rt, bi))
                        if from_param and guarded: res_ok = True
            validates = any("StrftimeItems" in (t[1].get("full") or "") for bi, t in iv.calls())
            if (accepts_percent or res_ok) and validates:
                rep.ok(rule, "validator accepts %-prefixed formats that parse as strftime, and the resolver formats them under the same starts_with('%') test", nontrivial_key="pct")
            elif accepts_percent or res_ok:
                rep.bad(rule, "validator-wider-than-resolver:invalid-strftime", "the validator accepts any %-prefixed pattern without checking that it is valid strftime: an invalid one is accepted and then resolves to nothing", iv.where())
            else:
                rep.bad(rule, "validator-wider-than-resolver:percent-prefix",
                        "the schema validator accepts any ts() pattern starting with '%%', but the resolver neither tokenises '%%' (alphabet %s) nor has a starts_with('%%') formatting path: such a schema is accepted and the component then silently resolves to nothing" % (rep.extra.get("tokenizer_alphabet"),), iv.where())
        else:
            rep.undecided(rule, "unrecognised-shape:validator-accept:" + a[:30], "unrecognised acceptance path in is_valid_timestamp_pattern: %s" % a, iv.where())
    rep.floor(rule, "acceptance paths of the timestamp pattern validator", len(acc), 1)

EXPL = ("Structural clauses of C12 decided on the MIR: (R12.1) for every type in Zerv's field-type closure the names passed to serialize_field / serialize_*_variant in the derived Serialize equal the deserialiser's FIELDS / VARIANTS "
        "and the type's own fields/variants, every field is serialised unconditionally (no skip), and the one hand-written pair is the recognised order-preserving inverse; (R12.2) the object handed to format_output originates from "
        "to_zerv <- create_zerv_version <- Zerv::new, in which a successful schema.validate() dominates Ok, and every other Zerv struct literal reachable from run is in an audited constructor; (R12.3) schema parts are written only in "
        "ZervSchema's setters, each write dominated by a successful validate() of a candidate containing the new value; (R12.4) every Ok of validate passes the emptiness test and the three section validators with '?', whose rejection "
        "guards cover duplicate/misplaced primaries and secondaries and primary order; (R12.5) the set of ts() patterns the validator accepts is compared with what the resolver's tokenizer can read. "
        "Not decided: byte-identical re-emission, pipe == direct, ron's behaviour on arbitrary strings.")
ASSUME = ["serde's derive generates visit_map/visit_seq code that assigns each FIELDS entry to the field of the same name", "ron serialises and parses symmetric serde data models losslessly"]
TRUST = ["rustc MIR of the serde derive expansion", "zfacts", "rules/c12.py"]
