"""Bridge to the rxlang engine + discovery of regex constants in the fact base."""
import json, subprocess
import core, mir

def regex_of_static(F, static_path):
    """pattern string given to regex::Regex::new inside the initialiser of a LazyLock static"""
    st = F.fn(static_path)
    if st is None: return None, None
    pats = []
    for child in [st] + F.children(static_path):
        for bi, t in child.calls():
            if mir.call_matches(t, ("regex::Regex::new",)):
                for o in mir.trace_op(child, t[2][0]):
                    if o.kind == "const" and o.data.get("k") == "str":
                        pats.append((o.data["v"], child, bi))
    if len(pats) != 1: return None, pats
    return pats[0][0], pats[0]

def statics_used(fn):
    out = []
    for bi, si, s in fn.stmts():
        if s[0] == "=" and s[2][0] == "use" and s[2][1][0] == "c" and s[2][1][1].get("k") == "static":
            out.append(s[2][1][1]["path"])
    return out

def run(patterns, compare):
    req = {"patterns": patterns, "compare": compare}
    try:
        p = subprocess.run([core.RXLANG], input=json.dumps(req), stdout=subprocess.PIPE, stderr=subprocess.PIPE, text=True)
    except FileNotFoundError:
        raise core.CheckBroken("rxlang not built; run bin/setup")
    if p.returncode != 0:
        raise core.CheckBroken("rxlang failed: " + p.stderr[-2000:])
    return json.loads(p.stdout)
