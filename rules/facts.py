"""Loader and pretty-printer for the zfacts MIR-lite fact base (DESIGN.md E1/E2)."""
import json, sys, os

class Fn:
    __slots__ = ("d", "path", "kind", "blocks", "locals", "nargs", "parent", "dbg", "_names")
    def __init__(self, d):
        self.d = d
        self.path = d["path"]
        self.kind = d["kind"]
        self.blocks = d["blocks"]
        self.locals = d["locals"]
        self.nargs = d["nargs"]
        self.parent = d.get("parent")
        self.dbg = d["dbg"]
        self._names = None
    @property
    def file(self): return self.d["span"][0]
    @property
    def line(self): return self.d["span"][1]
    def where(self):
        s = self.d["span"]
        return "%s:%d-%d" % (s[0], s[1], s[2])
    def names(self):
        """local index -> debug name (only for whole-local debug entries)"""
        if self._names is None:
            n = {}
            for name, val in self.dbg:
                if isinstance(val, list) and len(val) == 1:
                    n.setdefault(val[0], name)
            self._names = n
        return self._names
    def upvar_names(self):
        """debug names that are projections of _1 (closure captures)"""
        out = {}
        for name, val in self.dbg:
            if isinstance(val, list) and len(val) > 1 and val[0] == 1:
                out[name] = val
        return out
    def calls(self):
        for bi, b in enumerate(self.blocks):
            if b["cleanup"]: continue          # unwind paths are not normal behaviour
            t = b["t"]
            if t[0] == "call":
                yield bi, t
    def terms(self):
        for bi, b in enumerate(self.blocks):
            if b["cleanup"]: continue
            yield bi, b["t"]
    def stmts(self):
        for bi, b in enumerate(self.blocks):
            if b["cleanup"]: continue
            for si, s in enumerate(b["s"]):
                yield bi, si, s

class Facts:
    def __init__(self, path):
        with open(path) as f:
            self.doc = json.load(f)
        self.fns = {}
        for d in self.doc["functions"]:
            self.fns[d["path"]] = Fn(d)
        self.adts = {a["path"]: a for a in self.doc["adts"]}
        try:
            import mir as _mir
            _mir._SEQ_F[0] = self        # lets mir.str_eq_cond resolve promoted string constants
        except Exception: pass
        self.impls = self.doc["impls"]
    def fn(self, path):
        return self.fns.get(path)
    def find(self, suffix):
        return [f for p, f in self.fns.items() if p.endswith(suffix)]
    def children(self, path):
        """closures / promoteds nested directly or indirectly in `path`"""
        pre = path + "::"
        return [f for p, f in self.fns.items() if p.startswith(pre) and ("{closure" in p[len(pre):] or "promoted[" in p[len(pre):])]

# ---- pretty printing -------------------------------------------------------

def fmt_place(p, fn=None):
    s = "_%d" % p[0]
    if fn is not None:
        n = fn.names().get(p[0])
        if n: s += "{%s}" % n
    for e in p[1:]:
        if e == "*": s = "(*%s)" % s
        elif isinstance(e, str): s += "." + e
        elif e[0] == "f": s += ".%s" % e[2]
        elif e[0] == "i": s += "[_%d]" % e[1]
        elif e[0] == "c": s += "[%s%d]" % ("-" if e[3] else "", e[1])
        elif e[0] == "s": s += "[%d..%s%d]" % (e[1], "-" if e[3] else "", e[2])
        elif e[0] == "d": s += " as %s" % e[1]
    return s

def fmt_const(c):
    k = c.get("k")
    if k == "fn": return "fn " + c["full"]
    if k in ("str",): return json.dumps(c["v"], ensure_ascii=False)
    if k in ("int", "bool"): return str(c["v"]) + ("" if k == "bool" else "_" + c["ty"])
    if k == "char": return repr(c["v"])
    if k == "variant": return c["adt"].split("::")[-1] + "::" + c["v"]
    if k == "promoted": return "promoted[%d]" % c["idx"]
    if k == "bytes":
        try: return "b" + json.dumps(bytes(c["v"]).decode("latin1"))
        except Exception: return "bytes"
    if k == "zst": return "zst:" + c["ty"]
    return "const(%s)" % (c.get("text") or c.get("ty"))

def fmt_op(o, fn=None):
    if o[0] in ("cp", "mv"):
        return ("move " if o[0] == "mv" else "") + fmt_place(o[1], fn)
    if o[0] == "c": return fmt_const(o[1])
    return str(o)

def fmt_rv(rv, fn=None):
    k = rv[0]
    if k == "use": return fmt_op(rv[1], fn)
    if k == "ref": return "&%s%s" % ("" if rv[1] == "shared" else rv[1] + " ", fmt_place(rv[2], fn))
    if k == "cast": return "%s as %s (%s)" % (fmt_op(rv[2], fn), rv[4], rv[1])
    if k == "bin": return "%s(%s, %s)" % (rv[1], fmt_op(rv[2], fn), fmt_op(rv[3], fn))
    if k == "un": return "%s(%s)" % (rv[1], fmt_op(rv[2], fn))
    if k == "discr": return "discriminant(%s)" % fmt_place(rv[1], fn)
    if k == "agg":
        kd = rv[1]
        ops = ", ".join(fmt_op(o, fn) for o in rv[2])
        if kd["k"] == "adt":
            if kd["fields"] and len(kd["fields"]) == len(rv[2]):
                ops = ", ".join("%s: %s" % (f, fmt_op(o, fn)) for f, o in zip(kd["fields"], rv[2]))
            return "%s::%s{%s}" % (kd["adt"].split("::")[-1], kd["variant"], ops)
        if kd["k"] == "closure": return "closure %s [%s]{%s}" % (kd["path"], ",".join(kd["captures"]), ops)
        return "%s[%s]" % (kd["k"], ops)
    return str(rv)

def fmt_term(t, fn=None):
    k = t[0]
    if k == "call":
        c = t[1]
        name = c.get("path") or c.get("full") or ("indirect " + fmt_op(c["indirect"], fn))
        if c.get("path") and c.get("decl") and c["decl"] != c["path"]:
            name += " {decl %s}" % c["full"]
        elif c.get("full"): name = c["full"] if not c.get("path") else name
        return "%s = %s(%s) -> %s" % (fmt_place(t[3], fn), name, ", ".join(fmt_op(a, fn) for a in t[2]), t[4])
    if k == "switch":
        return "switch %s [%s] else %s" % (fmt_op(t[1], fn), ", ".join("%s->%s" % (v, b) for v, b in t[2]), t[3])
    if k == "assert":
        return "assert(%s == %s, %s) -> %s" % (fmt_op(t[1], fn), t[2], t[3], t[4])
    if k == "drop": return "drop(%s) -> %s" % (fmt_place(t[1], fn), t[2])
    if k == "goto": return "goto %s" % t[1]
    return " ".join(str(x) for x in t)

def dump(fn, out=sys.stdout, cleanup=False):
    print("fn %s  [%s] %s  ret %s" % (fn.path, fn.kind, fn.where(), fn.d.get("ret")), file=out)
    for i, ty in enumerate(fn.locals):
        n = fn.names().get(i)
        print("  let _%d: %s%s" % (i, ty, "  // " + n if n else ""), file=out)
    for name, val in fn.dbg:
        if not (isinstance(val, list) and len(val) == 1):
            print("  dbg %s = %s" % (name, fmt_place(val) if isinstance(val, list) else fmt_const(val)), file=out)
    for bi, b in enumerate(fn.blocks):
        if b["cleanup"] and not cleanup: continue
        print("  bb%d: (line %s)%s" % (bi, b["line"], " cleanup" if b["cleanup"] else ""), file=out)
        for s in b["s"]:
            if s[0] == "=":
                print("    %s = %s" % (fmt_place(s[1], fn), fmt_rv(s[2], fn)), file=out)
            else:
                print("    %s" % s, file=out)
        print("    -> %s" % fmt_term(b["t"], fn), file=out)

if __name__ == "__main__":
    F = Facts(sys.argv[1])
    pat = sys.argv[2]
    for p, f in F.fns.items():
        if pat in p:
            dump(f)
            print()
