"""C17 - timestamp patterns and CalVer components are the UTC calendar fields (structural clauses).
R17.1 the 16 documented names; R17.2 pattern -> strftime table under a semantic map; R17.3 template function compact table;
R17.4 UTC instant construction; R17.5 timestamp source order; R17.6 calver core."""
import re
import core, mir, clapx, panics

DOCUMENTED = ["YYYY", "YY", "MM", "0M", "DD", "0D", "HH", "0H", "mm", "0m", "SS", "0S", "WW", "0W", "compact_date", "compact_datetime"]
# what the statement requires: field and padding ('none' = unpadded, 'zero2' = two digits, 'any' = not fixed by the statement)
WANT = {"YYYY": [("year", "any")], "YY": [("year2", "zero2")], "MM": [("month", "none")], "0M": [("month", "zero2")],
        "DD": [("day", "none")], "0D": [("day", "zero2")], "HH": [("hour", "none")], "0H": [("hour", "zero2")],
        "mm": [("minute", "none")], "0m": [("minute", "zero2")], "SS": [("second", "none")], "0S": [("second", "zero2")],
        "WW": [("week", "none")], "0W": [("week", "zero2")],
        "compact_date": [("year", "any"), ("month", "zero2"), ("day", "zero2")],
        "compact_datetime": [("year", "any"), ("month", "zero2"), ("day", "zero2"), ("hour", "zero2"), ("minute", "zero2"), ("second", "zero2")]}
SPEC = {"Y": ("year", "any"), "y": ("year2", "zero2"), "m": ("month", "zero2"), "d": ("day", "zero2"), "e": ("day", "space2"),
        "H": ("hour", "zero2"), "k": ("hour", "space2"), "M": ("minute", "zero2"), "S": ("second", "zero2"),
        "W": ("week", "zero2"), "U": ("week", "zero2"), "V": ("week", "zero2"), "j": ("yday", "zero3"), "I": ("hour12", "zero2")}

def parse_strftime(fmt):
    """[(field, padding)] or None when the format contains literals / unknown specifiers"""
    out = []; i = 0
    while i < len(fmt):
        if fmt[i] != "%": return None
        i += 1; flag = None
        if i < len(fmt) and fmt[i] in "-_0": flag = fmt[i]; i += 1
        if i >= len(fmt) or fmt[i] not in SPEC: return None
        field, pad = SPEC[fmt[i]]
        if flag == "-": pad = "none"
        elif flag == "_": pad = "space" + pad[-1] if pad != "any" else "any"
        elif flag == "0": pad = "zero" + pad[-1] if pad[-1].isdigit() else pad
        out.append((field, pad)); i += 1
    return out

def matches(got, want):
    return got is not None and len(got) == len(want) and all(g[0] == w[0] and (w[1] == "any" or g[1] == w[1]) for g, w in zip(got, want))

def pattern_table(F, f, target_suffix):
    """{pattern const: set(format const)} from calls of `target` in f, keyed by the dominating `x == const` guard that is true"""
    tab = {}
    for bi, t in f.calls():
        c = mir.callee(t) or ""
        if not c.endswith(target_suffix): continue
        fmt = mir.const_arg(f, t[2][1])
        pats = [mir.const_arg(f, a) for d, pol, dd in mir.guards_of(f, bi) if d[0] == "call" and "PartialEq" in (d[1] or "") and pol is True for a in d[2][2]]
        pats = [p for p in pats if isinstance(p, str)]
        key = pats[-1] if pats else None
        tab.setdefault(key, set()).add(fmt)
    return tab

def fn_scope(F, f, prefix, depth=4):
    """f with the helpers of its module spliced in, plus every closure built in that body (each with its helpers spliced in)"""
    okf = lambda F_, caller, cp, g: g is not None and g.kind != "closure" and cp.startswith(prefix) and not (mir.has_loop(g) and len(g.blocks) > 60)
    root = mir.inlined(F, f, depth=depth, ok=okf)
    out = [root]; seen = set(); work = [root]
    while work:
        g = work.pop()
        for c in mir.closures_in(F, g):
            if c.path in seen: continue
            seen.add(c.path)
            ci = mir.inlined(F, c, depth=depth, ok=okf)
            out.append(ci); work.append(ci)
    return out

def pattern_table_paths(F, scope):
    """{pattern const: set(strftime const)}: on every feasible path, the last string-equality test that held names the pattern,
    and the constant format handed to chrono's DateTime::format on that path is what it is rendered with.  Shape-independent:
    a `match`, an if-chain, a lookup helper returning Option<&str> or a per-token closure give the same table."""
    tab = {}
    for g in scope:
        try:
            sps = mir.sym_paths(g, limit=60000, loop_iterations=True)
        except mir.TooManyPaths:
            return None
        for sp in sps:
            pat = None
            for cnd in sp.conds:
                se = mir.str_eq_cond(cnd)
                if se and se[2]: pat = se[1]
            for b, name, args, t in sp.calls:
                if isinstance(name, str) and name.endswith("::format") and ("chrono::DateTime" in name or "DateTime" in (t[1].get("full") or "")) and len(args) >= 2:
                    a = args[1]
                    while isinstance(a, tuple) and a[0] == "call" and a[2] and any(str(a[1]).endswith(x) for x in ("Deref>::deref", "String::as_str", "::as_ref")): a = a[2][0]
                    if a[0] == "const" and isinstance(a[1], str): tab.setdefault(pat, set()).add(a[1])
                    else: tab.setdefault(pat, set()).add(("dyn", mir.show(a)[:40]))
    return tab

def check(F, rep, tier):
    # ---- R17.1 ------------------------------------------------------------------------------------
    gv = F.fn("crate::utils::constants::timestamp_patterns::get_valid_timestamp_patterns")
    names = None
    if rep.anchor("R17.1", "get_valid_timestamp_patterns", gv):
        rep.fn_seen(gv)
        names = clapx.const_str_array(F, gv, ["cp", [0]])
        if names is None:
            # vec![...] writes the array through a raw pointer
            names = []
            for bi, si, st in gv.stmts():
                if st[0] == "=" and st[2][0] == "agg" and st[2][1].get("k") == "array":
                    for a in st[2][2]:
                        v = mir.const_arg(gv, a); names.append(v)
        if names is not None and sorted(map(str, names)) == sorted(DOCUMENTED):
            rep.ok("R17.1", "the accepted pattern list is exactly the 16 documented names", sample=names, nontrivial_key="names")
        else:
            miss = sorted(set(DOCUMENTED) - set(names or [])); extra = sorted(set(map(str, names or [])) - set(DOCUMENTED))
            rep.bad("R17.1", "pattern-list", "accepted timestamp patterns differ from the documented sixteen: missing %s, extra %s" % (miss, extra), gv.where())
    # ---- R17.2 ------------------------------------------------------------------------------------
    rt = F.fn("crate::version::zerv::utils::timestamp::resolve_timestamp")
    if rep.anchor("R17.2", "resolve_timestamp", rt):
        rep.fn_seen(rt)
        rt0 = rt
        scope = fn_scope(F, rt, "crate::version::zerv::utils::timestamp")
        rt = scope[0]
        tab = pattern_table_paths(F, scope)
        if tab is None:
            rep.undecided("R17.2", "too-many-paths", "resolve_timestamp has too many paths to enumerate", rt.where()); tab = {}
        # a dynamic format is legitimate only on the custom ('%...') path, which has no pattern name
        tab = {k: {x for x in v if isinstance(x, str)} for k, v in tab.items() if k is not None}
        tab = {k: v for k, v in tab.items() if v}
        target = "-"
        # a name -> format table kept as data (a const slice of pairs searched with find / position / get) is not read by this rule:
        # the patterns it cannot see are NOT-DECIDED, not "unhandled" (7.1 policy: a violation is a positively identified construct)
        lookup = sorted({(mir.callee(t) or "").rsplit("::", 1)[-1] for g_ in scope + [c_ for g2 in scope for c_ in mir.closures_in(F, g2)] for bi, t in g_.calls()
                         if (mir.callee(t) or "").rsplit("::", 1)[-1] in ("find", "find_map", "position", "binary_search_by", "binary_search_by_key") or (mir.callee(t) or "").endswith("Map<K, V, S>::get") or "phf" in (mir.callee(t) or "")})
        as_data = len([k for k in tab if k]) < 16 and bool(lookup)
        if as_data: rep.undecided("R17.2", "pattern-table-as-data", "resolve_timestamp finds the format of a pattern name by a table lookup (%s): the name -> format pairs kept as data are not evaluated" % lookup, rt.where())
        else: rep.floor("R17.2", "pattern arms in resolve_timestamp", len([k for k in tab if k]), 16)
        for p in DOCUMENTED:
            fm = tab.get(p)
            if not fm and as_data: continue
            if not fm:
                rep.bad("R17.2", "pattern-unhandled:" + p, "documented pattern %s has no arm in resolve_timestamp (it would be copied literally)" % p, rt.where()); continue
            if len(fm) != 1:
                rep.bad("R17.2", "pattern-ambiguous:" + p, "pattern %s maps to several formats %s" % (p, sorted(map(str, fm))), rt.where()); continue
            fmt = next(iter(fm))
            got = parse_strftime(fmt) if isinstance(fmt, str) else None
            if matches(got, WANT[p]): rep.ok("R17.2", "%s -> %r = %s" % (p, fmt, got), nontrivial_key=p)
            else: rep.bad("R17.2", "pattern-format:" + p, "pattern %s is rendered with %r = %s, the statement requires %s" % (p, fmt, got, WANT[p]), rt.where())
        for k in tab:
            if k and k not in DOCUMENTED: rep.bad("R17.2", "pattern-extra:" + str(k), "resolve_timestamp has an arm for undocumented pattern %r" % k, rt.where())
        # (the formatting helper is spliced in: the table above is read at chrono's DateTime::format itself)
        h = None
        if h is not None:
            rep.fn_seen(h)
            ok = any((mir.callee(t) or "").endswith("::format") and all(o.kind == "param" and o.data == 1 for o in mir.trace_op(h, t[2][0])) and all(o.kind == "param" and o.data == 2 for o in mir.trace_op(h, t[2][1])) for bi, t in h.calls())
            if ok: rep.ok("R17.2", "%s formats its DateTime argument with its format argument" % target.rsplit("::", 1)[-1], nontrivial_key="helper")
            else: rep.bad("R17.2", "format-helper", "%s does not call DateTime::format(dt, format_str) on its own parameters" % target, h.where())
        # R17.4 the instant: DateTime::from_timestamp(timestamp as i64, 0) of the parameter
        ft = [(bi, t) for bi, t in rt.calls() if (mir.callee(t) or "").endswith("DateTime::<chrono::Utc>::from_timestamp") or (mir.callee(t) or "").endswith("::from_timestamp")]
        checked_conv = False
        if not ft:
            # `i64::try_from(timestamp).ok().and_then(|s| DateTime::from_timestamp(s, 0))`: the checked form of the same instant
            for c_ in mir.closures_in(F, rt):
                for b3, t3 in c_.calls():
                    if not (mir.callee(t3) or "").endswith("::from_timestamp"): continue
                    if not all(o.kind == "param" for o in mir.trace_op(c_, t3[2][0])) or mir.const_arg(c_, t3[2][1]) != 0: continue
                    for b4, t4 in rt.calls():
                        if not (mir.callee(t4) or "").endswith("Option::<T>::and_then") or len(t4[2]) < 2: continue
                        if not any(o.kind == "agg" and isinstance(mir.rv_at(o.fn, *o.data)[1], dict) and mir.rv_at(o.fn, *o.data)[1].get("path") == c_.path for o in mir.trace_op(rt, t4[2][1], transparent=())): continue
                        tf_ = [int(d) for k, d in mir.deep_origins(rt, t4[2][0], stop=()) if k == "call" and d.isdigit() and (mir.callee(rt.blocks[int(d)]["t"]) or "").endswith("::try_from")]
                        if tf_ and all(o.kind == "param" and o.data == 2 for b5 in tf_ for o in mir.trace_op(rt, rt.blocks[b5]["t"][2][0])) and ("chrono::Utc" in (t3[1].get("full") or "") or "chrono::DateTime<chrono::Utc>" in " ".join(rt.locals)):
                            checked_conv = True
        if checked_conv:
            rep.ok("R17.4", "instant = i64::try_from(timestamp) then DateTime::<Utc>::from_timestamp(seconds, 0): out-of-range values are refused, not wrapped", nontrivial_key="instant")
        elif ft:
            bi, t = ft[0]
            src = mir.trace_op(rt, t[2][0])
            nanos = mir.const_arg(rt, t[2][1])
            utc = "chrono::Utc" in (t[1].get("full") or "") or "chrono::DateTime<chrono::Utc>" in " ".join(rt.locals)
            if all(o.kind == "param" and o.data == 2 for o in src) and nanos == 0 and utc:
                rep.ok("R17.4", "instant = DateTime::<Utc>::from_timestamp(timestamp, 0) of the parameter", nontrivial_key="instant")
            else:
                rep.bad("R17.4", "instant", "the instant is not DateTime::<Utc>::from_timestamp(timestamp as i64, 0): src=%r nanos=%r utc=%s" % (src, nanos, utc), "%s bb%d" % (rt.where(), bi))
        else:
            rep.bad("R17.4", "instant-missing", "resolve_timestamp does not build its instant with DateTime::from_timestamp", rt.where())
        bad_tz = [ty for ty in rt.locals if "chrono::DateTime<" in ty and "chrono::DateTime<chrono::Utc>" not in ty]
        if bad_tz: rep.bad("R17.4", "zone", "non-UTC DateTime in resolve_timestamp: %s" % bad_tz[:2], rt.where())
    # ---- R17.3 template function's compact table --------------------------------------------------------
    ff = [x for x in F.find("template::functions::format_timestamp_function") if x.kind == "fn"]
    if rep.anchor("R17.3", "format_timestamp_function", ff):
        f = ff[0]; rep.fn_seen(f)
        f = mir.inlined(F, f, depth=2)          # a `chrono_format_for(name)` helper is seen through
        # chrono_format = match format { "compact_date" => "%Y%m%d", ... }: constants assigned under str-eq guards
        tab = {}
        for bi, si, st in f.stmts():
            if st[0] == "=" and st[2][0] == "use" and st[2][1][0] == "c" and st[2][1][1].get("k") == "str" and "%" in st[2][1][1]["v"]:
                pats = [mir.const_arg(f, a) for d, pol, dd in mir.guards_of(f, bi) if d[0] == "call" and "PartialEq" in (d[1] or "") and pol is True for a in d[2][2]]
                pats = [p for p in pats if isinstance(p, str)]
                if pats: tab[pats[-1]] = st[2][1][1]["v"]
        for p in ("compact_date", "compact_datetime"):
            got = parse_strftime(tab.get(p, "")) if p in tab else None
            if matches(got, WANT[p]): rep.ok("R17.3", "format_timestamp %s -> %r" % (p, tab[p]), nontrivial_key="tf" + p)
            elif p not in tab: rep.undecided("R17.3", "template-compact-shape:" + p, "no chrono pattern assigned under a `== %r` test found in format_timestamp" % p, f.where())
            else: rep.bad("R17.3", "template-compact:" + p, "format_timestamp maps %s to %r, expected the same fields as the resolver (%s)" % (p, tab.get(p), WANT[p]), f.where())
    # ---- R17.5 source order: bumped_timestamp, else last_timestamp ----------------------------------------
    rv = F.fn("crate::version::zerv::components::Var::resolve_value")
    if rep.anchor("R17.5", "Var::resolve_value", rv):
        rv = mir.inlined(F, rv, depth=2, ok=lambda F_, c_, cp, g_: g_ is not None and g_.kind != "closure" and cp.startswith("crate::version::zerv::components::"))
        sites = [(bi, t, t[2][1]) for bi, t in rv.calls() if (mir.callee(t) or "").endswith("timestamp::resolve_timestamp")]
        # `timestamp.and_then(|ts| resolve_timestamp(pattern, ts))`: the instant is the receiver of the adaptor that owns the closure
        for c in mir.closures_in(F, rv):
            for b2, t2 in c.calls():
                if not (mir.callee(t2) or "").endswith("timestamp::resolve_timestamp"): continue
                if not all(o.kind == "param" and o.data >= 2 for o in mir.trace_op(c, t2[2][1], transparent=())): continue
                for b3, t3 in rv.calls():
                    if any((mir.callee(t3) or "").endswith(x) for x in ("Option::<T>::and_then", "Option::<T>::map")) and len(t3[2]) > 1 and \
                       any(o.kind == "agg" and mir.rv_at(o.fn, *o.data)[1].get("path") == c.path for o in mir.trace_op(rv, t3[2][1], transparent=())):
                        sites.append((b3, t3, t3[2][0]))
        rep.floor("R17.5", "resolve_timestamp calls in Var::resolve_value", len(sites), 1)
        for bi, t, ts_op in sites:
            order = None
            for o in mir.trace_op(rv, ts_op, transparent=()):
                # value of `ts` in `if let Some(ts) = timestamp`
                if o.kind == "call":
                    t2 = rv.blocks[o.data]["t"]; c2 = mir.callee(t2) or ""
                    if c2.endswith("Option::<T>::or") or c2.endswith("Option::<T>::or_else"):
                        a = [x.fields()[-1] if x.fields() else "?" for x in mir.trace_op(rv, t2[2][0])]
                        b = []
                        for x in mir.trace_op(rv, t2[2][1], transparent=()):
                            if x.kind == "agg" and mir.rv_at(rv, *x.data)[1].get("k") == "closure":
                                cl = F.fn(mir.rv_at(rv, *x.data)[1]["path"])
                                b += [str(u.data) for u in mir.trace_place(cl, [0]) if u.kind == "upvar"] + [y.fields()[-1] for y in mir.trace_place(cl, [0]) if y.fields()]
                            elif x.fields(): b.append(x.fields()[-1])
                        order = (a, b)
            raw = mir.trace_op(rv, ts_op, transparent=())
            arith = [o for o in raw if o.kind == "rv" and mir.rv_at(rv, *o.data)[0] in ("bin", "un", "cast")]
            if arith:
                rep.bad("R17.5", "timestamp-rescaled", "the timestamp handed to resolve_timestamp is computed (%s) rather than the stored Unix timestamp: instants in some range would be shifted" % [mir.rv_at(rv, *o.data)[1] for o in arith], "%s bb%d" % (rv.where(), bi))
                continue
            if order and order[0] == ["bumped_timestamp"] and any("last_timestamp" in y for y in order[1]):
                rep.ok("R17.5", "timestamp source is bumped_timestamp, else last_timestamp", sample=str(order), nontrivial_key="src%d" % bi)
            else:
                rep.bad("R17.5", "timestamp-source", "the ts() component does not take bumped_timestamp first and last_timestamp as fallback (found %s)" % (order,), "%s bb%d" % (rv.where(), bi))
    # who may write the tag time: only the VCS mapping (overrides and context control never clear or change it)
    writers = set()
    for p_, f_ in F.fns.items():
        for bi, si, st in f_.stmts():
            if st[0] == "=":
                fl = [e for e in st[1][1:] if not isinstance(e, str) and e[0] == "f"]
                if fl and fl[-1][2] == "last_timestamp" and fl[-1][3].endswith("vars::ZervVars"): writers.add(p_)
    extra = {w for w in writers if not w.endswith("vcs_data_to_zerv_vars::vcs_data_to_zerv_vars") and "_serde" not in w}
    if writers and not extra: rep.ok("R17.5", "ZervVars.last_timestamp is written only by the VCS mapping", sample=sorted(writers), nontrivial_key="lastw")
    elif not writers: rep.bad("R17.5", "below-floor:last-timestamp-writers", "no write of last_timestamp found (rule blind)", None)
    else: rep.bad("R17.5", "last-timestamp-overwritten:" + ",".join(sorted(x.replace("crate::", "") for x in extra)), "the tag timestamp (the calendar fallback when there is no commit time) is overwritten outside the VCS mapping: %s" % sorted(extra), None)
    # ---- R17.6 calver core -------------------------------------------------------------------------------------
    cc = F.fn("crate::schema::components::calver_core")
    if rep.anchor("R17.6", "schema::components::calver_core", cc):
        rep.fn_seen(cc)
        elems = []
        ps = mir.enum_paths(cc)
        if len(ps) == 1:
            sp = mir.SymPath(cc, ps[0])
            for place, val, raw in sp.writes:
                if val[0] == "agg" and val[1] == "array":
                    elems = [mir.show(v) for f_, v in val[2]]
        want = ["YYYY", "MM", "DD"]
        txt = " ".join(elems)
        got_ts = re.findall(r"Timestamp\(to_string\('([^']+)'", txt)
        ok = len(elems) == 4 and got_ts[:3] == want and "Patch" in elems[3]
        if ok: rep.ok("R17.6", "calver core = [ts(YYYY), ts(MM), ts(DD), Patch]", sample=elems, nontrivial_key="calver")
        elif not elems:
            # not a `vec![..]` literal (e.g. an iterator chain): read the pattern constants in construction order instead
            pats = []
            for g_ in [cc] + mir.closures_in(F, cc):
                for bi, si, st in g_.stmts():
                    if st[0] == "=" and st[2][0] == "agg" and st[2][1].get("k") == "array":
                        for a in st[2][2]:
                            v = mir.const_arg(g_, a)
                            if isinstance(v, str): pats.append(v)
            has_patch = any("Var::Patch" in str(st) or "'Patch'" in str(st) for g_ in [cc] + mir.closures_in(F, cc) for bi, si, st in g_.stmts())
            if pats[:3] == want and len(pats) == 3 and has_patch: rep.ok("R17.6", "calver core is built from the patterns YYYY, MM, DD (in this order) and Patch", sample=pats, nontrivial_key="calver")
            elif pats and pats[:3] != want: rep.bad("R17.6", "calver-core", "calver_core is built from the patterns %s, expected YYYY, MM, DD then Patch" % pats, cc.where())
            else: rep.undecided("R17.6", "calver-core-shape", "how calver_core builds its component list is not recognised", cc.where())
        else: rep.bad("R17.6", "calver-core", "calver_core is %s, expected [ts(YYYY), ts(MM), ts(DD), var(Patch)]" % elems, cc.where())
    # ---- R17.7 dependencies: the instant that is formatted is the commit time git reports, or the one given on the command line -------
    # ---- R17.11 a timestamp is never wrapped on its way to chrono: u64 -> i64 by `as` turns values >= 2^63 into dates before 1970 --------
    import parsers as _ps
    _ps.narrowing_casts(F, rep, "R17.11", ("crate::version::zerv::utils::timestamp::", "crate::cli::utils::template::functions::format_timestamp_function"), "timestamps handed to chrono", sign=True, floor=2)
    core.borrow(F, rep, "c02", "C02", "R17.7", ("argv:get_commit_timestamp#0", "argv:get_tag_timestamp#0", "tag-peel", "wiring:bumped_timestamp", "wiring:last_timestamp"), "the timestamps are the committer dates of HEAD and of the tagged commit")
    core.borrow(F, rep, "c05", "C05", "R17.7", ("override-depends-on-value:bumped_timestamp",), "--bumped-timestamp is applied whenever it is given (0 = the epoch included)")
    core.borrow(F, rep, "c02", "C02", "R17.7", ("error-swallowed:get_commit_timestamp", "error-swallowed:get_tag_timestamp"), "a commit time git could not report is an error, not the epoch")
    core.borrow(F, rep, "c06", "C06", "R17.7", ("R06.7:tiers-not-isomorphic", "R06.7:tier-"), "the smart calver presets pick the calver schema of the tier (calendar fields are part of every tier)")
    naive_datetime_rule(F, rep, "R17.9")
    core.borrow(F, rep, "c14", "C14", "R17.7", ("R14.1:clock-",), "the wall clock replaces the commit time only for a dirty work tree (a commit time ahead of the local clock is still the commit time)")
    # ---- R17.10 the VCS override flags take their numbers as written: no custom value parser re-reads a Unix time as something else ------
    cgl = mir.CallGraph(F)
    custom = set()
    for p_ in F.fns:
        if "clap::Args>::augment_args" in p_ and "crate::cli::common::overrides" in p_:
            custom |= {x for x in (cgl.addr.get(p_, set()) | cgl.edges.get(p_, set())) if x.startswith("crate::") and F.fn(x) is not None and "::_::" not in x}
    for x in sorted(custom):
        g_ = F.fn(x)
        inner = [mir.callee(t) or "" for h in [g_] + F.children(x) for bi, t in h.calls()]
        datey = sorted({c.rsplit("::", 2)[-2] + "::" + c.rsplit("::", 1)[-1] for c in inner if "parse_from_str" in c or "NaiveDate" in c or "DateTime" in c})
        if datey: rep.bad("R17.10", "override-value-reinterpreted:" + x.rsplit("::", 1)[-1], "the value parser %s of a VCS override flag reads its argument through %s before (or instead of) taking it as a number: a Unix timestamp whose digits look like a date (20240315 = 1970-08-23) is resolved to a different instant" % (x.rsplit("::", 1)[-1], datey[:3]), g_.where())
        else: rep.undecided("R17.10", "override-value-parser:" + x.rsplit("::", 1)[-1], "a custom value parser on a VCS override flag whose effect is not evaluated", g_.where())
    if not custom: rep.ok("R17.10", "the VCS override flags use clap's built-in parsers (numbers are taken as written)", nontrivial_key="plainparse")
    # ---- R17.8 which instant: the commit time and the tag time are kept apart --------------------------------------------------------
    def field_reads(g, op, depth=0, seen=None):
        """names of struct fields the value of `op` is read from (through Some(..) wrappers, copies and plumbing calls)"""
        seen = seen if seen is not None else set(); out = set()
        if depth > 8: return out
        for o in mir.trace_op(g, op):
            k = (o.kind, str(o.data))
            if k in seen: continue
            seen.add(k)
            out |= {x for x in o.fields()}
            if o.kind == "agg":
                for a in mir.rv_at(o.fn, *o.data)[2]: out |= field_reads(o.fn, a, depth + 1, seen)
            elif o.kind == "call":
                for a in o.fn.blocks[o.data]["t"][2]: out |= field_reads(o.fn, a, depth + 1, seen)
        return out
    nts = 0
    for p_, g_ in F.fns.items():
        if "::tests" in p_ or "test_utils" in p_ or "::_::" in p_ or g_.d.get("impl_trait") in ("std::clone::Clone", "std::default::Default"): continue
        writes = []
        for bi, si, st in g_.stmts():
            if st[0] != "=": continue
            if len(st[1]) > 1:
                fl = [e[2] for e in st[1][1:] if not isinstance(e, str) and e[0] == "f"]
                if fl and fl[-1] in ("bumped_timestamp", "last_timestamp") and st[2][0] == "use": writes.append((bi, fl[-1], st[2][1]))
            if st[2][0] == "agg" and (st[2][1].get("adt") or "").endswith("vars::ZervVars"):
                for nm, op in zip(st[2][1]["fields"], st[2][2]):
                    if nm in ("bumped_timestamp", "last_timestamp"): writes.append((bi, nm, op))
        for bi, nm, op in writes:
            nts += 1
            other = "last_timestamp" if nm == "bumped_timestamp" else "bumped_timestamp"
            other_vcs = "tag_timestamp" if nm == "bumped_timestamp" else "commit_timestamp"
            reads = field_reads(g_, op)
            site = "%s bb%d line %s" % (g_.where(), bi, g_.blocks[bi]["line"])
            if other in reads or other_vcs in reads:
                rep.bad("R17.8", "timestamp-cross-wired:%s:%s" % (p_.rsplit("::", 1)[-1], nm), "%s writes %s from %s: the calendar fields are then those of the other instant (tag time instead of commit time, or the reverse) although the right one is known" % (p_.rsplit("::", 1)[-1], nm, sorted(reads & {other, other_vcs})), site)
            else: rep.ok("R17.8", "%s: %s is not filled from the other instant" % (p_.rsplit("::", 1)[-1], nm), sample=site, nontrivial_key="ts%s%s%d" % (p_, nm, bi))
    rep.floor("R17.8", "writes of bumped_timestamp / last_timestamp", nts, 6)
    return core.finish(rep, explanation=EXPL, assumptions=ASSUME, trusted=TRUST)

def naive_datetime_rule(F, rep, rule):
    """patterns are formatted on the UTC date-time itself, not on a naive copy (chrono fails to format %Z / %z / %:z / %+ on a
    NaiveDateTime; that error is swallowed by the component resolver, so a validated ts("%Y%Z") component would render as nothing)"""
    naive = []
    for p_, g_ in F.fns.items():
        if "::tests" in p_ or not (p_.startswith("crate::version::zerv::utils::timestamp") or p_.startswith("crate::cli::utils::template::functions") or p_.startswith("crate::version::zerv::components")): continue
        for bi, t in g_.calls():
            c = mir.callee(t) or ""
            if c.endswith("::naive_utc") or c.endswith("::naive_local") or c.endswith("::date_naive") or "NaiveDateTime" in (t[1].get("full") or "") and c.endswith("::format"):
                naive.append((g_, bi, c))
    for g_, bi, c in naive:
        rep.bad(rule, "naive-datetime:" + g_.path.rsplit("::", 1)[-1], "%s formats a naive date-time (%s): zone specifiers (%%Z, %%z, %%:z, %%+) fail on it and the failure is swallowed, so a validated ts(\"...%%Z\") component renders as nothing" % (g_.path.rsplit("::", 1)[-1], c.rsplit("::", 1)[-1]), "%s bb%d line %s" % (g_.where(), bi, g_.blocks[bi]["line"]))
    if not naive: rep.ok(rule, "timestamp patterns are formatted on DateTime<Utc> values (no naive conversion)", nontrivial_key="nonaive")

EXPL = ("Structural clauses of C17: the accepted list is the 16 documented names; each documented pattern has its own arm in resolve_timestamp (none falls through to the literal arm) and the chrono format constant that reaches "
        "DateTime::format in that arm means, under a semantic strftime map (field + padding), what the statement requires (MM/DD/HH/mm/SS/WW unpadded, 0-forms and YY two digits, compact forms fixed-width); the formatting helper formats its "
        "own arguments; the instant is DateTime::<Utc>::from_timestamp(ts, 0) and no non-UTC DateTime type occurs; the template function's compact table agrees; the ts() component reads bumped_timestamp then last_timestamp; "
        "calver_core is [ts(YYYY), ts(MM), ts(DD), Patch]. Week numbering (%W/%U/%V) is not fixed by the statement. Not decided: the tokenizer on composite patterns; chrono's calendar arithmetic.")
ASSUME = ["chrono strftime specifiers have their documented meaning (the semantic map in c17.py)"]
TRUST = ["rustc MIR", "zfacts", "rules/c17.py"]
