"""C04 - flow derives pre-release, post and dev parts from the documented branch rules (structural clauses).
R04.1 template table == documented law; R04.2 wildcard prefix keeps '/'; R04.3 first match; R04.4 flags beat rules;
R04.5 hash length fits the integer; R04.6 hash depends on (value, length) only."""
import re
import core, mir, flowtpl, panics, clapx

FA = "FlowArgs>::"
H = flowtpl.HOLE

def bump_fn(F, name):
    fs = [x for x in F.find(FA + name) if x.kind == "assoc"]
    return fs[0] if fs else None

def mode_of(conds):
    """'commit' / 'tag' / None from the post_mode comparisons on a path"""
    m = None
    for name, consts, truth, txt in conds:
        if name in ("eq", "ne") and isinstance(truth, bool):
            for c in consts:
                if c in ("commit", "tag"):
                    t = truth if name == "eq" else not truth
                    if t: m = c
                    elif m is None: m = "tag" if c == "commit" else "commit"
    return m

def template_table(F, rep, rule):
    """{(bump, mode or '*'): (cond, content, holes)} or None"""
    tab = {}
    for nm in ("bump_patch", "bump_pre_release_label", "bump_pre_release_num", "bump_post", "bump_dev"):
        f = bump_fn(F, nm)
        if not rep.anchor(rule, "FlowArgs::" + nm, f): return None
        rep.fn_seen(f)
        ts = flowtpl.templates_of(F, f)
        if not ts:
            rep.undecided(rule, "unrecognised-shape:" + nm, "no Template::new(..) with reconstructible text found in %s" % nm, f.where()); return None
        for conds, txt, holes in ts:
            sp = flowtpl.split_template(txt)
            if sp is None:
                rep.undecided(rule, "unrecognised-shape:" + nm, "%s builds %r, which is not {%% if C %%}X{%% else %%}None{%% endif %%}" % (nm, txt), f.where()); return None
            cond, content, other = sp
            if other.strip() != "None":
                rep.bad(rule, "else-branch:" + nm, "%s: the else branch yields %r instead of None (the component would be bumped at a clean tag)" % (nm, other), f.where())
            mode = mode_of(conds) if nm in ("bump_post", "bump_dev") else "*"
            if nm in ("bump_post", "bump_dev") and mode is None and len(ts) == 1:
                tab[(nm, "commit", "")] = (cond, content, holes, conds); tab[(nm, "tag", "")] = (cond, content, holes, conds)
                continue
            sub = "explicit" if (nm == "bump_pre_release_num" and "hash_int" not in content) else ("hash" if nm == "bump_pre_release_num" else "")
            tab[(nm, mode or "*", sub)] = (cond, content, holes, conds)
    return tab

WANT = {
    ("bump_patch", "*", ""): ("not pre_release and (dirty or distance)", "1"),
    ("bump_pre_release_label", "*", ""): ("dirty or distance", H),
    ("bump_pre_release_num", "*", "explicit"): ("dirty or distance", H),
    ("bump_pre_release_num", "*", "hash"): ("dirty or distance", "{{ hash_int(value=bumped_branch, length=%s) }}" % H),
    ("bump_post", "commit", ""): ("dirty or distance", "{{ distance }}"),
    ("bump_post", "tag", ""): ("dirty or distance", "1"),
    ("bump_dev", "commit", ""): ("dirty", "{{ current_timestamp }}"),
    ("bump_dev", "tag", ""): ("dirty or distance", "{{ current_timestamp }}"),
}
HOLES = {("bump_pre_release_label", "*", ""): "pre_release_label|param", ("bump_pre_release_num", "*", "explicit"): "pre_release_num", ("bump_pre_release_num", "*", "hash"): "hash_branch_len"}

def norm_tera(s):
    return re.sub(r"\s+", " ", s.strip())

def check(F, rep, tier):
    tab = template_table(F, rep, "R04.1")
    if tab is not None:
        rep.floor("R04.1", "bump templates reconstructed", len(tab), 8)
        for key, (wc, wcontent) in WANT.items():
            got = tab.get(key)
            name = "%s[%s%s]" % (key[0], key[1], "," + key[2] if key[2] else "")
            if got is None:
                rep.bad("R04.1", "template-missing:" + name, "no template found for %s (have %s)" % (name, sorted(tab)), None); continue
            cond, content, holes, conds = got
            try:
                same, cex = flowtpl.same_truth(cond, wc)
            except Exception as e:
                rep.undecided("R04.1", "unrecognised-shape:cond:" + name, "cannot parse guard %r: %s" % (cond, e), None); continue
            if not same:
                rep.bad("R04.1", "guard:" + name, "%s is guarded by `%s`, the documented rule is `%s` (they differ at %s)" % (name, cond, wc, cex), None)
            elif norm_tera(content) != norm_tera(wcontent):
                rep.bad("R04.1", "content:" + name, "%s yields %r, the documented rule is %r" % (name, content.replace(H, "<>"), wcontent.replace(H, "<>")), None)
            else:
                hk = HOLES.get(key)
                if hk and not any(any(x in h for x in hk.split("|")) for h in holes):
                    rep.bad("R04.1", "hole:" + name, "%s fills its value from %s, expected %s" % (name, holes, hk), None)
                else:
                    rep.ok("R04.1", "%s: `%s` -> %s" % (name, cond, content.replace(H, "<%s>" % ",".join(holes))), nontrivial_key=name)
        for key in tab:
            if key not in WANT: rep.bad("R04.1", "template-extra:%s" % (key,), "unexpected bump template variant %s" % (key,), None)
    op = F.fn("crate::cli::flow::args::overrides::OverridesConfig::override_post")
    if rep.anchor("R04.1", "flow OverridesConfig::override_post", op):
        rep.fn_seen(op)
        txts = {t for g in [op] + F.children(op.path) for c, t, h in flowtpl.templates_of(F, g)}
        uses_flag = any((mir.callee(t) or "").endswith("Option::<T>::or_else") or (mir.callee(t) or "").endswith("Option::<T>::or") for bi, t in op.calls())
        if not uses_flag:
            # `match &self.post { Some(t) => Some(t.clone()), None => Some(default) }`: the template is built on the None arm of the flag
            for g_ in [op] + F.children(op.path):
                for b2, t2 in g_.calls():
                    if str(mir.callee(t2) or "").endswith("Template::<T>::new"):
                        for d, pol, dd in mir.guards_of(g_, b2):
                            if d[0] == "discr" and "Option<" in str(d[2]) and isinstance(pol, tuple) and (("None" in pol[1]) if pol[0] == "in" else ("Some" in pol[1])):
                                if any(o.fields()[-1:] == ["post"] for o in mir.trace_place(g_, d[1])): uses_flag = True
        if txts == {"{{ post }}"} and uses_flag: rep.ok("R04.1", "post base is --post, else the tag's {{ post }}", nontrivial_key="opost")
        elif txts == {"{{ post }}"}: rep.undecided("R04.1", "override-post-shape", "how the --post flag takes precedence over the default template is not recognised", op.where())
        else: rep.bad("R04.1", "override-post", "override_post default is %s (or_else on the flag: %s), expected '{{ post }}'" % (sorted(txts), uses_flag), op.where())
    wildcard(F, rep)
    remainder_only(F, rep)
    first_match(F, rep)
    rules_as_written(F, rep)
    dev_iff_dirty_or_ahead(F, rep)
    flags_beat_rules(F, rep)
    hash_len(F, rep)
    option_plumbing(F, rep)
    null_is_empty(F, rep)
    hash_purity(F, rep)
    return core.finish(rep, explanation=EXPL, assumptions=ASSUME, trusted=TRUST)

def wildcard(F, rep):
    rule = "R04.2"
    n = 0
    for nm in ("BranchRule::matches", "BranchRule::extract_branch_number"):
        f = F.fn("crate::cli::flow::branch_rules::" + nm)
        if not rep.anchor(rule, nm, f): continue
        rep.fn_seen(f)
        f = mir.inlined(F, f, depth=3)        # wildcard_prefix() / strip_wildcard_prefix() style helpers are seen through
        for bi, t in f.calls():
            full = t[1].get("full") or ""
            if "Index<std::ops::RangeTo<usize>>" not in full: continue
            n += 1
            rng = None
            for o in mir.trace_op(f, t[2][1], transparent=()):
                if o.kind == "agg": rng = mir.rv_at(o.fn, *o.data)
            if rng is None: continue
            e = panics.describe_len(f, rng[2][0])
            sfx = None
            for d, pol, dd in mir.guards_of(f, bi):
                if d[0] == "call" and (d[1] or "").endswith("::ends_with") and pol is True: sfx = mir.const_arg(f, d[2][2][1])
            site = "%s bb%d line %s" % (f.where(), bi, f.blocks[bi]["line"])
            if e[0] == "sub" and isinstance(sfx, str):
                kept = sfx[:len(sfx) - e[2]]
                if kept.endswith("/"): rep.ok(rule, "%s: pattern[..len-%d] under ends_with(%r) keeps %r" % (nm, e[2], sfx, kept), sample=site, nontrivial_key=nm)
                else:
                    # or the same arm separately requires the remainder to start with '/'
                    rep.bad(rule, "prefix-loses-separator:" + nm, "%s strips %d characters of the %r suffix, so the retained prefix (%r) does not end in '/': 'prefix/*' also matches 'prefixfoo'" % (nm, e[2], sfx, kept), site)
            else:
                rep.undecided(rule, "unrecognised-shape:" + nm, "cannot relate the wildcard prefix slice to its ends_with guard (%s, %r)" % (e, sfx), site)
    if n == 0:
        # `pattern.strip_suffix('*')` kept only when it ends with '/': the other way of keeping the separator
        for nm in ("BranchRule::matches", "BranchRule::extract_branch_number"):
            f = F.fn("crate::cli::flow::branch_rules::" + nm)
            if f is None: continue
            f = mir.inlined(F, f, depth=3)
            for bi, t in f.calls():
                if not ("::strip_suffix" in (mir.callee(t) or "")) or len(t[2]) < 2: continue
                sfx = mir.const_arg(f, t[2][1])
                if sfx not in ("*", "/*"): continue
                n += 1
                site = "%s bb%d line %s" % (f.where(), bi, f.blocks[bi]["line"])
                if sfx == "/*":
                    rep.bad(rule, "prefix-loses-separator:" + nm, "%s strips the whole '/*' suffix, so the retained prefix does not end in '/': 'prefix/*' also matches 'prefixfoo'" % nm, site); continue
                # some ends_with(.., '/') test on the stripped prefix must hold where the prefix is used
                kept = False
                for b2, t2 in f.calls():
                    if "::ends_with" in (mir.callee(t2) or "") and len(t2[2]) > 1 and mir.const_arg(f, t2[2][1]) == "/":
                        if any(k == "call" and d == str(bi) for k, d in mir.deep_origins(f, t2[2][0])): kept = True
                if not kept:
                    # `.strip_suffix('*').filter(|prefix| prefix.ends_with('/'))`: the test sits in the closure of an Option::filter on the stripped value
                    for b2, t2 in f.calls():
                        if not (mir.callee(t2) or "").endswith("Option::<T>::filter") or len(t2[2]) < 2: continue
                        if not any(k == "call" and d == str(bi) for k, d in mir.deep_origins(f, t2[2][0])): continue
                        for o in mir.trace_op(f, t2[2][1], transparent=()):
                            if o.kind != "agg": continue
                            rvc = mir.rv_at(o.fn, *o.data)
                            c_ = F.fn(rvc[1].get("path")) if isinstance(rvc[1], dict) and rvc[1].get("k") == "closure" else None
                            if c_ is None: continue
                            sp_ = mir.sym_paths(c_, limit=50)
                            if any("::ends_with" in (mir.callee(t3) or "") and len(t3[2]) > 1 and mir.const_arg(c_, t3[2][1]) == "/" for b3, t3 in c_.calls()) and len(list(c_.calls())) == 1: kept = True
                if kept: rep.ok(rule, "%s: pattern.strip_suffix('*') used only when it ends with '/'" % nm, sample=site, nontrivial_key=nm)
                else: rep.bad(rule, "prefix-loses-separator:" + nm, "%s strips the '*' but never requires the remaining prefix to end in '/'" % nm, site)
    if n == 0: rep.undecided(rule, "wildcard-prefix-shape", "the 'prefix/*' handling is neither a pattern[..len-k] slice nor strip_suffix: separator retention not evaluated", None)
    else: rep.floor(rule, "wildcard prefix slices", n, 2)
    # matches(): 3-row table: "*" -> non-empty; ".../*" -> starts_with(prefix) && longer; else equality
    f = F.fn("crate::cli::flow::branch_rules::BranchRule::matches")
    if f is not None:
        f = mir.inlined(F, f, depth=3)
        consts = set()
        scope_ = [f] + mir.closures_in(F, f)
        for g_ in scope_[1:]:
            for bi, t in g_.calls():
                for a in t[2]:
                    c = mir.const_arg(g_, a)
                    if isinstance(c, str): consts.add(c)
        for bi, t in f.calls():
            for a in t[2]:
                c = mir.const_arg(f, a)
                if isinstance(c, str): consts.add(c)
                elif isinstance(c, tuple) and c[0] == "promoted":
                    v = mir.promoted_value(F, {"k": "promoted", "of": c[1], "idx": c[2]})
                    if v is not None and v[0] == "const": consts.add(v[1])
        consts = sorted(consts)
        has = lambda x: any((mir.callee(t) or "").endswith(x) for g_ in scope_ for bi, t in g_.calls())
        has_in = lambda x: any(x in (mir.callee(t) or "") for g_ in scope_ for bi, t in g_.calls())
        wild = "/*" in consts or ("/" in consts and has_in("::strip_suffix"))
        pref = has("::starts_with") or has_in("::strip_prefix")
        if "*" in consts and wild and pref and has("::is_empty") and any("PartialEq" in (t[1].get("full") or "") for bi, t in f.calls()):
            rep.ok(rule, "matches(): '*' (non-empty), 'prefix/*' (starts_with and longer), exact equality", nontrivial_key="rows")
        else: rep.bad(rule, "match-rows", "BranchRule::matches lost one of its three pattern kinds (constants %s)" % consts, f.where())

def remainder_only(F, rep):
    rule = "R04.2"
    remainder_only._reported = False
    f = F.fn("crate::cli::flow::branch_rules::BranchRule::extract_branch_number")
    if f is None: return
    f = mir.inlined(F, f, depth=3)
    n = 0
    # the numeric-segment search is recognised by what it does: it splits a piece of the branch name at '/'
    for bi, t in f.calls():
        if not (mir.callee(t) or "").endswith("core::str::<impl str>::split") or len(t[2]) < 2: continue
        if mir.const_arg(f, t[2][1]) != "/": continue
        n += 1
        src = mir.trace_op(f, t[2][0], transparent=())
        sliced = any(o.kind == "call" and "Index<std::ops::RangeFrom<usize>>" in (o.fn.blocks[o.data]["t"][1].get("full") or "") for o in src)
        if not sliced:
            # the slice may be wrapped (Some(&name[n..]) returned by a helper and unwrapped with `?`)
            for kind, data in mir.deep_origins(f, t[2][0]):
                if kind == "call" and data.isdigit():
                    full = f.blocks[int(data)]["t"][1].get("full") or "" if f.blocks[int(data)]["t"][0] == "call" else ""
                    if "Index<std::ops::RangeFrom<usize>>" in full or "::strip_prefix" in full: sliced = True
        if not sliced:
            # `strip_prefix(prefix)` is the other way of dropping the prefix
            sliced = any(o.kind == "call" and "::strip_prefix" in (mir.callee(o.fn.blocks[o.data]["t"]) or "") for o in mir.trace_op(f, t[2][0], transparent=mir.TRANSPARENT + ("Option::<T>::unwrap", "as std::ops::Try>::branch")))
        site = "%s bb%d line %s" % (f.where(), bi, f.blocks[bi]["line"])
        star = False
        for d, pol, dd in mir.guards_of(f, bi):
            if d[0] == "call" and "PartialEq" in (d[1] or "") and pol is True:
                for a in d[2][2]:
                    c = mir.const_arg(f, a)
                    if isinstance(c, tuple) and c[0] == "promoted":
                        v = mir.promoted_value(F, {"k": "promoted", "of": c[1], "idx": c[2]}); c = v[1] if v is not None and v[0] == "const" else None
                    if c == "*": star = True
        # a segment counts as the number only if it is all ASCII digits (not "whatever u32::from_str accepts": '+7' parses too)
        import parsers
        scope_ = [f] + mir.closures_in(F, f)
        digit_test = any(((mir.callee(t2) or "").endswith("Iterator::all") or (mir.callee(t2) or "").endswith("Iterator::any")) and len(t2[2]) > 1 and parsers.closure_pred_name(F, g_, t2[2][1]) == "is_ascii_digit" for g_ in scope_ for b2, t2 in g_.calls())
        if not digit_test and not getattr(remainder_only, "_reported", False):
            remainder_only._reported = True
            rep.bad(rule, "segment-not-all-digits", "the numeric path segment is not recognised with chars().all(is_ascii_digit): a segment such as '+7', or the first one that merely parses, is taken as the number", site)
        if sliced: rep.ok(rule, "under 'prefix/*' the number is searched only after the prefix", sample=site, nontrivial_key="rem%d" % bi)
        elif star: rep.ok(rule, "under '*' the whole name is searched", sample=site)
        else: rep.bad(rule, "number-from-prefix", "the first numeric segment is searched in the whole branch name although the rule is not the universal '*': digits inside a 'prefix/*' rule's own prefix are taken as the number", site)
    rep.floor(rule, "numeric-segment searches in extract_branch_number", n, 1)

def first_match(F, rep):
    rule = "R04.3"
    f = F.fn("crate::cli::flow::branch_rules::BranchRules::find_rule")
    if not rep.anchor(rule, "BranchRules::find_rule", f): return
    rep.fn_seen(f)
    cs = [mir.callee(t) or "" for bi, t in f.calls()]
    fulls = " ".join(t[1].get("full") or "" for bi, t in f.calls())
    if any((t[1].get("decl") or "") == "std::iter::Iterator::find" for bi, t in f.calls()) and not any(x in fulls for x in ("iter::Rev", "rfind", "::last", "DoubleEndedIterator")):
        rep.ok(rule, "find_rule = rules.iter().find(matches): the first matching rule wins", nontrivial_key="find")
    else: rep.bad(rule, "not-first-match", "find_rule does not take the first matching rule (calls: %s)" % [c.rsplit("::", 1)[-1] for c in cs], f.where())
    # what find_rule returns is the result of that one search: a second lookup tried first (exact name, longest prefix, ...)
    # would let a later rule win over an earlier matching one
    finds = [(g_.path, bi) for g_ in [f] + mir.closures_in(F, f) for bi, t in g_.calls() if (t[1].get("decl") or "").startswith("std::iter::Iterator::") and (t[1].get("decl") or "").rsplit("::", 1)[-1] in ("find", "find_map", "position", "rposition", "rfind", "max_by", "max_by_key", "min_by", "min_by_key", "filter", "last", "nth")]
    ret_calls = {o.data for o in mir.trace_place(f, [0], transparent=mir.TRANSPARENT + ("Option::<T>::or", "Option::<T>::or_else", "Option::<T>::map", "Option::<T>::and_then")) if o.kind == "call"}
    if len(finds) == 1: rep.ok(rule, "find_rule performs a single search over the rules", nontrivial_key="onesearch")
    elif len(finds) > 1: rep.bad(rule, "not-first-match", "find_rule searches the rules %d times (%s): a lookup tried before the ordered scan lets a later rule beat an earlier matching one" % (len(finds), [(F.fns[gp].blocks[b]["t"][1].get("decl") or "").rsplit("::", 1)[-1] for gp, b in finds]), f.where())
    clo = F.children(f.path)
    if any((mir.callee(t) or "").endswith("BranchRule::matches") for c in clo for bi, t in c.calls()): rep.ok(rule, "the predicate is BranchRule::matches")
    else: rep.bad(rule, "find-predicate", "find_rule's predicate is not BranchRule::matches", f.where())

def override_dirty_full_table(F, f):
    """complete decision table of FlowArgs::override_dirty by abstract evaluation (rules/absint.py):
    {(tag_mode, flag_dirty, flag_no_dirty, current_dirty in (None, False, True), distance in (None, 'zero', 'pos')): bool}, or (None, why)"""
    import absint as A
    doms = {2: [A.NONE, A.some(False), A.some(True)], 3: [A.NONE, A.some(A.ZERO), A.some(A.POS)]}
    try:
        atoms, tab = A.decision_table(F, f, doms)
    except A.Unknown as e:
        return None, "not modelled: %s" % e
    role = {}
    for a in atoms:
        if "no_dirty" in a: r = "fnd"
        elif "dirty" in a and "post_mode" not in a: r = "fd"
        elif "post_mode" in a and "'tag'" in a and a.startswith("eq("): r = "tag"
        else: return None, "a condition the table cannot name: %s" % a
        if r in role.values(): return None, "two conditions for %s" % r
        role[a] = r
    out = {}
    for (combo, asg), v in tab.items():
        if not isinstance(v, bool) and v != "diverges": return None, "non-boolean result %r" % (v,)
        named = {role[a]: b for a, b in asg}
        cd = None if combo[0][0] == "None" else combo[0][1]
        ds = None if combo[1][0] == "None" else combo[1][1][1]
        out[(named.get("tag"), named.get("fd"), named.get("fnd"), cd, ds)] = v
    return out, sorted(role.values())

def dev_iff_dirty_or_ahead(F, rep):
    """R04.7: without an explicit --dirty / --no-dirty the dirty flag handed to the version pipeline is, in tag mode, `dirty or ahead`
    (whatever is known about each), and an explicit flag wins.  Decided on the function's full decision table."""
    rule = "R04.7"
    od = [x for x in F.find("FlowArgs>::override_dirty") if x.kind == "assoc"]
    if not rep.anchor(rule, "FlowArgs::override_dirty", od): return
    rep.fn_seen(od[0])
    tab, info = override_dirty_full_table(F, od[0])
    if tab is None:
        rep.undecided(rule, "override-dirty-table", "cannot build the decision table of override_dirty (%s)" % info, od[0].where()); return
    wrong = []
    for (tag, fd, fnd, cd, ds), v in sorted(tab.items(), key=repr):
        if fd and fnd: continue                                   # rejected by argument validation
        if tag is None and not (fd or fnd): continue              # the function never looks at the mode on this row's path
        want = fd if (fd or fnd) else bool(tag and (cd is True or ds == "pos"))
        if v != want: wrong.append("post-mode %s, --dirty %s, --no-dirty %s, work tree dirty %s, distance %s -> %s (expected %s)" % ("tag" if tag else "commit", fd, fnd, {None: "unknown", True: "yes", False: "no"}[cd], {None: "unknown", "zero": "0", "pos": ">0"}[ds], v, want))
    if wrong:
        rep.bad(rule, "dirty-or-ahead", "override_dirty deviates from `explicit flag, else tag mode and (dirty or ahead)` on %d of %d rows, e.g. %s" % (len(wrong), len(tab), wrong[0]), od[0].where())
    else:
        rep.ok(rule, "override_dirty == explicit flag, else (tag mode and (dirty or distance > 0)) on all %d rows of its decision table (conditions %s)" % (len(tab), info), nontrivial_key="odt")

def rules_as_written(F, rep):
    """`first matching rule` is about the list the user wrote: the constructors keep it in order and whole, and a branch no
    rule matches gets the fixed fallback (no rule's number extraction runs for it)."""
    rule = "R04.3"
    REORDER = ("::sort", "::sort_by", "::sort_by_key", "::sort_unstable", "::sort_unstable_by", "::sort_unstable_by_key", "::dedup", "::dedup_by", "::dedup_by_key",
               "::reverse", "::retain", "::swap", "::swap_remove", "::truncate", "::rev", "IndexMap<K, V, S>::insert", "HashMap<K, V, S>::insert", "BTreeMap<K, V, A>::insert",
               "::insert_full", "::into_values", "::into_keys", "::rotate_left", "::rotate_right", "::pop", "::remove", "::drain")
    n = 0
    for nm, f in (("BranchRules::new", F.fn("crate::cli::flow::branch_rules::BranchRules::new")),
                  ("<BranchRules as FromStr>::from_str", F.fn("<crate::cli::flow::branch_rules::BranchRules as std::str::FromStr>::from_str"))):
        if not rep.anchor(rule, nm, f): continue
        rep.fn_seen(f)
        fi = mir.inlined(F, f, depth=3, keep=("validate", "preprocess_ron_syntax"))
        n += 1
        hits = sorted({(mir.callee(t) or "").rsplit("::", 1)[-1] for h in [fi] + mir.closures_in(F, fi) for bi, t in h.calls() if any((mir.callee(t) or "").endswith(x) for x in REORDER)})
        if hits: rep.bad(rule, "rule-list-rebuilt:" + nm.rsplit("::", 1)[-1], "%s passes the parsed rule list through %s: rules are dropped, merged or reordered, so the rule that applies is no longer the first matching one the user wrote" % (nm, hits), fi.where())
        else: rep.ok(rule, "%s stores the rule list as parsed (no reordering / de-duplication call)" % nm, nontrivial_key="aswritten" + nm)
    rb = F.fn("crate::cli::flow::branch_rules::BranchRules::resolve_for_branch")
    if rep.anchor(rule, "BranchRules::resolve_for_branch", rb):
        rep.fn_seen(rb)
        ri = mir.inlined(F, rb, depth=2, keep=("find_rule", "resolve_for_branch", "resolve_pre_release_num", "extract_branch_number"))
        nres = 0
        for h in [ri] + mir.closures_in(F, ri):
            for bi, t in h.calls():
                if not (mir.callee(t) or "").endswith("BranchRule::resolve_for_branch") or not t[2]: continue
                nres += 1
                site = "%s bb%d line %s" % (h.where(), bi, h.blocks[bi]["line"])
                kinds = set()
                for k, d in mir.deep_origins(h, t[2][0], stop=()):
                    if k == "call" and d.isdigit() and h.blocks[int(d)]["t"][0] == "call":
                        c2 = mir.callee(h.blocks[int(d)]["t"]) or ""
                        if c2.endswith("::find_rule"): kinds.add("found")
                        elif c2.startswith("crate::") and not c2.endswith("::find_rule"): kinds.add("made:" + c2.rsplit("::", 1)[-1])
                    elif k == "agg":
                        kinds.add("made:literal") if False else None
                    elif k in ("param", "upvar"): kinds.add("given")
                for o in mir.trace_op(h, t[2][0]):
                    if o.kind == "agg" and (mir.rv_at(o.fn, *o.data)[1].get("adt") or "").endswith("BranchRule"): kinds.add("made:literal")
                made = sorted(x for x in kinds if x.startswith("made:"))
                if made: rep.bad(rule, "fallback-runs-a-rule", "resolve_for_branch resolves a rule that is not the one find_rule returned (%s): a branch that no configured rule matches gets a number extracted from its name instead of the fixed fallback (hash)" % made, site)
                elif kinds: rep.ok(rule, "only the rule found by find_rule (or handed in) is resolved", sample=site, nontrivial_key="res%s%d" % (h.path, bi))
                else: rep.undecided(rule, "resolve-receiver-origin", "cannot tell where the resolved rule comes from", site)
        rep.floor(rule, "rule resolutions in BranchRules::resolve_for_branch", nres, 1)
    rep.floor(rule, "rule-list constructors", n, 2)

def flags_beat_rules(F, rep):
    rule = "R04.4"
    f = F.fn("crate::cli::flow::args::branch_rules::BranchRulesConfig::apply_branch_rules")
    if not rep.anchor(rule, "BranchRulesConfig::apply_branch_rules", f): return
    rep.fn_seen(f)
    n = 0
    for bi, si, st in f.stmts():
        if st[0] != "=" or len(st[1]) < 2 or st[1][0] != 1: continue
        fl = [e[2] for e in st[1][1:] if not isinstance(e, str) and e[0] == "f"]
        if not fl or fl[-1] not in ("pre_release_label", "pre_release_num", "post_mode"): continue
        n += 1
        good = False; others = set()
        for d, pol, dd in mir.guards_of(f, bi):
            if d[0] == "call" and ((d[1] or "").endswith("::is_none") or (d[1] or "").endswith("::is_some")):
                for o in mir.trace_op(f, d[2][2][0]):
                    if o.fields()[-1:] == [fl[-1]] and (d[1] or "").endswith("::is_none") and pol is True: good = True
                    elif o.fields() and o.fields()[-1] in ("pre_release_label", "pre_release_num", "post_mode") and o.fields()[-1] != fl[-1]: others.add(o.fields()[-1])
        site = "%s bb%d line %s" % (f.where(), bi, f.blocks[bi]["line"])
        if not good and st[2][0] == "use":
            # `self.x = self.x.or(rule_value)`: the explicit flag is the receiver of `or` / `or_else`
            for o in mir.trace_op(f, st[2][1], transparent=()):
                if o.kind == "call" and any((mir.callee(f.blocks[o.data]["t"]) or "").endswith(x) for x in ("Option::<T>::or", "Option::<T>::or_else")):
                    if any(o2.fields()[-1:] == [fl[-1]] for o2 in mir.trace_op(f, f.blocks[o.data]["t"][2][0])): good = True
        if good and others:
            rep.bad(rule, "rule-value-depends-on-other-flag:" + fl[-1], "the rule's %s is applied only when %s is (also) absent: giving one explicit flag discards the rule's value for another" % (fl[-1], sorted(others)), site)
        elif good: rep.ok(rule, "rule value for %s is used only when the flag is absent" % fl[-1], sample=site, nontrivial_key=fl[-1])
        else: rep.bad(rule, "rule-overrides-flag:" + fl[-1], "apply_branch_rules writes %s without checking that the explicit flag is absent" % fl[-1], site)
    # `self.x.get_or_insert_with(|| rule_value)`: inserts only when the flag is absent
    for bi, t in f.calls():
        c = mir.callee(t) or ""
        if c.endswith("Option::<T>::get_or_insert_with") or c.endswith("Option::<T>::get_or_insert"):
            for o in mir.trace_op(f, t[2][0]):
                if o.fields() and o.fields()[-1] in ("pre_release_label", "pre_release_num", "post_mode"):
                    n += 1
                    rep.ok(rule, "rule value for %s is inserted only when the flag is absent (get_or_insert_with)" % o.fields()[-1], sample="%s bb%d" % (f.where(), bi), nontrivial_key="goi" + o.fields()[-1])
    rep.floor(rule, "rule-derived writes in apply_branch_rules", n, 3)
    g = F.fn("crate::cli::flow::branch_rules::BranchRule::resolve_pre_release_num")
    if rep.anchor(rule, "BranchRule::resolve_pre_release_num", g):
        rep.fn_seen(g)
        # the explicit number is returned before extraction is attempted
        ext = [bi for bi, t in g.calls() if (mir.callee(t) or "").endswith("extract_branch_number")]
        ok = bool(ext) and all(any(d[0] == "discr" and "pre_release_num" in mir.fmt_place(d[1]) if False else (d[0] == "discr" and any("pre_release_num" in o.path_str() for o in mir.trace_place(g, d[1]))) for d, pol, dd in mir.guards_of(g, b)) for b in ext)
        if ok: rep.ok(rule, "rule's explicit number is tested before the branch-name extraction", nontrivial_key="explicit-first")
        else: rep.bad(rule, "extraction-before-explicit", "extract_branch_number is not guarded by the absence of the rule's explicit number", g.where())

def hash_len(F, rep):
    rule = "R04.5"
    f = [x for x in F.find("FlowArgs>::validate_hash_branch_len") if x.kind == "assoc"]
    if not rep.anchor(rule, "FlowArgs::validate_hash_branch_len", f): return
    f = f[0]; rep.fn_seen(f)
    ub = None
    for bi, si, st in f.stmts():
        if st[0] == "=" and st[2][0] == "bin" and st[2][1] in ("Gt", "Ge", "Lt", "Le"):
            c = mir.const_of(st[2][3]) if st[2][3][0] == "c" else None
            if isinstance(c, int) and c > 0: ub = c if st[2][1] == "Gt" else (c - 1 if st[2][1] == "Ge" else c)
    # the integer type that parses the number
    g = bump_fn(F, "bump_pre_release_num")
    ty = None
    if g is not None:
        m = re.search(r"Template<(u\d+|usize)>", g.d.get("ret", ""))
        ty = m.group(1) if m else None
    bits = {"u8": 8, "u16": 16, "u32": 32, "u64": 64, "usize": 64}.get(ty)
    if ub is None or bits is None:
        rep.undecided(rule, "unrecognised-shape:hash-len", "cannot read the length bound (%s) or the number type (%s)" % (ub, ty), f.where()); return
    digits = len(str(2 ** bits - 1)) - 1          # every number with this many digits fits
    if ub <= digits: rep.ok(rule, "every accepted hash length (<= %d) yields a number that fits %s (%d safe digits)" % (ub, ty, digits), nontrivial_key="fit")
    else: rep.bad(rule, "hash-len-exceeds-integer:max%d>%s-digits%d" % (ub, ty, digits), "--hash-branch-len up to %d is accepted but the number is parsed as %s, which only holds every %d-digit number: some branches fail with 'number too large'" % (ub, ty, digits), f.where())

def null_is_empty(F, rep):
    """R04.6b: a template function argument that is null (no branch: detached HEAD) is the empty text, so that the branch id of "no
    branch" is the hash of "" - not of the word "null"."""
    rule = "R04.6"
    g = F.fn("crate::cli::utils::template::functions::get_string_value")
    if not rep.anchor(rule, "template::functions::get_string_value", g): return
    rep.fn_seen(g)
    verdict = None; seen = False
    for h in [g] + mir.closures_in(F, g):
        for sp in mir.sym_paths(h, limit=5000):
            names = None
            for i, b in enumerate(sp.blocks[:-1]):
                t = h.blocks[b]["t"]
                if t[0] != "switch": continue
                ds = [st for st in h.blocks[b]["s"] if st[0] == "=" and st[2][0] == "discr" and str(st[2][2]).endswith("Value") and st[1] == t[1][1]]
                if not ds: continue
                table = {v: n for v, n in ds[-1][2][3]}
                nxt = sp.blocks[i + 1]
                taken = [v for v, tb in t[2] if tb == nxt]
                names = {table.get(v) for v in taken} if taken and nxt != t[3] else {n for v, n in table.items() if v not in [v2 for v2, tb in t[2]]}
            if names is None or "Null" not in names: continue
            seen = True
            r = sp.ret()
            empty = (r[0] == "call" and ((str(r[1]).endswith("String::new") and not r[2]) or (r[2] and r[2][0] == ("const", "")))) or r == ("const", "")
            if not empty: verdict = mir.show(r)[:80]
    if not seen: rep.undecided(rule, "null-argument-shape", "no match arm for Value::Null found in get_string_value", g.where())
    elif verdict: rep.bad(rule, "null-argument-not-empty", "a null template argument is turned into %s instead of the empty text: with no branch (detached HEAD, bumped_branch: None) the branch id becomes the hash of that text (e.g. of the word \"null\"), not the documented hash of \"\"" % verdict, g.where())
    else: rep.ok(rule, "a null template argument is the empty text", nontrivial_key="nullempty")

def option_plumbing(F, rep, ub_doc=10):
    """R04.8: what the user wrote reaches the flow logic: (a) the rule list is written by argument parsing only - no later step
    replaces it (an empty list stays empty); (b) no clap-level range on --hash-branch-len narrower than the documented 1-10."""
    rule = "R04.8"
    writers = []
    for p_, g_ in F.fns.items():
        if "::tests" in p_ or "test_utils" in p_ or "::_::" in p_ or g_.d.get("impl_trait") in ("std::default::Default", "std::clone::Clone", "clap::Args", "clap::FromArgMatches"): continue
        if "FromArgMatches" in p_ or "clap::Args" in p_: continue
        for bi, si, st in g_.stmts():
            if st[0] == "=" and len(st[1]) > 1:
                fl = [e for e in st[1][1:] if not isinstance(e, str) and e[0] == "f"]
                if fl and fl[-1][2] == "branch_rules" and "BranchRulesConfig" in str(fl[-1][3]): writers.append((g_, bi))
    for g_, bi in writers:
        rep.bad(rule, "rule-list-replaced:" + g_.path.replace("crate::", "").rsplit("::", 1)[-1], "%s assigns branch_config.branch_rules after argument parsing: the rule set that applies is not the one the user gave (e.g. an empty list silently becomes the GitFlow defaults)" % g_.path.rsplit("::", 1)[-1], "%s bb%d line %s" % (g_.where(), bi, g_.blocks[bi]["line"]))
    if not writers: rep.ok(rule, "branch_config.branch_rules is written by argument parsing only", nontrivial_key="ruleswriter")
    nrange = 0
    for p_, g_ in F.fns.items():
        if "cli::flow::args::main" not in p_ or "::tests" in p_: continue
        for bi, t in g_.calls():
            c = mir.callee(t) or ""
            if not (c.endswith("::range") and "clap" in c and len(t[2]) > 1): continue
            nrange += 1
            txt = mir.sym_value(F, g_, t[2][1])
            nums = [int(x) for x in re.findall(r"(?<![A-Za-z_0-9])(\d+)(?:_[iu](?:\d+|size))?(?![A-Za-z0-9])", txt)]
            site = "%s bb%d line %s" % (g_.where(), bi, g_.blocks[bi]["line"])
            if len(nums) < 2: rep.undecided(rule, "clap-range-shape", "a clap value range (%s) whose bounds are not read" % txt[:60], site); continue
            lo, hi = nums[0], nums[-1]
            if "RangeInclusive" not in txt and "..=" not in txt: hi -= 1
            if lo > 1 or hi < ub_doc: rep.bad(rule, "clap-range-narrower", "a clap-level range accepts %d..=%d only, narrower than the documented hash lengths 1-%d: `--hash-branch-len %d` is refused as a usage error" % (lo, hi, ub_doc, ub_doc), site)
            else: rep.ok(rule, "clap-level range %d..=%d covers the documented lengths" % (lo, hi), sample=site, nontrivial_key="cr%d" % bi)
    if not nrange: rep.ok(rule, "no clap-level value range on the flow arguments (lengths are checked by validate_hash_branch_len only)", nontrivial_key="norange")

def hash_purity(F, rep):
    rule = "R04.6"
    f = [x for x in F.find("template::functions::hash_int_function") if x.kind == "fn"]
    if not rep.anchor(rule, "hash_int_function", f): return
    f = f[0]; rep.fn_seen(f)
    f = mir.inlined(F, f, depth=3, keep=("get_string_value",))       # stable_hash(..) / get_hash_length(..) style helpers are seen through
    keys = set()
    for g in [f] + [F.fn(mir.callee(t)) for bi, t in f.calls() if F.fn(mir.callee(t) or "") is not None]:
        for bi, t in g.calls():
            if (mir.callee(t) or "").endswith("HashMap::<K, V, S, A>::get"):
                k = mir.const_arg(g, t[2][1])
                if isinstance(k, str): keys.add(k)
                elif g is not f:
                    # helper get_string_value(args, key): key comes from the caller
                    for b2, t2 in f.calls():
                        if (mir.callee(t2) or "") == g.path:
                            kk = mir.const_arg(f, t2[2][1])
                            if isinstance(kk, str): keys.add(kk)
    if keys <= {"value", "length", "allow_leading_zero"} and {"value", "length"} <= keys: rep.ok(rule, "hash_int reads only %s" % sorted(keys), nontrivial_key="keys")
    else: rep.bad(rule, "hash-extra-input", "hash_int reads template arguments %s (allowed: value, length, allow_leading_zero)" % sorted(keys), f.where())
    hs = [mir.callee(t) or "" for bi, t in f.calls() if "Hasher" in (t[1].get("full") or "") or "RandomState" in (t[1].get("full") or "")]
    if any(c.endswith("DefaultHasher::new") or c.endswith("DefaultHasher as std::default::Default>::default") for c in hs) and not any("RandomState" in c for c in hs):
        rep.ok(rule, "hasher is DefaultHasher::new() (fixed keys)", nontrivial_key="hasher")
    else: rep.bad(rule, "hash-seed", "hash_int does not use a fixed-key DefaultHasher (%s)" % hs, f.where())
    cg = mir.CallGraph(F)
    eff = [p for p in cg.closure([f.path], generic=False) if any(x in p for x in ("std::env::", "::now", "std::time::", "std::fs::", "rand::"))]
    if eff: rep.bad(rule, "hash-effects", "hash_int reaches %s" % eff[:3], f.where())
    else: rep.ok(rule, "hash_int touches no clock / environment / filesystem")

EXPL = ("The Tera template each FlowArgs::bump_* function can build is reconstructed from the MIR (constants, String + &str, decoded format_args pieces, helper functions inlined, per path), split into guard and content, and the guard is "
        "compared with the documented rule BY TRUTH TABLE over {dirty, distance, pre_release}: patch `not pre and (dirty or distance)` -> 1; label/number/post `dirty or distance`; number = explicit value or hash_int(bumped_branch, hash_branch_len); "
        "post = {{ distance }} (commit) / 1 (tag); dev = current_timestamp under `dirty` (commit) / `dirty or distance` (tag); else branch None; --post default {{ post }}. Further: 'prefix/*' keeps its '/', first matching rule wins, "
        "explicit flags beat rule values, the accepted hash length is compared with the digits the parsing integer can always hold, hash_int depends only on (value, length, allow_leading_zero) with a fixed-key hasher. "
        "Not decided: the composed law on concrete tags; digit count and leading-zero freedom of hash_int outputs.")
ASSUME = ["Tera evaluates `and`/`or`/`not` with the usual truth tables and treats 0/None/false as falsy"]
TRUST = ["rustc MIR", "zfacts", "rules/flowtpl.py (symbolic string reconstruction), c04.py"]
