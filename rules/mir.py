"""E2 analysis utilities over the MIR-lite fact base: CFG, dominators, reachability,
definitions, origin tracing, guard sets, call-graph closure."""
from collections import defaultdict, deque

# ---------------------------------------------------------------------------
# CFG

def succs(fn, bi):
    t = fn.blocks[bi]["t"]
    k = t[0]
    if k == "goto": return [t[1]]
    if k == "switch": return [b for _, b in t[2]] + [t[3]]
    if k == "call": return [t[4]] if t[4] is not None else []
    if k == "assert": return [t[4]]
    if k == "drop": return [t[2]]
    return []

def preds(fn):
    p = defaultdict(list)
    for bi in range(len(fn.blocks)):
        for s in succs(fn, bi):
            p[s].append(bi)
    return p

def reachable(fn, start=0, avoid_blocks=(), avoid_edges=()):
    avoid_blocks = set(avoid_blocks); avoid_edges = set(avoid_edges)
    if start in avoid_blocks: return set()
    ck = None
    if not avoid_edges and len(avoid_blocks) <= 1:
        ck = (start, next(iter(avoid_blocks)) if avoid_blocks else None)
        rc = fn.d.setdefault("_reach", {})
        if ck in rc: return rc[ck]
    seen = {start}; q = deque([start])
    while q:
        b = q.popleft()
        for s in succs(fn, b):
            if s in seen or s in avoid_blocks or (b, s) in avoid_edges: continue
            seen.add(s); q.append(s)
    if ck is not None: fn.d["_reach"][ck] = seen
    return seen

class _Dom(dict):
    """block -> set of dominators (including itself), materialised lazily from the immediate-dominator tree"""
    def __init__(self, idom, reach):
        super().__init__()
        self.idom = idom; self.reach = reach
    def __missing__(self, b):
        if b not in self.reach: raise KeyError(b)
        out = {b}; x = b
        while self.idom.get(x) is not None and self.idom[x] != x:
            x = self.idom[x]; out.add(x)
        self[b] = out
        return out
    def get(self, b, default=None):
        try: return self[b]
        except KeyError: return default
    def __contains__(self, b): return b in self.reach
    def keys(self): return self.reach
    def __iter__(self): return iter(self.reach)

def dominators(fn):
    """dom[b] = set of blocks dominating b (including b), over blocks reachable from 0 (Cooper-Harvey-Kennedy; cached per fn)"""
    c = fn.d.get("_dom")
    if c is not None: return c
    # reverse postorder
    order = []; seen = {0}; stack = [(0, iter(succs(fn, 0)))]
    while stack:
        b, it = stack[-1]
        adv = False
        for s_ in it:
            if s_ not in seen:
                seen.add(s_); stack.append((s_, iter(succs(fn, s_)))); adv = True; break
        if not adv:
            order.append(b); stack.pop()
    rpo = order[::-1]
    num = {b: i for i, b in enumerate(rpo)}
    pr = preds(fn)
    idom = {0: 0}
    changed = True
    while changed:
        changed = False
        for b in rpo[1:]:
            new = None
            for p_ in pr[b]:
                if p_ not in idom: continue
                if new is None: new = p_
                else:
                    x, y = p_, new
                    while x != y:
                        while num[x] > num[y]: x = idom[x]
                        while num[y] > num[x]: y = idom[y]
                    new = x
            if new is not None and idom.get(b) != new:
                idom[b] = new; changed = True
    d = _Dom(idom, set(rpo))
    fn.d["_dom"] = d
    return d

def return_blocks(fn):
    return [bi for bi, b in enumerate(fn.blocks) if b["t"][0] == "ret" and not b["cleanup"]]

def must_pass(fn, through_blocks, src=0, dst_blocks=None):
    """True iff every path src -> any dst passes through one of through_blocks"""
    if dst_blocks is None: dst_blocks = return_blocks(fn)
    r = reachable(fn, src, avoid_blocks=through_blocks)
    return not any(d in r for d in dst_blocks)

def has_loop(fn):
    color = {}
    def dfs(b):
        color[b] = 1
        for s in succs(fn, b):
            if color.get(s) == 1: return True
            if s not in color and dfs(s): return True
        color[b] = 2
        return False
    import sys
    sys.setrecursionlimit(10000)
    return dfs(0)

# ---------------------------------------------------------------------------
# definitions

def local_defs(fn):
    """local -> list of ('s', bi, si, place, rvalue) | ('call', bi, place)"""
    cache = getattr(fn, "_defs", None) if hasattr(fn, "_defs") else None
    d = fn.d.get("_defs")
    if d is not None: return d
    d = defaultdict(list)
    for bi, b in enumerate(fn.blocks):
        if b["cleanup"]: continue
        for si, s in enumerate(b["s"]):
            if s[0] == "=":
                d[s[1][0]].append(("s", bi, si, s[1], s[2]))
            elif s[0] == "setdiscr":
                d[s[1][0]].append(("setdiscr", bi, si, s[1], s[2]))
        t = b["t"]
        if t[0] == "call":
            d[t[3][0]].append(("call", bi, t[3]))
    fn.d["_defs"] = d
    return d

def callee(t):
    """best name of a call terminator's callee: resolved path, else declared"""
    c = t[1]
    return c.get("path") or c.get("decl") or None

def callee_names(t):
    c = t[1]
    return [x for x in (c.get("path"), c.get("decl"), c.get("full")) if x]

def call_matches(t, pats):
    """pats: iterable of substrings; true if any name of the callee contains one"""
    ns = callee_names(t)
    return any(p in n for p in pats for n in ns)

# wrappers that return (a view of / a copy of) their first argument
TRANSPARENT = (
    "as std::ops::Deref>::deref", "as std::ops::DerefMut>::deref_mut",
    "as std::convert::AsRef", "as std::borrow::Borrow", "as std::clone::Clone>::clone",
    "std::string::String::as_str", "std::string::String::as_mut_str",
    "as std::borrow::ToOwned>::to_owned", "std::option::Option::<T>::as_ref",
    "std::option::Option::<T>::as_mut", "std::option::Option::<T>::as_deref",
    "std::option::Option::<&T>::cloned", "std::option::Option::<&T>::copied",
    "std::vec::Vec::<T, A>::as_slice", "as std::convert::Into", "as std::convert::From<T>>::from",
    "std::convert::identity",
)

class Origin:
    """root kinds: param(n) | const(c) | call(bi) | agg(bi,si) | rv(bi,si) | upvar(name) | undef(local)
    path: projection elements applied to the root (field names, downcasts), outermost last"""
    __slots__ = ("kind", "data", "path", "fn")
    def __init__(self, kind, data, path, fn):
        self.kind = kind; self.data = data; self.path = tuple(path); self.fn = fn
    def key(self):
        return (self.kind, str(self.data), self.path_str())
    def path_str(self):
        out = []
        for e in self.path:
            if isinstance(e, str): out.append(e)
            elif e[0] == "f": out.append(e[2])
            elif e[0] == "d": out.append("as " + e[1])
            elif e[0] == "i": out.append("[i]")
            elif e[0] == "c": out.append("[%d]" % e[1])
            elif e[0] == "s": out.append("[..]")
            elif e[0] == "cast": out.append("as:" + e[1])
        return ".".join(out)
    def fields(self):
        return [e[2] for e in self.path if not isinstance(e, str) and e[0] == "f"]
    def __repr__(self):
        if self.kind == "param":
            n = self.fn.names().get(self.data, "_%d" % self.data)
            base = "param(%s)" % n
        elif self.kind == "const":
            from facts import fmt_const
            base = "const(%s)" % fmt_const(self.data)
        elif self.kind == "call":
            t = self.fn.blocks[self.data]["t"]
            base = "call(%s@bb%d)" % (callee(t), self.data)
        else:
            base = "%s(%s)" % (self.kind, self.data)
        p = self.path_str()
        return base + ("." + p if p else "")

def _norm(proj):
    return [e for e in proj if e != "*"]

def trace_place(fn, place, transparent=TRANSPARENT, depth=0, seen=None):
    """All origins of the value read at `place` (flow-insensitive over reaching definitions)."""
    if seen is None: seen = set()
    local = place[0]
    proj = _norm(place[1:])
    k = (local, tuple(map(str, proj)))
    if k in seen or depth > 40:
        return []
    seen = seen | {k}
    # closure upvars: _1.<capture>
    if fn.kind == "closure" and local == 1 and proj and not isinstance(proj[0], str) and proj[0][0] == "f":
        return [Origin("upvar", proj[0][2], proj[1:], fn)]
    if 1 <= local <= fn.nargs:
        return [Origin("param", local, proj, fn)]
    out = []
    defs = local_defs(fn).get(local, [])
    for d in defs:
        if d[0] == "call":
            bi = d[1]
            if _norm(d[2][1:]):
                out.append(Origin("partial", bi, proj, fn)); continue
            t = fn.blocks[bi]["t"]
            if transparent and call_matches(t, transparent) and t[2]:
                a = t[2][0]
                if a[0] in ("cp", "mv"):
                    for o in trace_place(fn, a[1], transparent, depth + 1, seen):
                        out.append(Origin(o.kind, o.data, list(o.path) + proj, o.fn))
                    continue
                if a[0] == "c":
                    out.append(Origin("const", a[1], proj, fn)); continue
            out.append(Origin("call", bi, proj, fn))
        elif d[0] == "setdiscr":
            out.append(Origin("setdiscr", (d[1], d[2], d[4]), proj, fn))
        else:
            _, bi, si, tgt, rv = d
            tproj = _norm(tgt[1:])
            if tproj:
                # assignment to a part of the local: relevant only if it is a prefix of what we read
                if [str(x) for x in proj[:len(tproj)]] == [str(x) for x in tproj]:
                    rest = proj[len(tproj):]
                    out += _trace_rv(fn, rv, rest, bi, si, transparent, depth, seen)
                elif not proj:
                    out.append(Origin("partial", (bi, si), proj, fn))
                continue
            out += _trace_rv(fn, rv, proj, bi, si, transparent, depth, seen)
    if not defs:
        out.append(Origin("undef", local, proj, fn))
    return out

def _trace_rv(fn, rv, proj, bi, si, transparent, depth, seen):
    k = rv[0]
    if k == "use":
        return trace_op(fn, rv[1], transparent, depth + 1, seen, proj)
    if k == "ref":
        return [Origin(o.kind, o.data, list(o.path) + proj, o.fn)
                for o in trace_place(fn, rv[2], transparent, depth + 1, seen)]
    if k == "cast":
        return [Origin(o.kind, o.data, list(o.path) + [("cast", rv[4], rv[3], rv[1])] + proj, o.fn)
                for o in trace_op(fn, rv[2], transparent, depth + 1, seen, [])]
    if k == "agg":
        kd = rv[1]
        # reading a field of a freshly built aggregate: go into the operand
        if proj:
            p0 = proj[0]
            rest = proj
            if not isinstance(p0, str) and p0[0] == "d":
                rest = proj[1:]
                p0 = rest[0] if rest else None
            if p0 is not None and not isinstance(p0, str) and p0[0] == "f" and p0[1] < len(rv[2]):
                return trace_op(fn, rv[2][p0[1]], transparent, depth + 1, seen, rest[1:])
        return [Origin("agg", (bi, si), proj, fn)]
    return [Origin("rv", (bi, si), proj, fn)]

def trace_op(fn, op, transparent=TRANSPARENT, depth=0, seen=None, proj=()):
    if op[0] == "c":
        return [Origin("const", op[1], list(proj), fn)]
    if op[0] in ("cp", "mv"):
        return [Origin(o.kind, o.data, list(o.path) + list(proj), o.fn)
                for o in trace_place(fn, op[1], transparent, depth, seen)]
    return [Origin("unknown", str(op), list(proj), fn)]

def rv_at(fn, bi, si):
    return fn.blocks[bi]["s"][si][2]

def const_of(op):
    """python value of a constant operand (str/int/bool/char), else None"""
    if op[0] != "c": return None
    c = op[1]
    if c.get("k") in ("str", "int", "bool", "char"): return c["v"]
    if c.get("k") == "variant": return c["v"]
    return None

# ---------------------------------------------------------------------------
# guard sets

def edge_guards(fn, target_block):
    """Conditions that hold on every path from entry to target_block:
    list of (switch_block, values_taken:set|None, values_excluded:set) where
    values_taken is the set of switch values whose arms are the only way to reach
    the block (None when only the otherwise edge is)."""
    out = []
    reach_all = reachable(fn)
    if target_block not in reach_all: return out
    dom = dominators(fn)
    for d in dom.get(target_block, ()):
        if d == target_block: continue
        t = fn.blocks[d]["t"]
        if t[0] != "switch": continue
        arms = t[2]; other = t[3]
        targets = defaultdict(set)
        for v, b in arms: targets[b].add(v)
        all_t = set(targets) | {other}
        # which outgoing targets can reach target_block (without passing d again)?
        can = set()
        for tb in all_t:
            r = reachable(fn, tb, avoid_blocks={d})
            if target_block in r: can.add(tb)
        if can == all_t or not can:
            continue
        taken = set(); via_other = other in can
        for tb in can:
            taken |= targets.get(tb, set())
        excluded = set()
        for tb in all_t - can:
            excluded |= targets.get(tb, set())
        out.append((d, None if via_other and not taken else taken, excluded, via_other))
    return out

def describe_discr(fn, switch_block, transparent=TRANSPARENT):
    """What a switch tests: ('call', callee, arg_origins, bi) | ('discr', place_origins, tyname, variants)
    | ('bool', origins) | ('cmp', op, a, b) | ('unknown', ...)"""
    t = fn.blocks[switch_block]["t"]
    op = t[1]
    if op[0] == "c": return ("const", op[1])
    if len(op[1]) > 1 and any(not isinstance(e, str) for e in op[1][1:]):
        return ("place", op[1])          # `switchInt(copy ((*_1).f as Some).0)`: the tested value is a projection, not a local
    return _describe_place(fn, op[1], transparent, 0)

def _describe_place(fn, place, transparent, depth):
    local = place[0]
    defs = local_defs(fn).get(local, [])
    if len(defs) != 1 or depth > 8:
        return ("unknown", "multi-def" if defs else "no-def", local)
    return _describe_def(fn, defs[0], local, transparent, depth)

def _describe_def(fn, d, local, transparent, depth):
    if d[0] == "call":
        t = fn.blocks[d[1]]["t"]
        return ("call", callee(t), t, d[1])
    if d[0] != "s": return ("unknown", d[0], local)
    rv = d[4]
    if rv[0] == "discr":
        return ("discr", rv[1], rv[2], rv[3])
    if rv[0] == "use" and rv[1][0] in ("cp", "mv"):
        inner = rv[1][1]
        if len(inner) == 1:
            return _describe_place(fn, inner, transparent, depth + 1)
        return ("place", inner)
    if rv[0] == "bin":
        return ("bin", rv[1], rv[2], rv[3], rv[4] if len(rv) > 4 else None)
    if rv[0] == "un" and rv[1] == "Not":
        inner = rv[2]
        if inner[0] in ("cp", "mv"):
            return ("not", _describe_place(fn, inner[1], transparent, depth + 1))
    if rv[0] == "use" and rv[1][0] == "c":
        return ("const", rv[1][1])
    return ("unknown", rv[0], local)

def guards_of(fn, block, _depth=0):
    """[(description, polarity_values)] for every dominating condition of `block`.
    polarity for bool switches: True/False; for enum discriminants: set of variant names."""
    res = []
    for d, taken, excluded, via_other in edge_guards(fn, block):
        desc = describe_discr(fn, d)
        t = fn.blocks[d]["t"]
        ty = t[4] if len(t) > 4 else ""
        pol = None
        if ty == "bool":
            # switchInt(b) [0 -> F] else T
            if taken is not None and taken and not via_other: pol = (0 not in taken) if 0 not in taken else False
            elif via_other: pol = True if 0 in excluded else None
            if taken == {0} and not via_other: pol = False
        elif desc[0] == "discr":
            vmap = {v: n for v, n in desc[3]}
            if via_other:
                pol = ("not", frozenset(vmap.get(v, str(v)) for v in excluded))
            else:
                pol = ("in", frozenset(vmap.get(v, str(v)) for v in (taken or ())))
        else:
            pol = ("vals", frozenset(taken or ()), frozenset(excluded), via_other)
        # normalise Not
        while desc[0] == "not" and isinstance(pol, bool):
            desc = desc[1]; pol = not pol
        if desc[0] == "unknown" and desc[1] == "multi-def" and isinstance(pol, bool) and _depth < 6:
            th = _thread_bool(fn, desc[2], pol, _depth)
            if th:
                res.extend(th); continue
        res.append((desc, pol, d))
        # `match kind { Kind::A => .. }` where `kind` was built on this path by a (spliced-in) classifier: the arm taken names
        # the aggregate that ran, so the conditions for building it held too
        if desc[0] == "discr" and isinstance(pol, tuple) and pol[0] == "in" and len(pol[1]) == 1 and _depth < 6:
            want = next(iter(pol[1]))
            base = desc[1][0] if isinstance(desc[1], list) and desc[1] else None
            if base is not None and len(desc[1]) == 1:
                hits = []; other = False
                work = [base]; seen_l = set()
                while work:
                    L_ = work.pop()
                    if L_ in seen_l: continue
                    seen_l.add(L_)
                    for dd_ in local_defs(fn).get(L_, []):
                        if dd_[0] == "s" and len(dd_[3]) == 1 and dd_[4][0] == "agg" and isinstance(dd_[4][1], dict) and dd_[4][1].get("variant"):
                            if dd_[4][1]["variant"] == want: hits.append(dd_[1])
                        elif dd_[0] == "s" and len(dd_[3]) == 1 and dd_[4][0] == "use" and dd_[4][1][0] == "c" and dd_[4][1][1].get("k") == "variant":
                            if dd_[4][1][1].get("v") == want: hits.append(dd_[1])
                        elif dd_[0] == "s" and len(dd_[3]) == 1 and dd_[4][0] == "use" and dd_[4][1][0] in ("cp", "mv") and len(dd_[4][1][1]) == 1:
                            work.append(dd_[4][1][1][0])
                        else: other = True
                if len(hits) == 1 and not other:
                    res.extend(guards_of(fn, hits[0], _depth=_depth + 1))
    return res

def _thread_bool(fn, local, pol, depth):
    """jump threading for `let ok = a && b; if ok {..}` and for inlined bool helpers: the switched local has constant
    definitions that all differ from the outcome taken and exactly one other definition, so that one produced the outcome
    and the conditions for reaching it held too."""
    defs = local_defs(fn).get(local, [])
    consts = []; others = []; cdefs = []
    for d in defs:
        if d[0] == "s" and len(d[3]) == 1 and d[4][0] == "use" and d[4][1][0] == "c" and d[4][1][1].get("k") == "bool":
            consts.append(bool(d[4][1][1]["v"])); cdefs.append((bool(d[4][1][1]["v"]), d))
        else: others.append(d)
    if not others and consts:
        # `matches!(x, A | B)` spliced in: the local is only ever set to constants; the outcome names the assignment that ran
        hit = [d for v, d in cdefs if v == pol]
        if len(hit) == 1: return guards_of(fn, hit[0][1], _depth=depth + 1)
        return None
    if len(others) != 1 or any(c == pol for c in consts): return None
    real = others[0]
    if real[0] not in ("call", "s") or (real[0] == "s" and len(real[3]) != 1): return None
    desc = _describe_def(fn, real, local, TRANSPARENT, 0)
    p = pol
    while desc[0] == "not":
        desc = desc[1]; p = not p
    out = []
    if desc[0] == "unknown" and desc[1] == "multi-def":
        sub = _thread_bool(fn, desc[2], p, depth + 1)
        if sub is None: return None
        out.extend(sub)
    else:
        out.append((desc, p, real[1]))
    out.extend(guards_of(fn, real[1], _depth=depth + 1))
    return out

# ---------------------------------------------------------------------------
# call graph

# external generic callees that can invoke a given std trait on a type argument; traits not listed here are
# assumed callable by ANY external generic callee instantiated at the type (sound over-approximation)
TRAIT_TRIGGERS = {
    "std::fmt::Display": ("to_string", "new_display", "fmt::Display", "Display>::fmt", "fmt::format", "write_fmt", "::msg", "ser::Error", "de::Error", "custom"),
    "std::fmt::Debug": ("new_debug", "fmt::Debug", "Debug>::fmt", "::unwrap", "::expect", "assert_failed", "unwrap_err", "expect_err"),
    "std::convert::AsRef": ("convert::AsRef", "AsRef<"),
    "std::str::FromStr": ("::parse", "from_str", "FromStr", "value_parser", "clap::", "ValueParser"),
    "std::convert::From": ("::into", "::from", "From<", "Into<", "try_into", "try_from", "from_residual", "FromResidual"),
    "std::convert::TryFrom": ("try_into", "try_from", "TryFrom", "TryInto"),
    "std::convert::Into": ("::into", "Into<"),
}

class CallGraph:
    def __init__(self, facts):
        self.F = facts
        self.edges = defaultdict(set)     # caller path -> callee paths (resolved, local or not)
        self.sites = defaultdict(list)    # callee path -> [(caller fn, bi)]
        self.addr = defaultdict(set)      # fn path -> fn items / closures used as values
        self.generic_edges = set()
        local_traits = defaultdict(list)  # trait method decl path -> local impl fns (for dyn fan-out)
        for p, f in facts.fns.items():
            tr = f.d.get("impl_trait")
            if tr:
                name = p.rsplit("::", 1)[-1]
                local_traits[tr + "::" + name].append(p)
        self.local_traits = local_traits
        for p, f in facts.fns.items():
            for bi, b in enumerate(f.blocks):
                for s in b["s"]:
                    if s[0] == "=":
                        self._scan_rv(p, s[2])
                t = b["t"]
                if t[0] == "call":
                    c = t[1]
                    names = set()
                    if c.get("path"):
                        names.add(c["path"])
                        # virtual call (dyn Trait): the "resolved" instance is the trait method itself
                        if c["path"] not in facts.fns and c.get("decl") in local_traits and c["path"] == c.get("decl") and any(x.startswith("dyn ") for x in (c.get("targs") or [])[:1]):
                            for imp in local_traits[c["decl"]]: names.add(imp)
                    elif c.get("decl"):
                        names.add(c["decl"])
                        # unresolved trait method (dyn or generic): fan out to local impls
                        for imp in local_traits.get(c["decl"], ()): names.add(imp)
                    for n in names:
                        self.edges[p].add(n); self.sites[n].append((f, bi))
                    for a in t[2]:
                        self._scan_op(p, a)
                    if c.get("indirect"):
                        self._scan_op(p, c["indirect"])
        # closures are reachable from their parent when constructed there (handled by agg scan)
        # generic dispatch through external code: an external callee instantiated at a local type may call
        # any trait-impl method of that type (Into -> From::from, to_string -> Display::fmt, parse -> FromStr,
        # sort/max -> Ord::cmp, ron/serde -> Serialize/Deserialize, clap -> FromStr of value types ...)
        import re as _re
        impls_of = defaultdict(list)      # local ADT path -> trait-impl fn paths
        for p, f in facts.fns.items():
            if f.d.get("impl_trait") and f.d.get("impl_self"):
                for m in _re.findall(r"crate::[A-Za-z0-9_:]+", f.d["impl_self"]):
                    impls_of[m].append(p)
        self.impls_of = impls_of
        for p, f in facts.fns.items():
            for bi, b in enumerate(f.blocks):
                t = b["t"]
                if t[0] != "call": continue
                c = t[1]
                tgt = c.get("path") or c.get("decl")
                if tgt in facts.fns: continue
                texts = list(c.get("targs") or [])
                cname = " ".join(x for x in (c.get("decl"), c.get("full")) if x)
                for ty in texts:
                    for m in set(_re.findall(r"crate::[A-Za-z0-9_:]+", ty)):
                        for imp in impls_of.get(m, ()):
                            tr = facts.fns[imp].d.get("impl_trait") or ""
                            if tr.startswith("crate::"): continue          # external code cannot name a local trait
                            trig = TRAIT_TRIGGERS.get(tr)
                            if trig is not None and not any(x in cname for x in trig): continue
                            if imp not in self.edges[p]:
                                self.edges[p].add(imp); self.generic_edges.add((p, imp))

    def _scan_op(self, p, op):
        if op[0] == "c":
            c = op[1]
            if c.get("k") == "fn":
                self.addr[p].add(c.get("resolved") or c["path"])
            elif c.get("k") == "promoted":
                self.addr[p].add("%s::promoted[%d]" % (c["of"], c["idx"]))
            elif c.get("named"):
                self.addr[p].add(c["named"])

    def _scan_rv(self, p, rv):
        k = rv[0]
        if k in ("use",): self._scan_op(p, rv[1])
        elif k == "cast": self._scan_op(p, rv[2])
        elif k == "bin": self._scan_op(p, rv[2]); self._scan_op(p, rv[3])
        elif k == "un": self._scan_op(p, rv[2])
        elif k == "agg":
            if rv[1]["k"] == "closure": self.addr[p].add(rv[1]["path"])
            for o in rv[2]: self._scan_op(p, o)
        elif k == "repeat": self._scan_op(p, rv[1])

    def closure(self, roots, include_addr=True, stop=(), generic=True):
        """all function paths reachable from roots (local bodies expanded; external names kept as leaves)"""
        seen = set(); q = deque(roots); parent = {}
        while q:
            p = q.popleft()
            if p in seen: continue
            seen.add(p)
            if p in stop: continue
            nxt = set(self.edges.get(p, ()))
            if not generic:
                nxt = {n for n in nxt if (p, n) not in self.generic_edges}
            if include_addr: nxt |= self.addr.get(p, set())
            for n in nxt:
                if n not in seen:
                    parent.setdefault(n, p); q.append(n)
        self.last_parent = parent
        return seen

    def path_to(self, target):
        out = [target]; p = self.last_parent
        while out[-1] in p:
            out.append(p[out[-1]])
        return list(reversed(out))

# ---------------------------------------------------------------------------
# format_args! templates (core::fmt::Arguments::new byte encoding)

def decode_fmt(bs):
    """bytes of a fmt template -> list of pieces: str | ("arg", index, opts)"""
    out = []; i = 0; arg = 0
    bs = list(bs)
    while i < len(bs):
        n = bs[i]; i += 1
        if n == 0: break
        if n < 0x80:
            out.append(bytes(bs[i:i + n]).decode("utf-8", "replace")); i += n
        elif n == 0x80:
            ln = bs[i] | (bs[i + 1] << 8); i += 2
            out.append(bytes(bs[i:i + ln]).decode("utf-8", "replace")); i += ln
        elif n == 0xC0:
            out.append(("arg", arg, {})); arg += 1
        else:
            opts = {}
            if n & 1: opts["flags"] = int.from_bytes(bytes(bs[i:i + 4]), "little"); i += 4
            if n & 2: opts["width"] = bs[i] | (bs[i + 1] << 8); i += 2
            if n & 4: opts["precision"] = bs[i] | (bs[i + 1] << 8); i += 2
            if n & 8: arg = bs[i] | (bs[i + 1] << 8); i += 2
            if n & 16: opts["width_indirect"] = True
            if n & 32: opts["precision_indirect"] = True
            out.append(("arg", arg, opts)); arg += 1
    return out

def fmt_templates(fn):
    """all format templates built in fn: [(bi, pieces)]"""
    out = []
    for bi, t in fn.calls():
        if call_matches(t, ("std::fmt::Arguments::<'a>::new", "core::fmt::Arguments::<'a>::new")) and t[2]:
            for o in trace_op(fn, t[2][0]):
                if o.kind == "const" and o.data.get("k") == "bytes":
                    out.append((bi, decode_fmt(o.data["v"])))
        elif call_matches(t, ("fmt::Arguments::<'a>::from_str", "fmt::Arguments::<'a>::new_const")) and t[2]:
            for o in trace_op(fn, t[2][0]):
                if o.kind == "const" and o.data.get("k") == "str":
                    out.append((bi, [o.data["v"]]))
    return out

def chain(fn, op, stop=(), maxlen=12):
    """Follow a value backwards through single-origin call results: returns
    ([(callee, bi, terminator)], final_origins).  At each call the first argument is followed."""
    names = []
    cur = op
    for _ in range(maxlen):
        os = trace_op(fn, cur, transparent=())
        if len(os) != 1: return names, os
        o = os[0]
        if o.kind != "call": return names, os
        t = fn.blocks[o.data]["t"]
        names.append((callee(t) or "?", o.data, t))
        if call_matches(t, stop) or not t[2] or t[2][0][0] not in ("cp", "mv"):
            return names, os
        cur = t[2][0]
    return names, []

def const_arg(fn, op):
    """python value of an operand that is (a reference to) a single constant, else None"""
    os = trace_op(fn, op)
    if len(os) == 1 and os[0].kind == "const" and not os[0].fields():
        c = os[0].data
        if c.get("k") in ("str", "int", "bool", "char", "variant"): return c["v"]
        if c.get("k") == "promoted":
            pf = None
            return ("promoted", c["of"], c["idx"])
    return None

# ---------------------------------------------------------------------------
# path enumeration + symbolic evaluation along one path (for decision tables)

class TooManyPaths(Exception):
    pass

def enum_paths(fn, start=0, limit=20000, stop_blocks=(), loop_iterations=False):
    """All acyclic block paths from start to a return (or stop block / dead end).  With loop_iterations, a path that would
    close a cycle is also reported, ending at the block before the back edge (one full iteration of the loop body)."""
    out = []
    stop_blocks = set(stop_blocks)
    def dfs(b, path, onpath):
        if len(out) > limit: raise TooManyPaths(fn.path)
        path.append(b); onpath.add(b)
        t = fn.blocks[b]["t"]
        ss = succs(fn, b)
        if t[0] == "ret" or b in stop_blocks or not ss:
            out.append(list(path))
        else:
            seen = set()
            for s in ss:
                if s in seen: continue
                seen.add(s)
                if s in onpath:
                    if loop_iterations and not fn.blocks[b].get("cleanup"): out.append(list(path) + [s])
                    continue
                dfs(s, path, onpath)
        path.pop(); onpath.discard(b)
    import sys
    sys.setrecursionlimit(100000)
    dfs(start, [], set())
    return out

def _proj_expr(e, proj):
    for p in proj:
        if p == "*": continue
        if isinstance(p, str): continue
        if p[0] == "f":
            if e[0] == "as" and isinstance(e[1], tuple) and e[1][0] == "agg" and str(e[1][1]).rsplit("::", 1)[-1] == e[2]:
                e = e[1]          # (Some(x) as Some).0  ->  x
            if e[0] == "agg":
                hit = None
                for i, (fname, fe) in enumerate(e[2]):
                    if fname == p[2] or (fname.isdigit() and int(fname) == p[1]) or i == p[1] and fname == str(p[1]):
                        hit = fe; break
                if hit is None and p[1] < len(e[2]): hit = e[2][p[1]][1]
                e = hit if hit is not None else ("field", e, p[2])
            else:
                e = ("field", e, p[2])
        elif p[0] == "d":
            e = ("as", e, p[1])
        elif p[0] == "i": e = ("index", e)
        elif p[0] == "c": e = ("cindex", e, p[1])
        elif p[0] == "s": e = ("slice", e)
    return e

class SymPath:
    """Symbolic state after walking `blocks` (a path) of fn in order."""
    def __init__(self, fn, blocks):
        self.fn = fn; self.blocks = blocks
        self.env = {}
        self.conds = []     # (expr, outcome) per switch on the path; outcome = value taken or ("else", excluded)
        self.calls = []     # (bi, callee, [arg exprs]) in path order
        self.writes = []    # (place_expr, value_expr) for assignments through projections
        for i in range(1, fn.nargs + 1):
            self.env[i] = ("param", i)
        for idx, b in enumerate(blocks):
            blk = fn.blocks[b]
            for s in blk["s"]:
                if s[0] == "=":
                    val = self.rv(s[2])
                    self.assign(s[1], val)
                elif s[0] == "setdiscr":
                    self.assign(s[1], ("variant", s[2]))
            t = blk["t"]
            nxt = blocks[idx + 1] if idx + 1 < len(blocks) else None
            if t[0] == "call":
                args = [self.op(a) for a in t[2]]
                name = callee(t) or ("indirect", self.op(t[1]["indirect"]) if t[1].get("indirect") else "?")
                e = ("call", name, args, b)
                self.calls.append((b, name, args, t))
                # `?` on a value whose variant is known on this path: Err(..)? breaks, Ok(..)? continues
                if isinstance(name, str) and args:
                    a0 = args[0]
                    if name.endswith("as std::ops::Try>::branch") and isinstance(a0, tuple) and a0[0] == "agg" and str(a0[1]).startswith("std::result::Result::"):
                        if str(a0[1]).endswith("::Err"): e = ("agg", "std::ops::ControlFlow::Break", [("0", a0)])
                        elif str(a0[1]).endswith("::Ok"): e = ("agg", "std::ops::ControlFlow::Continue", [("0", a0[2][0][1] if a0[2] else ("unit",))])
                    elif name.endswith("as std::ops::Try>::branch") and isinstance(a0, tuple) and a0[0] == "call" and "FromResidual" in str(a0[1]) and str(a0[1]).endswith("::from_residual") and "result::Result" in str(a0[1]):
                        e = ("agg", "std::ops::ControlFlow::Break", [("0", a0)])        # the value an inner `?` returned is an Err
                self.assign(t[3], e)
            elif t[0] == "switch" and nxt is not None:
                d = self.op(t[1])
                vals = [v for v, tb in t[2] if tb == nxt]
                if vals and nxt != t[3]:
                    self.conds.append((d, ("eq", tuple(vals)), b))
                else:
                    self.conds.append((d, ("ne", tuple(v for v, tb in t[2] if tb != nxt)), b))
    def assign(self, place, val):
        if len(place) == 1:
            self.env[place[0]] = val
        else:
            proj = [p for p in place[1:] if p != "*"]
            base = self.env.get(place[0])
            # field update of a known aggregate
            if len(proj) == 1 and not isinstance(proj[0], str) and proj[0][0] == "f" and base is not None and base[0] == "agg":
                fields = list(base[2])
                for i, (fname, fe) in enumerate(fields):
                    if fname == proj[0][2]:
                        fields[i] = (fname, val); break
                else:
                    fields.append((proj[0][2], val))
                self.env[place[0]] = ("agg", base[1], fields)
            self.writes.append((self.place(place), val, place))
    def place(self, p):
        base = self.env.get(p[0], ("local", p[0]))
        return _proj_expr(base, p[1:])
    def op(self, o):
        if o[0] == "c":
            c = o[1]
            k = c.get("k")
            if k in ("str", "int", "bool", "char"): return ("const", c["v"])
            if k == "variant": return ("agg", c["adt"] + "::" + c["v"], [])
            if k == "fn": return ("fn", c.get("resolved") or c["path"])
            if k == "promoted": return ("promoted", c["of"], c["idx"])
            if k == "static": return ("static", c["path"])
            if k == "zst": return ("zst", c["ty"])
            if k == "bytes": return ("bytes", tuple(c["v"]))
            return ("constx", c.get("text") or c.get("named") or c.get("ty"))
        return self.place(o[1])
    def rv(self, rv):
        k = rv[0]
        if k == "use": return self.op(rv[1])
        if k == "ref": return self.place(rv[2])
        if k == "cast": return ("cast", self.op(rv[2]), rv[4])
        if k == "bin": return ("bin", rv[1], self.op(rv[2]), self.op(rv[3]))
        if k == "un": return ("un", rv[1], self.op(rv[2]))
        if k == "discr": return ("discr", self.place(rv[1]))
        if k == "agg":
            kd = rv[1]
            ops = [self.op(o) for o in rv[2]]
            if kd["k"] == "adt":
                names = kd["fields"] if len(kd["fields"]) == len(ops) else [str(i) for i in range(len(ops))]
                return ("agg", kd["adt"] + "::" + kd["variant"], list(zip(names, ops)))
            if kd["k"] == "closure":
                return ("closure", kd["path"], list(zip(kd["captures"], ops)))
            return ("agg", kd["k"], [(str(i), o) for i, o in enumerate(ops)])
        return ("unknown", k)
    def ret(self):
        return self.env.get(0, ("unset",))
    def facts(self):
        """path conditions in normal form: [(atom, truth, block)].  For bool switches truth is True/False with `Not` peeled off
        the atom; for other discriminants truth is the pair (rel, vals)."""
        out = []
        for d, (rel, vals), b in self.conds:
            t = self.fn.blocks[b]["t"]
            is_bool = len(t) > 4 and t[4] == "bool"
            if d[0] == "discr" or not is_bool and not (d[0] in ("call", "un", "bin", "const") and set(vals) <= {0, 1}):
                out.append((d, (rel, vals), b)); continue
            truth = not ((rel == "eq" and 0 in vals) or (rel == "ne" and 0 not in vals))
            while isinstance(d, tuple) and d[0] == "un" and d[1] == "Not":
                d = d[2]; truth = not truth
            out.append((d, truth, b))
        return out
    def feasible(self):
        """False when the path contradicts itself: a constant condition taking the other edge, one pure atom with both truths,
        or an Option seen as Some by is_some()/is_none() and as None by its discriminant (or the reverse)."""
        seen = {}; opt = {}
        for d, truth, b in self.facts():
            if isinstance(truth, bool):
                if d[0] == "const" and isinstance(d[1], (bool, int)):
                    if bool(d[1]) != truth: return False
                    continue
                k = repr(d)
                if k in seen and seen[k] != truth: return False
                seen[k] = truth
                if d[0] == "call" and isinstance(d[1], str) and d[1].endswith("Option::<T>::is_some"): s_ = repr(d[2][0]); v = truth
                elif d[0] == "call" and isinstance(d[1], str) and d[1].endswith("Option::<T>::is_none"): s_ = repr(d[2][0]); v = not truth
                else: continue
                if s_ in opt and opt[s_] != v: return False
                opt[s_] = v
            else:
                rel, vals = truth
                if d[0] == "discr":
                    ty = self.fn.blocks[b]["s"][-1][2][2] if self.fn.blocks[b]["s"] and self.fn.blocks[b]["s"][-1][0] == "=" and self.fn.blocks[b]["s"][-1][2][0] == "discr" else ""
                    inner = d[1]
                    if inner[0] == "agg" and not str(inner[1]).startswith(("tuple", "array")):
                        # discriminant of a value constructed on this path: only its own variant is feasible
                        st = self.fn.blocks[b]["s"][-1] if self.fn.blocks[b]["s"] else None
                        names = {n_: v_ for v_, n_ in (st[2][3] if st and st[0] == "=" and st[2][0] == "discr" and len(st[2]) > 3 else [])}
                        idx = names.get(str(inner[1]).rsplit("::", 1)[-1])
                        if idx is not None:
                            if rel == "eq" and idx not in vals: return False
                            if rel == "ne" and idx in vals: return False
                        continue
                    if "Option<" in str(ty):
                        v = (rel == "eq" and tuple(vals) == (1,)) or (rel == "ne" and 0 in vals and 1 not in vals)
                        s_ = repr(inner)
                        if s_ in opt and opt[s_] != v: return False
                        opt[s_] = v
                k = repr(d)
                if rel == "eq":
                    if k in seen and isinstance(seen[k], tuple) and seen[k][0] == "eq" and set(seen[k][1]).isdisjoint(vals): return False
                    seen[k] = ("eq", tuple(vals))
        return True

def sym_paths(fn, limit=20000, feasible_only=True, loop_iterations=False):
    """SymPath for every acyclic path of fn that ends in a return (infeasible ones dropped); with loop_iterations also the
    paths that run one iteration of a loop body and reach its back edge"""
    out = []
    for p in enum_paths(fn, limit=limit, loop_iterations=loop_iterations):
        if fn.blocks[p[-1]]["t"][0] != "ret" and not (loop_iterations and len(p) > 1 and p[-1] in p[:-1]): continue
        sp = SymPath(fn, p)
        if feasible_only and not sp.feasible(): continue
        out.append(sp)
    return out

def show(e, depth=0):
    """compact text of a symbolic expression"""
    if not isinstance(e, tuple): return str(e)
    k = e[0]
    if depth > 6: return "..."
    if k == "const": return repr(e[1])
    if k == "param": return "p%d" % e[1]
    if k == "agg":
        n = e[1].split("::")[-2] + "::" + e[1].split("::")[-1] if "::" in e[1] else e[1]
        if not e[2]: return n
        return "%s(%s)" % (n, ", ".join(("%s=" % f if not f.isdigit() else "") + show(v, depth + 1) for f, v in e[2]))
    if k == "call": return "%s(%s)" % (str(e[1]).split("::")[-1] if isinstance(e[1], str) else "indirect", ", ".join(show(a, depth + 1) for a in e[2]))
    if k == "field": return "%s.%s" % (show(e[1], depth + 1), e[2])
    if k == "as": return "%s as %s" % (show(e[1], depth + 1), e[2])
    if k == "discr": return "discr(%s)" % show(e[1], depth + 1)
    if k == "bin": return "%s(%s, %s)" % (e[1], show(e[2], depth + 1), show(e[3], depth + 1))
    if k == "un": return "%s(%s)" % (e[1], show(e[2], depth + 1))
    if k == "cast": return "(%s as %s)" % (show(e[1], depth + 1), e[2])
    if k == "closure": return "closure(%s)" % e[1].split("::", 2)[-1]
    if k == "fn": return "fn " + e[1]
    return "%s(%s)" % (k, ",".join(show(x, depth + 1) if isinstance(x, tuple) else str(x) for x in e[1:]))

def strip_as(e):
    """remove `as Variant` downcasts and casts"""
    while isinstance(e, tuple) and e[0] in ("as",):
        e = e[1]
    return e

_SEQ_F = [None]
def str_eq_cond(cond, F=None):
    """if a path condition is `str == const` return (subject_expr, const, truth) else None"""
    d, (rel, vals), b = cond
    F = F or _SEQ_F[0]
    if d[0] == "call" and isinstance(d[1], str) and "PartialEq" in d[1] and (d[1].endswith("::eq") or d[1].endswith("::ne")) or (d[0] == "call" and isinstance(d[1], str) and d[1].endswith("PartialEq<&B> for &A>::eq")):
        args = list(d[2])
        if F is not None:
            for i, a in enumerate(args):
                if a[0] == "promoted":
                    v = promoted_value(F, {"k": "promoted", "of": a[1], "idx": a[2]})
                    if v is not None and v[0] == "const": args[i] = v
        consts = [a for a in args if a[0] == "const" and isinstance(a[1], str)]
        other = [a for a in args if not (a[0] == "const" and isinstance(a[1], str))]
        if len(consts) == 1:
            truth = (rel == "ne" and 0 in vals) or (rel == "eq" and 0 not in vals)
            if d[1].endswith("::ne"): truth = not truth
            return (other[0] if other else None, consts[0][1], truth)
    return None

def string_table(fn, limit=20000):
    """For a loop-free function matching a string against constants: {const -> set(result text)} and default results"""
    table = {}; default = set()
    for p in enum_paths(fn, limit=limit):
        if fn.blocks[p[-1]]["t"][0] != "ret": continue
        sp = SymPath(fn, p)
        pos = None
        for c in sp.conds:
            se = str_eq_cond(c)
            if se and se[2]: pos = se[1]
        r = show(sp.ret())
        if pos is None: default.add(r)
        else: table.setdefault(pos, set()).add(r)
    return table, default

def resolve_upvar(F, origin):
    """For an 'upvar' origin inside a closure: (parent_fn, operand) that was captured, or None."""
    c = origin.fn
    parent = F.fn(c.parent) if c.parent else None
    if parent is None: return None
    for bi, si, st in parent.stmts():
        if st[0] == "=" and st[2][0] == "agg" and st[2][1].get("k") == "closure" and st[2][1]["path"] == c.path:
            caps = st[2][1]["captures"]
            for name, op in zip(caps, st[2][2]):
                if name == origin.data or name.lstrip("*&") == str(origin.data).lstrip("*&"):
                    return parent, op
    return None

# ---------------------------------------------------------------------------
# forward flow: where does the value produced at a call site end up?

PASS_THROUGH = TRANSPARENT + (
    "chrono::DateTime::<Tz>::timestamp", "std::option::Option::<T>::unwrap", "std::option::Option::<T>::expect",
    "std::option::Option::<T>::map", "std::result::Result::<T, E>::unwrap", "as std::ops::Try>::branch",
    "std::option::Option::<T>::unwrap_or", "std::option::Option::<T>::or",
    "std::result::Result::<T, E>::ok", "std::option::Option::<T>::filter", "std::result::Result::<T, E>::map_err",
    "std::option::Option::<T>::ok_or", "std::option::Option::<T>::ok_or_else", "std::result::Result::<T, E>::unwrap_or",
)

def _reads(op, local):
    return op[0] in ("cp", "mv") and op[1][0] == local

def forward_sinks(fn, start_local, pass_through=PASS_THROUGH, limit=200):
    """Sinks of the value held in start_local: list of
    ('write', [field names], bi) | ('aggfield', adt, field, bi) | ('callarg', callee, idx, bi) | ('ret', bi) | ('switch', bi)"""
    sinks = []; work = [start_local]; seen = {start_local}
    while work and len(seen) < limit:
        L = work.pop()
        if L == 0: sinks.append(("ret", None)); continue
        for bi, b in enumerate(fn.blocks):
            if b["cleanup"]: continue
            for s in b["s"]:
                if s[0] != "=": continue
                dst, rv = s[1], s[2]
                reads = False; aggfield = None
                k = rv[0]
                if k == "use": reads = _reads(rv[1], L)
                elif k == "ref": reads = rv[2][0] == L
                elif k == "cast": reads = _reads(rv[2], L)
                elif k in ("bin",): reads = _reads(rv[2], L) or _reads(rv[3], L)
                elif k == "un": reads = _reads(rv[2], L)
                elif k == "discr": reads = False
                elif k == "agg":
                    for i, o in enumerate(rv[2]):
                        if _reads(o, L):
                            reads = True
                            kd = rv[1]
                            if kd.get("k") == "adt" and not kd.get("is_enum") and i < len(kd.get("fields", [])):
                                aggfield = (kd["adt"], kd["fields"][i])
                if not reads: continue
                if aggfield is not None:
                    sinks.append(("aggfield", aggfield[0], aggfield[1], bi)); continue
                fields = [e[2] for e in dst[1:] if not isinstance(e, str) and e[0] == "f"]
                if fields and not (len(dst) == 2 and not isinstance(dst[1], str) and dst[1][0] == "f" and dst[1][3] == "tuple"):
                    sinks.append(("write", fields, bi))
                elif dst[0] not in seen:
                    seen.add(dst[0]); work.append(dst[0])
            t = b["t"]
            if t[0] == "call":
                for i, a in enumerate(t[2]):
                    if _reads(a, L):
                        if call_matches(t, pass_through):
                            d = t[3]
                            fields = [e[2] for e in d[1:] if not isinstance(e, str) and e[0] == "f"]
                            if fields: sinks.append(("write", fields, bi))
                            elif d[0] not in seen: seen.add(d[0]); work.append(d[0])
                        else:
                            sinks.append(("callarg", callee(t), i, bi))
            elif t[0] == "switch" and _reads(t[1], L):
                sinks.append(("switch", bi))
    return sinks

def promoted_value(F, c):
    """symbolic value returned by a promoted / named constant body"""
    body = None
    if c.get("k") == "promoted": body = F.fn("%s::promoted[%d]" % (c["of"], c["idx"]))
    elif c.get("named"): body = F.fn(c["named"])
    if body is None: return None
    ps = enum_paths(body)
    if len(ps) != 1: return None
    return SymPath(body, ps[0]).ret()

def sym_value(F, fn, op):
    """symbolic text of an operand when it is a constant / promoted / straight aggregate (single reaching definition chain)"""
    os = trace_op(fn, op)
    outs = []
    for o in os:
        if o.kind == "const":
            c = o.data
            if c.get("k") in ("promoted",) or (c.get("named") and c.get("k") in ("other", None)):
                v = promoted_value(F, c)
                outs.append(show(v) if v is not None else "?")
            else:
                from facts import fmt_const
                outs.append(fmt_const(c))
        elif o.kind == "agg":
            rv = rv_at(o.fn, *o.data)
            kd = rv[1]
            inner = ",".join(sym_value(F, o.fn, a) for a in rv[2])
            nm = (kd.get("adt", kd.get("k")).split("::")[-1] + "::" + kd.get("variant", "")) if kd.get("k") == "adt" else kd.get("k")
            outs.append("%s(%s)" % (nm, inner) if inner else nm)
        elif o.kind == "param":
            outs.append("p%d%s" % (o.data, "." + o.path_str() if o.path else ""))
        else:
            outs.append(repr(o))
    return "|".join(sorted(set(outs)))


def field_sources(F, fn, op, depth=0, seen=None):
    """names of the fields / constants / marker calls a value is computed from, following calls, aggregates, closures
    (their return values) and captured variables back into the enclosing function"""
    if seen is None: seen = set()
    out = set()
    if depth > 10: return out
    for o in trace_op(fn, op, transparent=()):
        k = (o.fn.path, o.kind, str(o.data), o.path_str())
        if k in seen: continue
        seen.add(k)
        if o.fields(): out.add(".".join(o.fields()))
        if o.kind == "const":
            v = o.data.get("v")
            if v is not None: out.add("const:%r" % (v,))
        elif o.kind == "call":
            t = o.fn.blocks[o.data]["t"]; c = callee(t) or ""
            out.add("call:" + c.rsplit("::", 1)[-1])
            if c.endswith("::get") and len(t[2]) > 1:
                kk = const_arg(o.fn, t[2][1])
                if kk is not None: out.add("[%s]" % kk)
            if c.endswith("::first"): out.add("[0]")
            for a in t[2]: out |= field_sources(F, o.fn, a, depth + 1, seen)
        elif o.kind == "agg":
            rv = rv_at(o.fn, *o.data)
            if rv[1].get("k") == "closure":
                c2 = F.fn(rv[1]["path"])
                if c2 is not None: out |= field_sources(F, c2, ["cp", [0]], depth + 1, seen)
            for a in rv[2]: out |= field_sources(F, o.fn, a, depth + 1, seen)
        elif o.kind == "rv":
            rv = rv_at(o.fn, *o.data)
            for x in rv[1:]:
                if isinstance(x, list) and x and x[0] in ("cp", "mv", "c"): out |= field_sources(F, o.fn, x, depth + 1, seen)
        elif o.kind == "upvar":
            out.add("upvar:" + str(o.data))
            r = resolve_upvar(F, o)
            if r is not None: out |= field_sources(F, r[0], r[1], depth + 1, seen)
    return out

# ---------------------------------------------------------------------------
# inlining of crate-local helpers: rules that reason about paths, guards and origins see through "extract helper" refactors

def _ip(p, L):
    out = [p[0] + L]
    for e in p[1:]:
        if isinstance(e, list) and e and e[0] == "i": out.append(["i", e[1] + L] + list(e[2:]))
        else: out.append(e)
    return out

def _io(o, L):
    if isinstance(o, list) and o and o[0] in ("cp", "mv"): return [o[0], _ip(o[1], L)]
    return o

def _irv(rv, L):
    k = rv[0]
    if k == "use": return ["use", _io(rv[1], L)]
    if k == "ref": return ["ref", rv[1], _ip(rv[2], L)] + list(rv[3:])
    if k == "cast": return ["cast", rv[1], _io(rv[2], L)] + list(rv[3:])
    if k == "bin": return ["bin", rv[1], _io(rv[2], L), _io(rv[3], L)] + list(rv[4:])
    if k == "un": return ["un", rv[1], _io(rv[2], L)] + list(rv[3:])
    if k == "discr": return ["discr", _ip(rv[1], L)] + list(rv[2:])
    if k == "agg": return ["agg", rv[1], [_io(o, L) for o in rv[2]]] + list(rv[3:])
    if k in ("len", "ptrmeta") and len(rv) > 1 and isinstance(rv[1], list): return [k, _ip(rv[1], L)] + list(rv[2:])
    return rv

def _iterm(t, L, B, ret_to):
    k = t[0]
    if k == "goto": return ["goto", t[1] + B]
    if k == "switch": return ["switch", _io(t[1], L), [[v, b + B] for v, b in t[2]], t[3] + B] + list(t[4:])
    if k == "call":
        c = dict(t[1])
        if "indirect" in c: c["indirect"] = _io(c["indirect"], L)
        return ["call", c, [_io(a, L) for a in t[2]], _ip(t[3], L), (t[4] + B if t[4] is not None else None)] + list(t[5:])
    if k == "assert": return ["assert", _io(t[1], L), t[2], t[3], t[4] + B] + list(t[5:])
    if k == "drop": return ["drop", _ip(t[1], L), t[2] + B] + list(t[3:])
    if k == "ret": return ["goto", ret_to]
    return t

def default_inline_ok(F, caller_path, callee_path, g):
    """crate-local plain functions / methods with a body, reasonably small; never trait-dispatched externals"""
    return callee_path.startswith("crate::") and g is not None and g.kind != "closure" and len(g.blocks) <= 400

def _resolve_fnptr(blocks, op, depth=0):
    """("fn"|"closure", path) when the operand is a fn item / non-capturing closure, possibly through copies and pointer
    coercions of locals that have a single definition in `blocks`; None otherwise"""
    if depth > 8: return None
    if op[0] == "c":
        c = op[1]
        if c.get("k") == "fn": return ("fn", c.get("resolved") or c["path"])
        return None
    if op[0] in ("cp", "mv") and len(op[1]) == 1:
        l = op[1][0]
        defs = []
        for b in blocks:
            for s in b["s"]:
                if s[0] == "=" and s[1] and s[1][0] == l:
                    if len(s[1]) > 1: return None
                    defs.append(s[2])
            t = b["t"]
            if t[0] == "call" and t[3] and t[3][0] == l: return None
        if len(defs) != 1: return None
        rv = defs[0]
        if rv[0] == "use": return _resolve_fnptr(blocks, rv[1], depth + 1)
        if rv[0] == "cast": return _resolve_fnptr(blocks, rv[2], depth + 1)
        if rv[0] == "agg" and isinstance(rv[1], dict) and rv[1].get("k") == "closure" and not rv[2]: return ("closure", rv[1]["path"])
    return None

def inlined(F, fn, keep=(), depth=3, ok=default_inline_ok, _stack=()):
    """A copy of `fn` in which calls to crate-local helpers are replaced by the helper's body (locals and blocks renumbered,
    parameters assigned from the arguments, `return` turned into a jump to the call's continuation).  `keep`: last path
    segments (or full paths) that must stay opaque calls.  Recursion and anything beyond `depth` stays a call.
    The result is a facts.Fn over a fresh dict: d["inlined"] lists the spliced callees, spliced blocks carry "from"."""
    import facts as _facts
    cache = fn.d.setdefault("_inl", {})
    ck = (tuple(sorted(keep)), depth, getattr(ok, "__name__", "ok"))
    if not _stack and ck in cache: return cache[ck]
    d = {k: v for k, v in fn.d.items() if k not in ("_defs", "_inl", "_dom", "_reach")}
    blocks = [dict(b) for b in fn.blocks]
    locals_ = list(fn.locals)
    dbg = list(fn.dbg)
    spliced = []
    stack = _stack + (fn.path,)
    bi = 0
    nblocks0 = len(blocks)
    work = [(i, depth) for i in range(nblocks0)]
    while work:
        bi, dleft = work.pop(0)
        b = blocks[bi]
        t = b["t"]
        if t[0] != "call" or b.get("cleanup") or dleft <= 0: continue
        cp = callee(t)
        fnptr_closure = False
        if not cp and isinstance(t[1], dict) and t[1].get("indirect"):
            # a call through a fn pointer / closure value that (after splicing) has exactly one definition in this body:
            # `helper(|v| &mut v.post, ..)` -> inside the helper `counter(&mut self.vars)`
            r = _resolve_fnptr(blocks, t[1]["indirect"])
            if r is not None:
                cp = r[1]; fnptr_closure = r[0] == "closure"
        if not cp or cp in stack: continue
        if cp in keep or cp.rsplit("::", 1)[-1] in keep: continue
        g = F.fn(cp)
        if fnptr_closure and g is not None and g.kind == "closure" and len(t[2]) == g.nargs - 1 and len(g.blocks) <= 200:
            # non-capturing closure coerced to a fn pointer: parameters 2.. are the call's arguments
            t = list(t); t[2] = [["c", {"ty": "()", "k": "zst"}]] + list(t[2])
            b = dict(b); b["t"] = t; blocks[bi] = b
            ok_ = lambda *a: True
        else:
            ok_ = ok
        # a closure called directly (`let labelled = |s| ..; labelled("major")`): Fn::call(&closure, (args,)) with the body's own path
        closure_call = g is not None and g.kind == "closure" and str(t[1].get("decl") or "").rsplit("::", 2)[-2:] in (["Fn", "call"], ["FnMut", "call_mut"], ["FnOnce", "call_once"]) and len(t[2]) == 2
        if closure_call:
            if len(g.blocks) > 200: continue
        else:
            if not ok_(F, fn.path, cp, g): continue
            if len(t[2]) != g.nargs: continue
        L = len(locals_); B = len(blocks)
        locals_.extend(g.locals)
        for name, val in g.dbg:
            if isinstance(val, list): dbg.append((name, _ip(val, L)))
        ret_to = t[4]
        if ret_to is None:
            # diverging call: splice anyway, returns go to an unreachable block
            blocks.append({"s": [], "t": ["unreachable"], "line": b["line"], "exp": b.get("exp", False), "cleanup": False, "from": cp})
            ret_to = len(blocks) - 1; B = len(blocks)
        # continuation: dest = callee _0, then the original target
        cont = {"s": [["=", t[3], ["use", ["mv", [L]]], b["line"]]], "t": ["goto", ret_to], "line": b["line"], "exp": b.get("exp", False), "cleanup": False, "from": cp, "inl_ret": cp}
        blocks.append(cont); cont_i = len(blocks) - 1
        B = len(blocks)
        for gj, gb in enumerate(g.blocks):
            nb = {"orig": gb.get("orig") or (cp, gj), "s": [(["=", _ip(s[1], L), _irv(s[2], L)] + list(s[3:])) if s[0] == "=" else s for s in gb["s"]],
                  "t": _iterm(gb["t"], L, B, cont_i), "line": gb["line"], "exp": gb.get("exp", False), "cleanup": gb["cleanup"], "from": cp}
            blocks.append(nb)
        # the call block: assign parameters, jump to the callee's entry
        nb = dict(b)
        if closure_call:
            tup = t[2][1]
            pas = [["=", [L + 1], ["use", t[2][0]], b["line"]]]
            if tup[0] in ("cp", "mv"):
                pas += [["=", [L + 2 + i], ["use", ["cp", list(tup[1]) + [["f", i, str(i), "tuple"]]]], b["line"]] for i in range(g.nargs - 1)]
            nb["s"] = list(b["s"]) + pas
        else:
            nb["s"] = list(b["s"]) + [["=", [L + i + 1], ["use", a], b["line"]] for i, a in enumerate(t[2])]
        nb["t"] = ["goto", B]
        nb["inl_call"] = {"callee": cp, "info": t[1], "args": t[2], "dest": t[3]}
        blocks[bi] = nb
        spliced.append(cp)
        stack_here = stack + (cp,)
        for j in range(B, len(blocks)): work.append((j, dleft - 1))
    d["blocks"] = blocks; d["locals"] = locals_; d["dbg"] = dbg; d["inlined"] = spliced
    out = _facts.Fn(d)
    if not _stack: cache[ck] = out
    return out

def closures_in(F, fn):
    """closure bodies constructed (aggregate of closure kind) anywhere in fn's (possibly inlined) body, transitively"""
    out = []; seen = set()
    work = [fn]
    while work:
        g = work.pop()
        for bi, si, st in g.stmts():
            if st[0] == "=" and st[2][0] == "agg" and isinstance(st[2][1], dict) and st[2][1].get("k") == "closure":
                p = st[2][1]["path"]
                if p not in seen:
                    seen.add(p); c = F.fn(p)
                    if c is not None: out.append(c); work.append(c)
        # closures passed as fn-item constants / named in child paths are found through F.children by the callers that need them
    return out

def dominating_filter_closures(F, fn, block, elem=None):
    """closures of `.filter(..)` adaptors feeding a `next()` whose Some-arm dominates `block` (a `for x in it.filter(p)` body):
    inside such a body p(x) held for the element."""
    out = []
    dom = dominators(fn).get(block, ())
    for d in dom:
        t = fn.blocks[d]["t"]
        if t[0] != "call" or not (callee(t) or "").endswith("as std::iter::Iterator>::next"): continue
        ty = (t[1].get("targs") or [""])[0]
        if "Filter<" not in ty: continue
        if elem is not None and ("call", str(d)) not in elem: continue        # the value of interest is not this iterator's element
        # the filter call(s) this iterator comes from
        seen = set(); work = [t[2][0]]
        while work:
            op = work.pop()
            for o in trace_op(fn, op, transparent=TRANSPARENT + ("IntoIterator>::into_iter", "::into_iter", "::by_ref")):
                if o.kind != "call" or (o.fn.path, o.data) in seen: continue
                seen.add((o.fn.path, o.data))
                t2 = o.fn.blocks[o.data]["t"]; c2 = callee(t2) or ""
                if c2.endswith("Iterator::filter"):
                    for o3 in trace_op(fn, t2[2][1], transparent=()):
                        if o3.kind == "agg":
                            rv = rv_at(o3.fn, *o3.data)
                            if rv[1].get("k") == "closure" and F.fn(rv[1]["path"]) is not None: out.append(F.fn(rv[1]["path"]))
                    work.append(t2[2][0])
                elif any(c2.endswith(x) for x in ("Iterator::map", "Iterator::enumerate", "Iterator::rev", "Iterator::skip", "Iterator::take", "Iterator::peekable", "Iterator::chain")) and t2[2]:
                    work.append(t2[2][0])
    return out

def closure_is_nonempty_test(c):
    """closure body is `!x.is_empty()` on its parameter (single path, one is_empty call, result = Not of it)"""
    try:
        sps = sym_paths(c, limit=50)
    except TooManyPaths:
        return False
    if not sps: return False
    for sp in sps:
        r = sp.ret(); neg = False
        while isinstance(r, tuple) and r[0] == "un" and r[1] == "Not": r = r[2]; neg = not neg
        if r[0] == "const":
            # `if x.is_empty() { false } else { true }` style: constant result under a recorded is_empty fact
            emp = [tr for d, tr, b in sp.facts() if d[0] == "call" and str(d[1]).endswith("::is_empty")]
            if len(emp) == 1 and isinstance(emp[0], bool) and bool(r[1]) == (not emp[0]): continue
            return False
        if not (r[0] == "call" and str(r[1]).endswith("::is_empty") and neg): return False
    return True

def deep_origins(fn, op, depth=0, seen=None, stop=("as std::iter::Iterator>::next",)):
    """(kind, data) of every origin the value of `op` is computed from, following call arguments and aggregate fields
    (but not through `stop` calls: the element an iterator yields is not the collection it walks)"""
    if seen is None: seen = set()
    out = set()
    if depth > 10: return out
    for o in trace_op(fn, op, transparent=()):
        k = (o.kind, str(o.data))
        out.add(k)
        if k in seen: continue
        seen.add(k)
        if o.kind == "call":
            t = o.fn.blocks[o.data]["t"]
            if any((callee(t) or "").endswith(x) for x in stop): continue
            for a in t[2]: out |= deep_origins(o.fn, a, depth + 1, seen, stop)
        elif o.kind == "agg":
            rv = rv_at(o.fn, *o.data)
            for a in rv[2]: out |= deep_origins(o.fn, a, depth + 1, seen, stop)
    return out

PIPE_ADAPTORS = ("Iterator::map", "Iterator::filter", "Iterator::filter_map", "Iterator::collect", "Iterator::cloned", "Iterator::copied",
                 "Iterator::enumerate", "Iterator::peekable", "Iterator::inspect", "Iterator::take", "Iterator::skip", "Iterator::rev",
                 "Iterator::flat_map", "Iterator::flatten", "Iterator::chain", "IntoIterator>::into_iter", "::into_iter", "::iter", "::by_ref")

def pipeline_filters(F, fn, op, depth=0, seen=None):
    """closure functions of the `.filter(..)` adaptors in the iterator pipeline that produces `op`
    (a collection built by collect(), an iterator handed to extend()/for_each(), ...)"""
    out = []
    if seen is None: seen = set()
    if depth > 12: return out
    for o in trace_op(fn, op, transparent=TRANSPARENT):
        if o.kind != "call" or (o.fn.path, o.data) in seen: continue
        seen.add((o.fn.path, o.data))
        t = o.fn.blocks[o.data]["t"]; c = callee(t) or ""
        if c.endswith("Iterator::filter") and len(t[2]) > 1:
            for o3 in trace_op(o.fn, t[2][1], transparent=()):
                if o3.kind == "agg":
                    rv = rv_at(o3.fn, *o3.data)
                    if rv[1].get("k") == "closure" and F.fn(rv[1]["path"]) is not None: out.append(F.fn(rv[1]["path"]))
        if any(c.endswith(x) for x in PIPE_ADAPTORS) and t[2]:
            out += pipeline_filters(F, o.fn, t[2][0], depth + 1, seen)
    return out

def pipeline_element_sources(F, closure_fn):
    """For a closure handed to an iterator consumer/adaptor (`.for_each(c)`, `.try_for_each(c)`, `.map(c)`, ...): where the elements
    it receives are produced - [(fn, operand)] of the nearest upstream `.map(..)` / `.filter_map(..)` closure's return value.
    Empty when the elements come straight from a collection."""
    parent = F.fn(closure_fn.parent) if closure_fn.parent else None
    if parent is None: return []
    out = []
    for bi, t in parent.calls():
        if len(t[2]) < 2: continue
        if not any(o.kind == "agg" and rv_at(o.fn, *o.data)[1].get("path") == closure_fn.path for o in trace_op(parent, t[2][1], transparent=())): continue
        work = [t[2][0]]; seen = set()
        while work:
            op = work.pop()
            for o in trace_op(parent, op, transparent=TRANSPARENT + ("IntoIterator>::into_iter", "::into_iter", "::by_ref")):
                if o.kind != "call" or (o.fn.path, o.data) in seen: continue
                seen.add((o.fn.path, o.data))
                t2 = o.fn.blocks[o.data]["t"]; c2 = callee(t2) or ""
                if (c2.endswith("Iterator::map") or c2.endswith("Iterator::filter_map")) and len(t2[2]) > 1:
                    for o3 in trace_op(parent, t2[2][1], transparent=()):
                        if o3.kind == "agg" and rv_at(o3.fn, *o3.data)[1].get("k") == "closure":
                            c3 = F.fn(rv_at(o3.fn, *o3.data)[1]["path"])
                            if c3 is not None: out.append((c3, ["cp", [0]]))
                    continue
                if any(c2.endswith(x) for x in PIPE_ADAPTORS) and t2[2]: work.append(t2[2][0])
    return out


def private_helpers_of(F, cg, root_path, module_prefix):
    """root plus the functions of `module_prefix` that are reachable only through it: every call site of a member (and of the
    closures' top-level parents) lies in a member.  A helper that `run()` alone calls is part of run() for who-may-call rules."""
    members = {root_path}
    changed = True
    while changed:
        changed = False
        for p, f in F.fns.items():
            if p in members or module_prefix not in p or f.kind in ("const", "static", "anonconst", "promoted"): continue
            top = f
            while top.kind == "closure" and top.parent and F.fn(top.parent) is not None: top = F.fn(top.parent)
            if top.path != p:
                if top.path in members: members.add(p); changed = True
                continue
            callers = {g.path for g, b2 in cg.sites.get(p, [])}
            addr = {q for q, xs in cg.addr.items() if p in xs}
            callers |= addr
            if callers and all((c in members) or (F.fn(c) is not None and F.fn(c).kind == "closure" and _top_path(F, c) in members) for c in callers):
                members.add(p); changed = True
    return members

def _top_path(F, p):
    f = F.fn(p)
    while f is not None and f.kind == "closure" and f.parent and F.fn(f.parent) is not None: f = F.fn(f.parent)
    return f.path if f is not None else p
