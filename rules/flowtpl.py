"""Constant-template analysis for `zerv flow` (DESIGN E2 'constant templates'): the Tera text each FlowArgs::bump_*
function can build is reconstructed symbolically from the MIR (constants, String + &str, format_args pieces, local helper
functions inlined), split into {% if COND %}CONTENT{% else %}..{% endif %}, and COND is compared by truth table."""
import itertools, re
import mir

HOLE = "\x00"

def sval(F, fn, e, subst=None, depth=0):
    """list of string pieces for a symbolic expression: literal str | ('hole', description)"""
    if depth > 12: return [("hole", "deep")]
    if not isinstance(e, tuple): return [("hole", str(e))]
    k = e[0]
    if k == "const" and isinstance(e[1], str): return [e[1]]
    if k == "const": return [str(e[1])]
    if k == "param":
        if subst and e[1] in subst: return subst[e[1]]
        return [("hole", "param%d" % e[1])]
    if k in ("as",): return sval(F, fn, e[1], subst, depth + 1)
    if k == "agg" and e[1].endswith("Option::Some") and e[2]: return sval(F, fn, e[2][0][1], subst, depth + 1)
    if k == "field":
        base = e
        names = []
        while isinstance(base, tuple) and base[0] in ("field", "as"):
            if base[0] == "field": names.append(str(base[2]))
            base = base[1]
        if base == ("param", 1) and subst and 1 in subst and subst[1] and isinstance(subst[1][0], tuple): pass
        return [("hole", ".".join(reversed(names)))]
    if k == "call":
        c = str(e[1]); args = e[2]
        short = c.rsplit("::", 1)[-1]
        if any(x in c for x in ("ToString>::to_string", "Deref>::deref", "String::as_str", "Clone>::clone", "ToOwned>::to_owned", "std::hint::must_use", "as std::convert::From", "as std::convert::Into", "Borrow", "AsRef")):
            inner = sval(F, fn, args[0], subst, depth + 1)
            return inner
        if "ops::Add" in c and short == "add":
            return sval(F, fn, args[0], subst, depth + 1) + sval(F, fn, args[1], subst, depth + 1)
        if c.endswith("std::fmt::format") or c == "std::fmt::format":
            return sval(F, fn, args[0], subst, depth + 1)
        if "fmt::Arguments::<'a>::new" in c:
            tmpl = args[0]; arr = args[1]
            while isinstance(tmpl, tuple) and tmpl[0] in ("as",): tmpl = tmpl[1]
            if tmpl[0] != "bytes": return [("hole", "fmt")]
            pieces = mir.decode_fmt(tmpl[1])
            items = arr[2] if arr[0] == "agg" else []
            out = []
            for p in pieces:
                if isinstance(p, str): out.append(p)
                else:
                    idx = p[1]
                    if idx < len(items):
                        a = items[idx][1]
                        if a[0] == "call" and "Argument" in str(a[1]): out += sval(F, fn, a[2][0], subst, depth + 1)
                        else: out.append(("hole", "arg"))
                    else: out.append(("hole", "arg"))
            return out
        if "fmt::Arguments::<'a>::from_str" in c: return sval(F, fn, args[0], subst, depth + 1)
        g = F.fn(c)
        if g is not None and not mir.has_loop(g):
            ps = [p for p in mir.enum_paths(g, limit=200) if g.blocks[p[-1]]["t"][0] == "ret"]
            if len(ps) == 1:
                sp = mir.SymPath(g, ps[0])
                sub = {i + 1: sval(F, fn, a, subst, depth + 1) for i, a in enumerate(args)}
                return sval(F, g, sp.ret(), sub, depth + 1)
        if short in ("unwrap_or", "unwrap_or_default") and args: return [("hole", "opt:" + "".join(x if isinstance(x, str) else x[1] for x in sval(F, fn, args[0], subst, depth + 1)))]
        return [("hole", short + "(" + ",".join("".join(x if isinstance(x, str) else "<" + x[1] + ">" for x in sval(F, fn, a, subst, depth + 1)) for a in args[:2]) + ")")]
    if k == "field" or k == "local": return [("hole", mir.show(e))]
    return [("hole", mir.show(e)[:40])]

def join(pieces):
    """(text with HOLE markers, [hole descriptions])"""
    out = ""; holes = []
    for p in pieces:
        if isinstance(p, str): out += p
        else: out += HOLE; holes.append(p[1])
    return out, holes

def templates_of(F, fn):
    """[(conds, template text, holes)] for a bump_* function: the argument given to Template::new on each path"""
    res = []
    fns = [fn] + [c for c in F.children(fn.path) if c.kind == "closure"]
    for g in fns:
        for p in mir.enum_paths(g, limit=2000):
            if g.blocks[p[-1]]["t"][0] != "ret": continue
            sp = mir.SymPath(g, p)
            for b, name, args, t in sp.calls:
                if str(name).endswith("Template::<T>::new"):
                    txt, holes = join(sval(F, g, args[0]))
                    conds = []
                    for d, (rel, vals), bb in sp.conds:
                        truth = not ((rel == "eq" and 0 in vals) or (rel == "ne" and 0 not in vals))
                        if d[0] == "call":
                            cs = []
                            for a in d[2]:
                                if a[0] == "const": cs.append(a[1])
                                elif a[0] == "promoted":
                                    v = mir.promoted_value(F, {"k": "promoted", "of": a[1], "idx": a[2]})
                                    if v is not None and v[0] == "const": cs.append(v[1])
                            conds.append((str(d[1]).rsplit("::", 1)[-1], tuple(cs), truth, mir.show(d)[:80]))
                        elif d[0] == "discr":
                            conds.append(("discr", (mir.show(d[1])[:60],), (rel, vals), ""))
                    res.append((conds, txt, holes))
    # de-duplicate
    seen = set(); out = []
    for c, t, h in res:
        k = (str(c), t, tuple(h))
        if k not in seen: seen.add(k); out.append((c, t, h))
    return out

IFRE = re.compile(r"^\{%\s*if\s+(.*?)\s*%\}(.*?)\{%\s*else\s*%\}(.*?)\{%\s*endif\s*%\}$", re.S)

def split_template(txt):
    m = IFRE.match(txt)
    if not m: return None
    return m.group(1), m.group(2), m.group(3)

# ---- tiny boolean expression parser (Tera subset: and / or / not / parentheses / identifiers) --------------------
def parse_cond(s):
    toks = re.findall(r"\(|\)|[A-Za-z_][A-Za-z_0-9]*", s)
    pos = [0]
    def peek(): return toks[pos[0]] if pos[0] < len(toks) else None
    def eat():
        t = toks[pos[0]]; pos[0] += 1; return t
    def p_or():
        l = p_and()
        while peek() == "or": eat(); l = ("or", l, p_and())
        return l
    def p_and():
        l = p_not()
        while peek() == "and": eat(); l = ("and", l, p_not())
        return l
    def p_not():
        if peek() == "not": eat(); return ("not", p_not())
        if peek() == "(":
            eat(); e = p_or()
            if peek() == ")": eat()
            return e
        return ("var", eat())
    e = p_or()
    if pos[0] != len(toks): raise ValueError("trailing tokens in %r" % s)
    return e

def atoms(e):
    if e[0] == "var": return {e[1]}
    return set().union(*[atoms(x) for x in e[1:]])

def ev(e, a):
    if e[0] == "var": return a[e[1]]
    if e[0] == "not": return not ev(e[1], a)
    if e[0] == "and": return ev(e[1], a) and ev(e[2], a)
    return ev(e[1], a) or ev(e[2], a)

def same_truth(c1, c2):
    """both are condition strings; equal as boolean functions of their atoms"""
    e1, e2 = parse_cond(c1), parse_cond(c2)
    vs = sorted(atoms(e1) | atoms(e2))
    for vals in itertools.product((False, True), repeat=len(vs)):
        a = dict(zip(vs, vals))
        if ev(e1, a) != ev(e2, a): return False, a
    return True, None

def implies(c1, c2):
    e1, e2 = parse_cond(c1), parse_cond(c2)
    vs = sorted(atoms(e1) | atoms(e2))
    for vals in itertools.product((False, True), repeat=len(vs)):
        a = dict(zip(vs, vals))
        if ev(e1, a) and not ev(e2, a): return False, a
    return True, None
