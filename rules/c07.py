"""C07 - format conversion is faithful (structural clauses).
R07.1 label writer/reader tables agree; R07.2 no narrowing parse; R07.3 narrowing needs a way to refuse;
R07.4 no constant fallback on numeric parse; R07.5 to_zerv wiring; R07.6 render and tag parsing share the From impls."""
import re
import core, mir, parsers, tables, panics

PV = "<impl std::convert::From<crate::version::zerv::core::Zerv> for crate::version::pep440::core::PEP440>::from"
SV = "<impl std::convert::From<crate::version::zerv::core::Zerv> for crate::version::semver::core::SemVer>::from"
INT_W = {"u8": 8, "u16": 16, "u32": 32, "u64": 64, "usize": 64, "i32": 32, "i64": 64}

def check(F, rep, tier):
    cg = mir.CallGraph(F)
    tables.label_tables(F, rep, "R07.1")
    # ---- R07.2 / R07.3: integer parses on the rendering paths -----------------------------------------------------
    for root, tyname, field_w in ((SV, "SemVer", 64), (PV, "PEP440", 32)):
        fs = F.find(root)
        if not rep.anchor("R07.2", root, fs): continue
        fns = [F.fns[p] for p in cg.closure([fs[0].path], generic=False) if p in F.fns and (("semver::from_zerv" in p) if tyname == "SemVer" else ("pep440::from_zerv" in p))]
        rep.fn_seen(*fns)
        n = 0
        # the conversion with its local helpers spliced in: every parse is judged where its value ends up (the field it is
        # written to), so extracting / merging helpers changes neither the instances nor their keys
        f = mir.inlined(F, fs[0], depth=6, ok=lambda F_, caller, cp, g: g is not None and g.kind != "closure" and (("semver::from_zerv" in cp) if tyname == "SemVer" else ("pep440::from_zerv" in cp)))
        seen_keys = {}
        for bi, t in f.calls():
            if not mir.call_matches(t, (parsers.PARSE,)): continue
            ty = (t[1].get("targs") or ["?"])[0]
            if ty not in INT_W: continue
            n += 1
            home = (f.blocks[bi].get("from") or fs[0].path).replace("crate::", "")
            site = "%s (in %s) bb%d line %s" % (f.where(), home.rsplit("::", 1)[-1], bi, f.blocks[bi]["line"])
            sinks = set()
            for sk in mir.forward_sinks(f, t[3][0], limit=400):
                if sk[0] == "write": sinks.add(sk[1][-1])
                elif sk[0] == "aggfield": sinks.add(sk[2])
                elif sk[0] == "callarg" and (sk[1] or "").endswith("Vec::<T, A>::push"):
                    for o in mir.trace_op(f, f.blocks[sk[3]]["t"][2][0]):
                        if o.fields(): sinks.add(o.fields()[-1])
                    for o in mir.trace_op(f, f.blocks[sk[3]]["t"][2][0], transparent=()):
                        if o.kind == "call" and (mir.callee(f.blocks[o.data]["t"]) or "").endswith("get_or_insert_with"):
                            for o2 in mir.trace_op(f, f.blocks[o.data]["t"][2][0], transparent=()):
                                if o2.fields(): sinks.add(o2.fields()[-1])
            sink = "+".join(sorted(x for x in sinks if not x.isdigit())) or "unnamed"
            key = "%s.%s" % (tyname, sink)
            seen_keys[key] = seen_keys.get(key, 0) + 1
            if tyname == "SemVer":
                # values are u64 in Zerv and in SemVer: the parse type must be u64
                if INT_W[ty] == 64: rep.ok("R07.2", "SemVer rendering parses component text as %s (field width) -> %s" % (ty, sink), sample=site, nontrivial_key=key + str(bi))
                else: rep.bad("R07.2", "narrowing-parse:" + key, "SemVer rendering parses a 64-bit component value as %s: larger numbers change position or kind" % ty, site)
            else:
                # Zerv numbers are u64, PEP 440 fields u32: a failing parse must be able to refuse, but From cannot fail.
                # Accepted: the text is kept verbatim as a local text segment when it does not fit (try_new_str on the failure side)
                kept = any((mir.callee(t2) or "").endswith("LocalSegment::try_new_str") and (f.blocks[b2].get("from") or fs[0].path) == (f.blocks[bi].get("from") or fs[0].path) for b2, t2 in f.calls())
                if kept:
                    rep.ok("R07.3", "a number too large for u32 is kept verbatim as a text segment", sample=site, nontrivial_key=key + str(bi)); continue
                if seen_keys[key] > 1: key2 = key      # the same sink reached by several (inlined) parse sites: one finding per sink
                rep.bad("R07.3", "silent-narrowing:" + key, "a u64 Zerv number is parsed as %s inside the infallible From<Zerv> for PEP440 and written to %s: a value above u32::MAX cannot be refused and is silently dropped, replaced or moved to the local segment" % (ty, sink), site)
        # parses inside closures of iterator pipelines (`.map(|part| part.parse::<u64>())`): same width requirement
        work = list(mir.closures_in(F, f)); seen_c = set()
        while work:
            c = work.pop()
            if c.path in seen_c: continue
            seen_c.add(c.path); work += mir.closures_in(F, c)
            for bi, t in c.calls():
                if not mir.call_matches(t, (parsers.PARSE,)): continue
                ty = (t[1].get("targs") or ["?"])[0]
                if ty not in INT_W: continue
                n += 1
                site = "%s bb%d line %s" % (c.where(), bi, c.blocks[bi]["line"])
                if tyname == "SemVer":
                    if INT_W[ty] == 64: rep.ok("R07.2", "SemVer rendering parses component text as %s (field width) inside an iterator closure" % ty, sample=site, nontrivial_key=c.path + str(bi))
                    else: rep.bad("R07.2", "narrowing-parse:SemVer.closure", "SemVer rendering parses a 64-bit component value as %s: larger numbers change position or kind" % ty, site)
                else:
                    rep.undecided("R07.3", "narrowing-in-closure:" + c.path.rsplit("::", 2)[-2], "a %s parse inside an iterator closure of the PEP 440 conversion: where its value is written is not followed" % ty, site)
        rep.floor("R07.2", "integer parses on the %s rendering path" % tyname, n, 3)
    # ---- R07.4 no constant fallback ---------------------------------------------------------------------------------
    for anchor, module in (("<impl std::str::FromStr for crate::version::semver::core::SemVer>::from_str", "crate::version::semver::parser::"),
                           ("<impl std::str::FromStr for crate::version::pep440::core::PEP440>::from_str", "crate::version::pep440::parser::")):
        fs = F.find(anchor)
        if rep.anchor("R07.4", anchor, fs):
            fns = parsers.module_fns(F, fs[0], module)
            rep.fn_seen(*fns)
            parsers.constant_fallbacks(F, rep, "R07.4", fns)
    # ---- R07.3b no truncating cast anywhere on the conversion paths ----------------------------------------------------
    parsers.narrowing_casts(F, rep, "R07.3b", ("crate::version::pep440::", "crate::version::semver::", "crate::version::version_object::", "crate::cli::render::", "crate::version::zerv::components::", "crate::version::zerv::vars::"), "format conversion")
    # which identifiers are numbers is decided by the SemVer parser (a label followed by a number is only recognised for numbers)
    core.borrow(F, rep, "c08", "C08", "R07.4", ("R08.5:lossy-arithmetic", "R08.5:length-bound", "R08.5:narrowing-parse", "R08.5:numeric-classification"), "every identifier a u64 can hold is classified as a number, and no other")
    # also the converters themselves
    conv = [f for p, f in F.fns.items() if any(x in p for x in ("semver::to_zerv", "pep440::to_zerv", "semver::from_zerv", "pep440::from_zerv")) and "::tests" not in p]
    for g in conv:
        for bi, t in g.calls():
            full = t[1].get("full") or ""
            if "ParseIntError" in full and (mir.callee(t) or "").rsplit("::", 1)[-1] in ("unwrap_or", "unwrap_or_default"):
                rep.bad("R07.4", "const-fallback:" + g.path.replace("crate::", ""), "a converter replaces a failed numeric parse by a constant", "%s bb%d" % (g.where(), bi))
    # ---- R07.5 to_zerv wiring ----------------------------------------------------------------------------------------------
    pz = F.fn("crate::version::pep440::to_zerv::<impl crate::version::pep440::core::PEP440>::to_zerv_with_schema")
    if rep.anchor("R07.5", "PEP440::to_zerv_with_schema", pz):
        rep.fn_seen(pz, *F.children(pz.path))
        pz = mir.inlined(F, pz, depth=4, keep=("pep440_default", "push_core", "push_build"))       # zerv_vars() / release_part(i) style helpers are seen through
        wires = {}
        for bi, si, st in pz.stmts():
            if st[0] == "=" and st[2][0] == "agg" and st[2][1].get("adt", "").endswith("vars::ZervVars"):
                for name, op in zip(st[2][1]["fields"], st[2][2]):
                    wires[name] = mir.field_sources(F, pz, op)
        want = {"major": ("release", "[0]"), "minor": ("release", "[1]"), "patch": ("release", "[2]"), "epoch": ("epoch", "call:then_some"), "post": ("post_number",), "dev": ("dev_number",), "pre_release": ("pre_label", "pre_number")}
        # `epoch > 0` may be written as (epoch > 0).then_some(..) or as `if epoch > 0 { Some(..) } else { None }`
        epoch_if = False
        for bi, si, st in pz.stmts():
            if st[0] == "=" and st[2][0] == "agg" and isinstance(st[2][1], dict) and st[2][1].get("variant") == "Some" and st[2][2]:
                if any(o.fields()[-1:] == ["epoch"] for o in mir.trace_op(pz, st[2][2][0])):
                    for d, pol, dd in mir.guards_of(pz, bi):
                        if d[0] == "bin" and d[1] == "Gt" and pol is True and mir.const_of(d[3]) == 0 and any(o.fields()[-1:] == ["epoch"] for o in mir.trace_op(pz, d[2])): epoch_if = True
        for k, need in want.items():
            got = wires.get(k, set())
            if k == "epoch" and epoch_if and "call:then_some" not in got: got = set(got) | {"call:then_some"}
            flat = " ".join(sorted(got))
            own = {"release", "epoch", "post_number", "dev_number", "pre_label", "pre_number", "local"}
            foreign = {x for x in got if x.split(".")[-1] in own and x.split(".")[-1] not in need}
            idx_ok = all((i in got) == (i in need) for i in ("[0]", "[1]", "[2]"))
            if all(any(n_ == x or x.endswith("." + n_) or x == n_ for x in got) for n_ in need) and not foreign and idx_ok:
                rep.ok("R07.5", "PEP440 -> vars.%s from %s" % (k, need), sample=sorted(got), nontrivial_key=k)
            else:
                rep.bad("R07.5", "to-zerv-wire:" + k, "PEP 440 -> Zerv: vars.%s is taken from %s, expected %s" % (k, sorted(got), need), pz.where())
        rep.floor("R07.5", "ZervVars fields wired in PEP440::to_zerv_with_schema", len(wires), 7)
        # epoch only when > 0; extra release parts -> core UInt; local -> build
        skip3 = any((mir.callee(t) or "").endswith("Iterator::skip") and mir.const_arg(pz, t[2][1]) == 3 for bi, t in pz.calls())
        pushes = {(mir.callee(t) or "").rsplit("::", 1)[-1] for g_ in [pz] + mir.closures_in(F, pz) for bi, t in g_.calls() if "ZervSchema::push_" in (mir.callee(t) or "")}
        if skip3 and pushes == {"push_core", "push_build"}: rep.ok("R07.5", "release parts beyond 3 -> core, local segments -> build", nontrivial_key="extra")
        else: rep.bad("R07.5", "to-zerv-extra", "extra release parts / local segments are not mapped to core / build (skip(3): %s, pushes %s)" % (skip3, sorted(pushes)), pz.where())
        dflt = any((mir.callee(t) or "").endswith("ZervSchema::pep440_default") for bi, t in pz.calls())
        if dflt: rep.ok("R07.5", "conversion guarded by the default PEP 440 schema")
        else: rep.bad("R07.5", "to-zerv-schema-guard", "PEP 440 -> Zerv no longer checks for the default schema", pz.where())
    sz = F.fn("crate::version::semver::to_zerv::<impl crate::version::semver::core::SemVer>::to_zerv_with_schema")
    if rep.anchor("R07.5", "SemVer::to_zerv_with_schema", sz):
        rep.fn_seen(sz)
        sz = mir.inlined(F, sz, depth=4)
        wires = {}
        for bi, si, st in sz.stmts():
            if st[0] == "=" and st[2][0] == "agg" and st[2][1].get("adt", "").endswith("vars::ZervVars"):
                for name, op in zip(st[2][1]["fields"], st[2][2]):
                    fl = set()
                    for o in mir.trace_op(sz, op):
                        if o.kind == "agg":
                            for a in mir.rv_at(sz, *o.data)[2]:
                                for o2 in mir.trace_op(sz, a):
                                    if o2.fields(): fl.add(o2.fields()[-1])
                        if o.fields(): fl.add(o.fields()[-1])
                    wires[name] = fl
        for k in ("major", "minor", "patch"):
            if wires.get(k) == {k}: rep.ok("R07.5", "SemVer -> vars.%s from self.%s" % (k, k), nontrivial_key="s" + k)
            else: rep.bad("R07.5", "to-zerv-wire:semver:" + k, "SemVer -> Zerv: vars.%s is taken from %s" % (k, sorted(wires.get(k, []))), sz.where())
    # ---- R07.5c a number that follows a label stays that label's value, whatever its size ------------------------------------------
    n_fin = 0
    for p_, g in sorted(F.fns.items()):
        if not p_.startswith("crate::version::semver::to_zerv") or g.kind == "closure" or "::tests::" in p_: continue
        upar = [i for i in range(1, g.nargs + 1) if g.locals[i] == "u64"]
        if not upar: continue
        gi = mir.inlined(F, g, depth=2, keep=("finalize_var", "push_extra_core"), ok=lambda F_, c_, cp, h: h is not None and h.kind != "closure" and cp.startswith("crate::version::semver::to_zerv"))
        for bi, t in gi.calls():
            if not (mir.callee(t) or "").endswith("::finalize_var") or len(t[2]) < 3: continue
            n_fin += 1
            site = "%s bb%d line %s" % (gi.where(), bi, gi.blocks[bi]["line"])
            val = mir.deep_origins(gi, t[2][2])
            from_param = any(k == "param" and d.isdigit() and int(d) in upar for k, d in val)
            sized = []
            for d, pol, dd in mir.guards_of(gi, bi):
                ops = []
                if d[0] == "bin": ops = [d[2], d[3]]
                elif d[0] == "call": ops = list(d[2][2]) if isinstance(d[2], list) and len(d[2]) > 2 else []
                elif d[0] == "discr":
                    # Result of u32::try_from(n) and friends
                    for o in mir.trace_place(gi, d[1], transparent=()):
                        if o.kind == "call" and any(x in (mir.callee(gi.blocks[o.data]["t"]) or "") for x in ("try_from", "try_into", "checked_")): ops += list(gi.blocks[o.data]["t"][2])
                for o_ in ops:
                    if isinstance(o_, list) and o_ and o_[0] in ("cp", "mv") and any(k == "param" and dd2.isdigit() and int(dd2) in upar for k, dd2 in mir.deep_origins(gi, o_)): sized.append(d[1] if d[0] == "bin" else str(d[1])[:40])
            if not from_param: rep.bad("R07.5", "label-loses-number:" + p_.rsplit("::", 1)[-1], "a numeric identifier handler finalises the pending label without the number it was given: the label is then printed without its value (or not at all)", site)
            elif sized: rep.bad("R07.5", "label-binding-depends-on-size:" + p_.rsplit("::", 1)[-1], "whether the number becomes the pending label's value depends on its magnitude (%s): beyond that bound the label loses its number in SemVer output" % sized[:2], site)
            else: rep.ok("R07.5", "the number following a label is finalised as that label's value (Some(n)), independent of its size", sample=site, nontrivial_key="fin%s%d" % (p_, bi))
    rep.floor("R07.5", "finalize_var calls in numeric identifier handlers", n_fin, 1)
    # ---- R07.6 render and tag parsing use the same From impls ------------------------------------------------------------------
    rr = F.fn("crate::cli::render::pipeline::run_render")
    vo = [f for f in F.find("as std::convert::From<crate::version::version_object::VersionObject>>::from") + F.find("<impl std::convert::From<crate::version::version_object::VersionObject> for crate::version::zerv::vars::ZervVars>::from")]
    tgt = {f.path for f in F.fns.values() if f.path.endswith(">::from") and ("From<crate::version::semver::core::SemVer> for crate::version::zerv::core::Zerv" in f.path or "From<crate::version::pep440::core::PEP440> for crate::version::zerv::core::Zerv" in f.path)}
    for nm, f in (("run_render", rr), ("From<VersionObject> for ZervVars", vo[0] if vo else None)):
        if not rep.anchor("R07.6", nm, f): continue
        rep.fn_seen(f)
        reach = cg.closure([f.path])
        if tgt and tgt <= reach: rep.ok("R07.6", "%s converts through From<SemVer>/From<PEP440> for Zerv" % nm, nontrivial_key=nm)
        else: rep.bad("R07.6", "other-conversion:" + nm, "%s does not reach both From<SemVer> and From<PEP440> for Zerv" % nm, f.where())
    # ---- R07.9 every identifier a conversion pushes arrives: the schema's push_* append unconditionally -----------------------------
    npush = 0
    for nm in ("push_core", "push_extra_core", "push_build"):
        pf_ = F.fn("crate::version::zerv::schema::core::ZervSchema::" + nm)
        if not rep.anchor("R07.9", "ZervSchema::" + nm, pf_): continue
        rep.fn_seen(pf_)
        pi_ = mir.inlined(F, pf_, depth=2, keep=("set_core", "set_extra_core", "set_build", "validate"))
        pushes = [(h, bi) for h in [pi_] + mir.closures_in(F, pi_) for bi, t in h.calls() if (mir.callee(t) or "").endswith("Vec::<T, A>::push") or (mir.callee(t) or "").endswith("::extend") or (mir.callee(t) or "").endswith("Vec::<T, A>::insert")]
        if not pushes: rep.undecided("R07.9", "push-shape:" + nm, "%s does not append with Vec::push" % nm, pf_.where()); continue
        for h, bi in pushes:
            npush += 1
            conds = [(d, pol) for d, pol, dd in mir.guards_of(h, bi) if d[0] in ("call", "bin") and not (d[0] == "call" and "Try>::branch" in str(d[1]))]
            site = "%s bb%d line %s" % (h.where(), bi, h.blocks[bi]["line"])
            if conds: rep.bad("R07.9", "conditional-push:" + nm, "%s appends the component only under %s: some identifiers a conversion pushes are dropped (e.g. the second of two equal adjacent ones: 1.2.3+ab.ab reads back as 1.2.3+ab)" % (nm, [str(d[1]).rsplit("::", 1)[-1] if d[0] == "call" else d[1] for d, pol in conds][:3]), site)
            else: rep.ok("R07.9", "%s appends unconditionally" % nm, sample=site, nontrivial_key="push" + nm + str(bi))
    rep.floor("R07.9", "appends in ZervSchema::push_*", npush, 3)
    # ---- R07.10 a text local part is the sanitiser's output, nothing else is done to it --------------------------------------------------
    tns = F.fn("crate::version::pep440::utils::LocalSegment::try_new_str")
    if rep.anchor("R07.10", "LocalSegment::try_new_str", tns):
        rep.fn_seen(tns)
        nstr_ = 0
        POST = ("::trim_start_matches", "::trim_end_matches", "::trim_matches", "::trim", "::trim_start", "::trim_end", "::replace", "::to_uppercase", "::strip_prefix", "::strip_suffix", "::truncate", "::take", "::skip", "::collect", "::parse", "::split")
        for bi, si, st in tns.stmts():
            if not (st[0] == "=" and st[2][0] == "agg" and (st[2][1].get("adt") or "").endswith("LocalSegment") and st[2][1].get("variant") == "Str"): continue
            nstr_ += 1
            site = "%s bb%d line %s" % (tns.where(), bi, tns.blocks[bi]["line"])
            calls_ = {mir.callee(tns.blocks[int(d_)]["t"]) or "?" for k_, d_ in mir.deep_origins(tns, st[2][2][0], stop=()) if k_ == "call" and d_.isdigit() and tns.blocks[int(d_)]["t"][0] == "call"}
            consts_ = [d_ for k_, d_ in mir.deep_origins(tns, st[2][2][0], stop=()) if k_ == "const" and "'k': 'str'" in d_]
            post = sorted(c.rsplit("::", 1)[-1] for c in calls_ if any(c.endswith(x) for x in POST))
            if post or consts_: rep.bad("R07.10", "local-text-postprocessed", "LocalSegment::try_new_str changes the sanitised text afterwards (%s%s): an alphanumeric id such as 0abc123 loses characters in PEP 440 but not in SemVer, so the two renderings of one version disagree" % (post, " / constant text" if consts_ else ""), site)
            elif any(c.endswith("Sanitizer::sanitize") for c in calls_): rep.ok("R07.10", "LocalSegment::Str holds the sanitiser's output as is", sample=site, nontrivial_key="tns%d" % bi)
            else: rep.undecided("R07.10", "local-text-origin", "the text stored in LocalSegment::Str is not recognisably the sanitiser's output", site)
        rep.floor("R07.10", "LocalSegment::Str constructions in try_new_str", nstr_, 1)
    # ---- R07.8 a version is read in the format that was asked for; auto-detection prefers SemVer -------------------------------------
    if rr is not None:
        try:
            ri = mir.inlined(F, rr, depth=3, keep=("parse_with_format", "from_str", "parse_auto_detect", "format_output", "validate"))
            nparse = 0
            for bi, t in ri.calls():
                c = mir.callee(t) or ""
                last = c.rsplit("::", 1)[-1]
                if not (c.endswith("VersionObject::parse_with_format") or c.endswith("VersionObject::parse_auto_detect") or (last == "from_str" and ("SemVer" in c or "PEP440" in c))): continue
                nparse += 1
                site = "%s bb%d line %s" % (ri.where(), bi, ri.blocks[bi]["line"])
                if not c.endswith("parse_with_format"):
                    rep.bad("R07.8", "render-format:bypass:" + last, "render parses its argument with %s instead of parse_with_format(version, input_format): the requested input format is not what decides how the text is read" % last, site); continue
                os_ = mir.trace_op(ri, t[2][1]) if len(t[2]) > 1 else []
                if os_ and all(o.kind == "param" and "input_format" in [str(x) for x in o.fields()] for o in os_):
                    rep.ok("R07.8", "render parses the version with the requested input format", sample=site, nontrivial_key="rf%d" % nparse)
                elif os_ and any(o.kind == "const" for o in os_):
                    rep.bad("R07.8", "render-format:substituted", "render (also) parses its argument with a fixed format instead of the requested one: text that is not a version of the requested format is read as something else instead of being rejected", site)
                else:
                    rep.undecided("R07.8", "render-format:unknown-origin", "cannot relate the format argument to args.input_format", site)
            rep.floor("R07.8", "version parses in run_render", nparse, 1)
        except mir.TooManyPaths:
            rep.undecided("R07.8", "render-format:too-many-paths", "run_render", rr.where())
    pad = F.fn("crate::version::version_object::VersionObject::parse_auto_detect")
    if rep.anchor("R07.8", "VersionObject::parse_auto_detect", pad):
        rep.fn_seen(pad)
        try:
            pi = mir.inlined(F, pad, depth=2, keep=("from_str",))
            nsem = 0; wrong = None
            for sp in mir.sym_paths(pi, limit=20000):
                first = None
                for d, tr, b in sp.facts():
                    if d[0] == "discr" and isinstance(d[1], tuple) and d[1][0] == "call" and "SemVer" in str(d[1][1]) and str(d[1][1]).endswith("from_str") and isinstance(tr, tuple):
                        first = (tr[0] == "eq" and 0 in tr[1]) or (tr[0] == "ne" and 0 not in tr[1] and 1 in tr[1]); break
                if not first: continue
                nsem += 1
                r = sp.ret()
                ok_sem = r[0] == "agg" and str(r[1]).endswith("Result::Ok") and r[2] and r[2][0][1][0] == "agg" and str(r[2][0][1][1]).endswith("VersionObject::SemVer")
                other = r[0] == "agg" and (str(r[1]).endswith("Result::Err") or (str(r[1]).endswith("Result::Ok") and r[2] and r[2][0][1][0] == "agg" and "VersionObject::" in str(r[2][0][1][1])))
                if not ok_sem and other: wrong = mir.show(r)[:120]
                elif not ok_sem: wrong = wrong or "?"
            if wrong and wrong != "?":
                rep.bad("R07.8", "auto-detect:semver-not-preferred", "auto-detection returns %s for text that parses as SemVer: a SemVer rendering read back with the default input format becomes a different version" % wrong, pad.where())
            elif wrong or not nsem:
                rep.undecided("R07.8", "auto-detect:unrecognised-shape", "cannot follow what auto-detection returns when the SemVer parser accepts", pad.where())
            else:
                rep.ok("R07.8", "auto-detection returns the SemVer reading whenever the SemVer parser accepts (%d paths)" % nsem, nontrivial_key="autodetect")
        except mir.TooManyPaths:
            rep.undecided("R07.8", "auto-detect:too-many-paths", "parse_auto_detect", pad.where())
    import tables as _t
    _t.sanitizer_presets(F, rep, "R07.7", ("semver_str", "pep440_local_str", "uint", "key"))
    return core.finish(rep, explanation=EXPL, assumptions=ASSUME, trusted=TRUST)

EXPL = ("Structural clauses of faithful conversion: writer labels and reader keys map each secondary variable and each pre-release label back to itself; on the SemVer rendering path every integer parse has the width of the field it fills; "
        "on the PEP 440 rendering path a u64 value is parsed as u32 inside an infallible From, which cannot refuse (reported per site); no parser or converter replaces a failed numeric parse by a constant; "
        "PEP 440 -> Zerv wires release[0..2], epoch (only when > 0), post, dev and pre label/number to the variables of the same meaning, extra release parts to core literals and local segments to build, SemVer -> Zerv wires major/minor/patch; "
        "render and tag parsing go through the same From impls. Round-trip and fixed-point laws are value equations and are not decided.")
ASSUME = []
TRUST = ["rustc MIR", "zfacts", "rules/c07.py, parsers.py, tables.py"]
