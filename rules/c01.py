"""C01 - every emitted version string is well-formed (structural necessary conditions on the sanitise/render path).
R01.1 char-class guard; R01.2 must-sanitise (every resolved value/label comes out of Sanitizer::sanitize);
R01.3 who-may-read free text; R01.4 empty identifiers never pushed; R01.5 separators of the printers."""
import core, mir, san, panics

SANITIZE = "crate::utils::sanitize::Sanitizer::sanitize"
FREE_TEXT = {"bumped_branch", "bumped_commit_hash", "last_branch", "last_commit_hash", "last_tag_version", "custom"}
FROMS = ("<impl std::convert::From<crate::version::zerv::core::Zerv> for crate::version::semver::core::SemVer>::from",
         "<impl std::convert::From<crate::version::zerv::core::Zerv> for crate::version::pep440::core::PEP440>::from")

def is_sanitize_call(fn, bi):
    return (mir.callee(fn.blocks[bi]["t"]) or "") == SANITIZE

def sanitized(F, fn, op, depth=0, seen=None, elem=None):
    """list of problems for a String / Option<String> / Vec<String> value that must consist of sanitiser outputs only.
    elem = (fn, operand) of the collection whose element a mapping closure's parameter stands for."""
    if seen is None: seen = set()
    probs = []
    if depth > 10: return ["depth"]
    for o in mir.trace_op(fn, op, transparent=()):
        k = (o.fn.path, o.kind, str(o.data))
        if k in seen: continue
        seen.add(k)
        if o.kind == "call":
            t = o.fn.blocks[o.data]["t"]; c = mir.callee(t) or ""
            if c == SANITIZE: continue
            if c.endswith("::resolve_value") or c.endswith("::resolve_parts_with_value") or c.endswith("::resolve_expanded_values") or c.endswith("::resolve_expanded_values_with_key_sanitizer"):
                continue            # covered by the same rule at their own definition
            if any(c.endswith(x) for x in ("Option::<T>::map", "Option::<T>::and_then", "Iterator::map")):
                # closure result must be sanitised
                ok = False
                for o2 in mir.trace_op(o.fn, t[2][1], transparent=()):
                    if o2.kind == "agg":
                        rv = mir.rv_at(o2.fn, *o2.data)
                        if rv[1].get("k") == "closure":
                            c2 = F.fn(rv[1]["path"])
                            probs += sanitized(F, c2, ["cp", [0]], depth + 1, seen, elem=(o.fn, t[2][0])); ok = True
                if not ok: probs.append("%s with a non-closure argument in %s" % (c, o.fn.path))
                continue
            if any(c.endswith(x) for x in ("Iterator::collect", "Option::<T>::unwrap_or_default", "Result::<T, E>::ok", "box_assume_init_into_vec_unsafe", "as std::ops::Deref>::deref", "as std::clone::Clone>::clone", "Option::<T>::unwrap_or", "Option::<T>::or",
                                           "as std::iter::IntoIterator>::into_iter", "Option::<T>::into_iter", "Option::<T>::iter", "Iterator::chain", "Iterator::cloned", "Iterator::flatten")):
                if c.endswith("box_assume_init_into_vec_unsafe"):
                    for b2, s2, st in o.fn.stmts():
                        if st[0] == "=" and st[2][0] == "agg" and st[2][1].get("k") == "array":
                            for a in st[2][2]: probs += sanitized(F, o.fn, a, depth + 1, seen, elem)
                else:
                    for a in t[2][:1]: probs += sanitized(F, o.fn, a, depth + 1, seen, elem)
                continue
            if c.endswith("Vec::<T>::new") or c.endswith("Vec::<T, A>::new"): continue
            g_ = F.fn(c)
            if g_ is not None and c.startswith("crate::version::zerv::components::") and depth < 8:
                # a private helper / a closure called directly (`labelled("major")`): what it returns must be sanitised
                probs += sanitized(F, g_, ["cp", [0]], depth + 1, seen, elem); continue
            probs.append("value produced by %s in %s (not the sanitiser)" % (c, o.fn.path.replace("crate::", "")))
        elif o.kind == "agg":
            rv = mir.rv_at(o.fn, *o.data); kd = rv[1]
            if kd.get("k") == "adt" and kd.get("variant") == "None": continue
            if kd.get("k") == "array" and not rv[2]: continue
            for a in rv[2]: probs += sanitized(F, o.fn, a, depth + 1, seen, elem)
        elif o.kind == "param" and o.fn.kind == "closure" and elem is not None and o.data == 2:
            probs += sanitized(F, elem[0], elem[1], depth + 1, seen)
        elif o.kind == "param" and o.fields():
            probs.append("raw value %s returned without sanitising in %s" % (".".join(o.fields()), o.fn.path.replace("crate::", "")))
        elif o.kind == "param":
            # Vec<String> parameter `parts`: checked at the callers
            sites = CG[0].sites.get(o.fn.path, [])
            if not sites: probs.append("parameter %d of %s" % (o.data, o.fn.path)); continue
            for g, bi in sites:
                probs += sanitized(F, g, g.blocks[bi]["t"][2][o.data - 1], depth + 1, seen)
        elif o.kind == "const":
            probs.append("constant %r returned unsanitised in %s" % (o.data.get("v"), o.fn.path.replace("crate::", "")))
        elif o.kind == "partial":
            continue
        else:
            probs.append("%r in %s" % (o, o.fn.path.replace("crate::", "")))
    return probs

CG = [None]

def check(F, rep, tier):
    cg = mir.CallGraph(F); CG[0] = cg
    rep.fn_seen(*san.san_fns(F).values())
    san.char_class_guard(F, rep, "R01.1")
    # ---- R01.2 must-sanitise -------------------------------------------------------------
    targets = [("crate::version::zerv::components::Var::resolve_value", 1), ("crate::version::zerv::components::Component::resolve_value", 1),
               ("crate::version::zerv::components::Var::resolve_expanded_values_with_key_sanitizer", 1), ("crate::version::zerv::components::Var::resolve_parts_with_value", 0),
               ("crate::version::zerv::components::Component::resolve_expanded_values", 0), ("crate::version::zerv::components::Var::resolve_expanded_values", 0)]
    n_san = 0
    for path, floor in targets:
        f = F.fn(path)
        if not rep.anchor("R01.2", path, f): continue
        rep.fn_seen(f, *F.children(path))
        probs = sanitized(F, f, ["cp", [0]])
        # also every Vec::push in the function
        for bi, t in f.calls():
            if (mir.callee(t) or "").endswith("Vec::<T, A>::push"):
                probs += sanitized(F, f, t[2][1])
            elif (mir.callee(t) or "").endswith("Extend<T>>::extend") or (mir.callee(t) or "").endswith("Vec::<T, A>::extend"):
                probs += sanitized(F, f, t[2][1])          # `parts.extend(option)`: what is appended must be sanitised too
        k = sum(1 for g in [mir.inlined(F, f, depth=2, ok=lambda F_, c_, cp, g_: g_ is not None and g_.kind != "closure" and cp.startswith("crate::version::zerv::components::"))] + F.children(path) for bi, t in g.calls() if (mir.callee(t) or "") == SANITIZE)
        n_san += k
        if probs:
            for pr in sorted(set(probs)):
                rep.bad("R01.2", "unsanitised:%s:%s" % (path.rsplit("::", 2)[-2] + "::" + path.rsplit("::", 1)[-1], pr[:60]), "a value reaches a version string without passing through Sanitizer::sanitize: %s" % pr, f.where())
        else:
            rep.ok("R01.2", "%s: every returned string is a Sanitizer::sanitize result (%d sanitize sites)" % (path.rsplit("::", 2)[-2] + "::" + path.rsplit("::", 1)[-1], k), nontrivial_key=path)
        if floor: rep.floor("R01.2", "sanitize call sites in " + path.rsplit("::", 1)[-1], k, floor)
    # the sanitizer argument of each sanitize call in resolve_value is the function's own sanitizer parameter (not a laxer one built on the spot)
    rv = F.fn(targets[0][0])
    if rv is not None:
        for g in [rv] + F.children(rv.path):
            for bi, t in g.calls():
                if (mir.callee(t) or "") == SANITIZE:
                    os = mir.trace_op(g, t[2][0])
                    good = all((o.kind == "param" and o.fn is rv and o.data == 3) or (o.kind == "upvar" and str(o.data).lstrip("*&") == "sanitizer") for o in os)
                    if good: rep.ok("R01.2", "sanitize uses the caller's sanitizer", nontrivial_key="s%s%d" % (g.path, bi))
                    else: rep.bad("R01.2", "other-sanitizer:%s" % g.path.rsplit("::", 2)[-1], "a value is sanitised with a sanitizer other than the one the renderer passed in: %r" % os, "%s bb%d" % (g.where(), bi))
    # ---- R01.3 who may read free text ---------------------------------------------------------
    froms = []
    for s in FROMS:
        fs = F.find(s)
        if rep.anchor("R01.3", s, fs): froms.append(fs[0])
    reach = cg.closure([f.path for f in froms], generic=False)
    base_allowed = lambda p: (p.startswith("crate::version::zerv::components::Var::resolve_value") or "::ZervVars::get_" in p or "ZervVars::derive_short_hash" in p
                              or p.startswith("<crate::version::zerv::vars::ZervVars as ") or "vars::_::<impl" in p)
    def allowed_fn(p, depth=0):
        """the sanitising resolver itself, or a private helper of its module that only it (transitively) calls: what such a
        helper returns is covered by R01.2 at the resolver (`resolve_raw_value(..).map(|v| sanitizer.sanitize(&v))`)"""
        if base_allowed(p): return True
        if depth > 3 or not p.startswith("crate::version::zerv::components::"): return False
        owner = p.split("::{closure")[0]
        callers = {g.path.split("::{closure")[0] for g, b in cg.sites.get(owner, [])}
        return bool(callers) and all(c == owner or allowed_fn(c, depth + 1) for c in callers)
    n_reads = 0
    for p in sorted(reach):
        f = F.fns.get(p)
        if f is None: continue
        rep.fn_seen(f)
        for bi, si, st in f.stmts():
            if st[0] != "=": continue
            places = []
            rvv = st[2]
            def collect(x):
                if isinstance(x, list):
                    if x and x[0] in ("cp", "mv") and isinstance(x[1], list): places.append(x[1])
                    elif x and x[0] == "ref" and len(x) > 2: places.append(x[2])
                    else:
                        for y in x: collect(y)
            collect(rvv)
            for pl in places:
                for e in pl[1:]:
                    if not isinstance(e, str) and e[0] == "f" and e[2] in FREE_TEXT and e[3].endswith("ZervVars"):
                        n_reads += 1
                        if allowed_fn(p): rep.ok("R01.3", "free-text field %s read inside %s" % (e[2], p.rsplit("::", 2)[-2]), nontrivial_key=p + e[2])
                        else: rep.bad("R01.3", "raw-read:%s:%s" % (p.replace("crate::", ""), e[2]), "free-text field ZervVars.%s is read on the rendering path outside the sanitising resolvers" % e[2], "%s bb%d" % (f.where(), bi))
    rep.floor("R01.3", "free-text field reads on the rendering path", n_reads, 4)
    # ---- R01.4 non-empty guard ------------------------------------------------------------------
    n_push = 0
    MODS = ("crate::version::semver::from_zerv", "crate::version::pep440::from_zerv")
    cands = [F.fns[p] for p in sorted(reach) if p in F.fns and p.startswith(MODS) and F.fns[p].kind != "closure"]
    called = {mir.callee(t) for g in cands for bi, t in g.calls() if (mir.callee(t) or "").startswith(MODS)}
    # the module's entry points, with every local helper spliced in: a push is judged in the context of its callers
    for f0 in [g for g in cands if g.path not in called]:
        f = mir.inlined(F, f0, depth=6)
        for bi, t in f.calls():
            cal = mir.callee(t) or ""
            is_push = cal.endswith("Vec::<T, A>::push")
            is_extend = cal.endswith("Extend<T>>::extend") or cal.endswith("Vec::<T, A>::extend") or cal.endswith("::extend")
            if not (is_push or is_extend): continue
            recv = mir.trace_op(f, t[2][0], transparent=())
            tgt = None
            for o in recv:
                if o.kind == "call" and (mir.callee(f.blocks[o.data]["t"]) or "").endswith("get_or_insert_with"):
                    for o2 in mir.trace_op(f, f.blocks[o.data]["t"][2][0], transparent=()):
                        fl = o2.fields()
                        if fl and fl[-1] in ("pre_release", "build_metadata", "local"): tgt = fl[-1]
            if tgt is None: continue
            n_push += 1
            home = (f.blocks[bi].get("from") or f0.path).replace("crate::", "")
            site = "%s (in %s) bb%d line %s" % (f.where(), home, bi, f.blocks[bi]["line"])
            if is_extend:
                # `.extend(parts.filter(|p| !p.is_empty()).map(..).collect())`: every element went through the filter
                good = any(mir.closure_is_nonempty_test(c) for c in mir.pipeline_filters(F, f, t[2][1]))
                key = "%s#%s" % (home, tgt)
                if good: rep.ok("R01.4", "extend of %s with a pipeline filtered by !is_empty()" % tgt, sample=site, nontrivial_key=key + str(bi))
                else: rep.bad("R01.4", "empty-identifier:" + key, "identifiers are appended to %s from a pipeline without a non-empty filter (an empty identifier is invalid in both grammars)" % tgt, site)
                continue
            # the guard must be about the pushed element itself (not about the whole value it was split from)
            elem = mir.deep_origins(f, t[2][1])
            good = False
            for d, pol, dd in mir.guards_of(f, bi):
                if d[0] == "call" and (d[1] or "").endswith("::is_empty") and pol is False:
                    subj = {(o.kind, str(o.data)) for o in mir.trace_op(f, d[2][2][0], transparent=())}
                    if subj & elem: good = True
            if not good:
                good = any(mir.closure_is_nonempty_test(c) for c in mir.dominating_filter_closures(F, f, bi, elem))
            key = "%s#%s" % (home, tgt)
            if good: rep.ok("R01.4", "push into %s guarded by !is_empty() (if / filter)" % tgt, sample=site, nontrivial_key=key + str(bi))
            else: rep.bad("R01.4", "empty-identifier:" + key, "an identifier is pushed into %s without a non-empty guard (an empty identifier is invalid in both grammars)" % tgt, site)
    rep.floor("R01.4", "identifier pushes on the rendering path", n_push, 3)
    # the optional vectors are created only when something is put into them: `Some(vec![])` prints a bare '+' / '-'
    n_goi = 0
    for f0 in [g for g in cands if g.path not in called]:
        f = mir.inlined(F, f0, depth=6)
        for bi, t in f.calls():
            if not (mir.callee(t) or "").endswith("Option::<T>::get_or_insert_with"): continue
            flds = {o.fields()[-1] for o in mir.trace_op(f, t[2][0], transparent=()) if o.fields()}
            tgt = next((x for x in ("pre_release", "build_metadata", "local") if x in flds), None)
            if tgt is None: continue
            n_goi += 1
            site = "%s (in %s) bb%d line %s" % (f.where(), (f.blocks[bi].get("from") or f0.path).rsplit("::", 1)[-1], bi, f.blocks[bi]["line"])
            # an append on this very result must follow on every path to the function's exit
            appends = []
            for b2, t2 in f.calls():
                c2 = mir.callee(t2) or ""
                if (c2.endswith("Vec::<T, A>::push") or c2.endswith("::extend")) and any(o.kind == "call" and o.data == bi for o in mir.trace_op(f, t2[2][0], transparent=())):
                    appends.append(b2)
            if appends and mir.must_pass(f, appends, src=bi):
                rep.ok("R01.4", "%s is created (get_or_insert_with) only together with an append" % tgt, sample=site, nontrivial_key="goi%s%d" % (tgt, bi))
            else:
                rep.bad("R01.4", "empty-section-created:%s" % tgt, "%s is created with get_or_insert_with on a path where nothing is appended afterwards: an empty %s is printed as a bare separator (e.g. '1.2.3+')" % (tgt, tgt), site)
    rep.floor("R01.4", "creations of the optional identifier vectors", n_goi, 2)
    # ---- R01.6 a PEP 440 version always has a release segment ---------------------------------------
    pf = F.find(FROMS[1])
    if pf:
        f = pf[0]
        pushes = [(bi, t) for bi, t in f.calls() if (mir.callee(t) or "").endswith("Vec::<T, A>::push") and any(o.fields()[-1:] == ["release"] for o in mir.trace_op(f, t[2][0]))]
        rep.floor("R01.6", "default release push in <PEP440 as From<Zerv>>::from", len(pushes), 1)
        for bi, t in pushes:
            recv = panics.okey(f, t[2][0])
            good = False
            for d, pol, dd in mir.guards_of(f, bi):
                if d[0] == "call" and (d[1] or "").endswith("::is_empty") and pol is True:
                    if panics.okey(f, d[2][2][0]) == recv: good = True
            site = "%s bb%d line %s" % (f.where(), bi, f.blocks[bi]["line"])
            if good: rep.ok("R01.6", "release gets a 0 exactly when the release vector itself is empty", sample=site, nontrivial_key="rel%d" % bi)
            else: rep.bad("R01.6", "release-default-guard", "the default release component is pushed under a condition other than `release.is_empty()` of the version being built: an empty release segment can be printed", site)
    # ---- R01.7 zero stripping cannot be bypassed by long digit runs (numeric identifiers without leading zeros) ----
    san.zero_strip_result(F, rep, "R01.7")
    san.zero_strip_paths(F, rep, "R01.7")
    san.replace_result_origin(F, rep, "R01.1")
    # ---- R01.5 stdout carries the version line only: logging and diagnostics go to stderr (shared with C13) -------
    import c13
    root = F.fn(c13.ROOT); rwa = F.fn(c13.RWA)
    if rep.anchor("R01.5", c13.ROOT, root) and rep.anchor("R01.5", c13.RWA, rwa):
        sub = core.Report("C01", rep.tier)
        c13.stdout_rules(F, sub, cg, root, rwa, cg.closure([c13.ROOT]))
        for v in sub.violations:
            rep.bad("R01.5", v["key"].split(":", 1)[1], v["msg"], v["site"])
        for r, d in sub.rules.items():
            for _ in range(d["instances"] - d["violations"]): rep.ok("R01.5", "stdout discipline (%s)" % r)
    # ---- R01.9 the output prefix is put in front of the version whenever one is given ---------------------------------------------
    fo = F.fn("crate::cli::utils::output_formatter::OutputFormatter::format_output")
    if rep.anchor("R01.9", "OutputFormatter::format_output", fo):
        rep.fn_seen(fo)
        def mentions(e, pred, depth=0):
            if depth > 40 or not isinstance(e, (tuple, list)): return False
            if isinstance(e, tuple) and pred(e): return True
            return any(mentions(x, pred, depth + 1) for x in e if isinstance(e, (tuple, list)))
        is_prefix = lambda e: e == ("param", 3)
        is_version = lambda e: len(e) > 1 and e[0] == "call" and isinstance(e[1], str) and (e[1].endswith("render_string") or e[1].endswith("format_base_output") or e[1].endswith("::render"))
        try:
            fi = mir.inlined(F, fo, depth=2, keep=("render_string", "format_base_output", "render"))
            nsome = 0; bad = None; unsure = None
            for sp in mir.sym_paths(fi, limit=20000):
                r = sp.ret()
                if not (r[0] == "agg" and str(r[1]).endswith("Result::Ok") and r[2]): continue
                val = r[2][0][1]
                has_prefix = None
                for d, tr, b in sp.facts():
                    if d[0] == "discr" and d[1] == ("param", 3) and isinstance(tr, tuple):
                        has_prefix = (tr[0] == "eq" and 1 in tr[1]) or (tr[0] == "ne" and 0 in tr[1] and 1 not in tr[1])
                if has_prefix is None:
                    if not mentions(val, is_prefix): unsure = "a successful return that does not test whether a prefix was given"
                    continue
                if not has_prefix: continue
                nsome += 1
                if not mentions(val, is_version): unsure = "the returned text is not recognisably the rendered version"
                elif not mentions(val, is_prefix):
                    conds = [mir.show(d)[:60] for d, tr, b in sp.facts() if not (d[0] == "discr")]
                    bad = "with a prefix given, format_output can return the rendered version without it (path conditions: %s): stdout is then not prefix + version" % conds
            if bad: rep.bad("R01.9", "prefix-dropped", bad, fo.where())
            elif unsure or not nsome: rep.undecided("R01.9", "prefix-shape", unsure or "no path with a prefix found", fo.where())
            else: rep.ok("R01.9", "every successful return with a prefix given contains the prefix and the rendered version (%d paths)" % nsome, nontrivial_key="prefix")
        except mir.TooManyPaths:
            rep.undecided("R01.9", "prefix-shape", "too many paths", fo.where())
    # ---- R01.11 the prefix printed is the prefix given: no value parser rewrites --output-prefix ------------------------------------------
    cgo = CG[0] if CG and CG[0] is not None else mir.CallGraph(F)
    custom = set()
    for p_ in F.fns:
        if "clap::Args>::augment_args" in p_ and "crate::cli::common::args::output" in p_:
            custom |= {x for x in (cgo.addr.get(p_, set()) | cgo.edges.get(p_, set())) if x.startswith("crate::") and F.fn(x) is not None and "::_::" not in x}
    lists_ = sorted(x for x in custom if F.fn(x).kind in ("const", "static", "anonconst", "promoted"))
    custom -= set(lists_)
    if lists_:
        # `value_parser = ["a", "b"]` / a const array of texts is clap's PossibleValuesParser: the accepted text is passed on as written
        rep.ok("R01.11", "constant possible-value lists on output options (%s): an accepted value is taken as written" % ", ".join(x.rsplit("::", 1)[-1] for x in lists_ if "{" not in x and "promoted" not in x), nontrivial_key="valuelists")
    for x in sorted(custom):
        g_ = F.fn(x)
        inner = sorted({(mir.callee(t) or "").rsplit("::", 1)[-1] for h in [g_] + F.children(x) for bi, t in h.calls()})
        alt = [c for c in inner if c in ("trim", "trim_start", "trim_end", "trim_matches", "trim_start_matches", "trim_end_matches", "to_lowercase", "to_uppercase", "replace", "truncate", "strip_prefix", "strip_suffix", "split", "take", "filter")]
        if alt: rep.bad("R01.11", "prefix-rewritten:" + x.rsplit("::", 1)[-1], "the value parser %s of an output option passes the text through %s: what is printed in front of the version is not the --output-prefix that was given ('release ' becomes 'release')" % (x.rsplit("::", 1)[-1], alt), g_.where())
        else: rep.undecided("R01.11", "output-value-parser:" + x.rsplit("::", 1)[-1], "a custom value parser on an output option whose effect is not evaluated", g_.where())
    if not custom: rep.ok("R01.11", "the output options use clap's built-in parsers (the prefix is taken as written)", nontrivial_key="plainprefix")
    core.borrow(F, rep, "c18", "C18", "R01.11", ("R18.4:",), "the Python functions return the command's stdout only")
    # ---- R01.10 reading a PEP 440 version keeps the length of its release: an absent part stays absent ------------------------------
    tz = F.fn("crate::version::pep440::to_zerv::<impl crate::version::pep440::core::PEP440>::to_zerv_with_schema")
    if rep.anchor("R01.10", "PEP440::to_zerv_with_schema", tz):
        rep.fn_seen(tz)
        ti = mir.inlined(F, tz, depth=3, keep=("pep440_default", "push_core", "push_build"))
        nrel = 0
        for bi, si, st in ti.stmts():
            if not (st[0] == "=" and st[2][0] == "agg" and (st[2][1].get("adt") or "").endswith("zerv::vars::ZervVars")): continue
            for nm, op in zip(st[2][1]["fields"], st[2][2]):
                if nm not in ("major", "minor", "patch"): continue
                nrel += 1
                site = "%s bb%d line %s" % (ti.where(), bi, ti.blocks[bi]["line"])
                kinds = set()
                for o in mir.trace_op(ti, op, transparent=()):
                    if o.kind == "call":
                        c = mir.callee(ti.blocks[o.data]["t"]) or ""
                        kinds.add("map" if c.endswith("Option::<T>::map") or c.endswith("Option::<T>::and_then") or c.endswith("::copied") or c.endswith("::cloned") else "call:" + c.rsplit("::", 1)[-1])
                    elif o.kind == "agg":
                        rv = mir.rv_at(o.fn, *o.data)
                        if (rv[1].get("adt") or "").endswith("Option") and rv[1].get("variant") == "Some":
                            dflt = [k for k, d in mir.deep_origins(o.fn, rv[2][0], stop=()) if k == "call" and d.isdigit() and o.fn.blocks[int(d)]["t"][0] == "call" and (mir.callee(o.fn.blocks[int(d)]["t"]) or "").rsplit("::", 1)[-1] in ("unwrap_or", "unwrap_or_default", "unwrap_or_else")]
                            kinds.add("some-default" if dflt else "some")
                        else: kinds.add("agg")
                    else: kinds.add(o.kind)
                if "some-default" in kinds:
                    rep.bad("R01.10", "release-zero-filled:" + nm, "ZervVars.%s is Some(release part or a default) even when the PEP 440 release has no such part: a short release ('0', '7.1') is printed back with extra '.0' parts" % nm, site)
                elif kinds == {"map"}: rep.ok("R01.10", "ZervVars.%s is present exactly when the release has that part" % nm, sample=site, nontrivial_key="rel" + nm)
                else: rep.undecided("R01.10", "release-part-shape:" + nm, "ZervVars.%s is built from %s" % (nm, sorted(kinds)), site)
        rep.floor("R01.10", "release parts written to ZervVars", nrel, 3)
    import tables as _t
    _t.sanitizer_presets(F, rep, "R01.8", ("semver_str", "pep440_local_str", "uint", "key"))
    return core.finish(rep, explanation=EXPL, assumptions=ASSUME, trusted=TRUST)

EXPL = ("Necessary conditions of 'every emitted version string is well-formed', decided on all paths of the rendering code: (R01.1) the sanitiser keeps only characters guarded by an ASCII-alphanumeric predicate; "
        "(R01.2) every string that Var/Component::resolve_value and the expanded-label resolvers can return is the result of Sanitizer::sanitize with the renderer's own sanitizer - all 19 Var kinds, literals, labels and custom keys, "
        "including kinds no fixture uses; (R01.3) free-text ZervVars fields (branch, hashes, custom) are read on the From<Zerv> paths only inside those resolvers; (R01.4) identifiers are pushed into pre_release / build_metadata / local "
        "only under a non-empty guard. Not decided: that zerv's parser re-accepts and re-renders the string unchanged; leading-zero freedom in general; that --output-prefix is a single line.")
ASSUME = ["Display of SemVer/PEP440 concatenates the identifiers with the separators checked in C08/C09"]
TRUST = ["rustc MIR", "zfacts", "rules/c01.py, san.py"]
