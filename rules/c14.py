"""C14 - output is deterministic and independent of the environment.
R14.1 clock reads confined and routed; R14.2 every chrono zone is Utc; R14.3 hasher seeds / unordered iteration;
R14.4 environment reads; R14.5 threads and mutable statics.  Effect confinement over the call closure of cli::app::run."""
import re
import core, mir

ROOT = "crate::cli::app::run"
PIPELINES = ("crate::cli::version::pipeline::run_version_pipeline", "crate::cli::flow::pipeline::run_flow_pipeline",
             "crate::cli::check::run_check_command", "crate::cli::render::pipeline::run_render")
CLOCK = ("chrono::Utc::now", "chrono::Local::now", "std::time::SystemTime::now", "std::time::Instant::now",
         "chrono::offset::Utc::now", "chrono::offset::Local::now", "chrono::Utc::today", "chrono::Local::today")
ENV_READ = ("std::env::var", "std::env::var_os", "std::env::vars", "std::env::vars_os", "std::env::home_dir", "std::env::temp_dir")
HASH_ITER = ("iter", "iter_mut", "keys", "values", "values_mut", "into_keys", "into_values", "drain", "into_iter", "retain", "extract_if")

def bad_zone(text):
    """non-UTC chrono zones / local-time APIs mentioned in a type or callee string"""
    out = []
    for m in re.finditer(r"chrono::DateTime<([^<>]*(?:<[^<>]*>)?[^<>]*)>", text):
        if m.group(1).strip() not in ("chrono::Utc", "Tz"): out.append("DateTime<%s>" % m.group(1))
    for pat in ("chrono::Local", "chrono::offset::Local", "chrono::FixedOffset", "chrono::offset::FixedOffset", "chrono_tz::", "libc::localtime", "libc::tzset", "chrono::NaiveDateTime::and_local_timezone"):
        if pat in text: out.append(pat)
    return out

def check(F, rep, tier):
    root = F.fn(ROOT)
    if not rep.anchor("R14", ROOT, root):
        return core.finish(rep, explanation=EXPL)
    cg = mir.CallGraph(F)
    reach = cg.closure([ROOT])
    local = [F.fns[p] for p in sorted(reach) if p in F.fns]
    rep.fn_seen(*local)
    rep.extra["reachable_local_functions"] = len(local)
    rep.floor("R14", "local functions reachable from run", len(local), 400)
    # ---- R14.1 clock ----------------------------------------------------------------
    n_clock = 0
    def judge(fv, bi):
        """where the value of the clock read in block bi of fv (a function with its local helpers spliced in) goes"""
        t = fv.blocks[bi]["t"]
        sinks = mir.forward_sinks(fv, t[3][0])
        kinds = {(s_[0], tuple(s_[1]) if s_[0] == "write" else s_[2] if s_[0] == "aggfield" else s_[1]) for s_ in sinks}
        if sinks and all(s_[0] == "aggfield" and s_[2] == "current_timestamp" for s_ in sinks): return "ts", None
        if sinks and all(s_[0] == "write" and s_[1][-1] == "bumped_timestamp" for s_ in sinks):
            why = []
            for s_ in sinks:
                gs = mir.guards_of(fv, s_[2])
                if not any(is_dirty_true(F, fv, g) for g in gs) and not dirty_some_true(fv, gs):
                    why.append("write in bb%d not guarded by dirty == Some(true) (guards: %s)" % (s_[2], [str(g[0][:2]) for g in gs]))
            return ("bumped", None) if not why else ("unguarded", why)
        if any(s_[0] == "ret" for s_ in sinks): return "ret", kinds
        return "escape", kinds
    for f in F.fns.values():     # every local function, reachable or not: a clock read has no business elsewhere either
        for bi, t in f.calls():
            if not mir.call_matches(t, CLOCK): continue
            n_clock += 1
            site = "%s bb%d line %s" % (f.where(), bi, f.blocks[bi]["line"])
            key = f.path.replace("crate::", "") + "#" + str(sum(1 for b2, t2 in f.calls() if b2 < bi and mir.call_matches(t2, CLOCK)))
            if not mir.call_matches(t, ("chrono::Utc::now", "chrono::offset::Utc::now")):
                rep.bad("R14.1", "clock-kind:" + key, "wall clock read through %s (only Utc::now is allowed)" % mir.callee(t), site); continue
            # the value may be handed to a private helper (spliced in), or this function may itself be a helper that returns it
            # (then it is judged in each caller, with this function spliced in)
            views = [(mir.inlined(F, f, depth=3), bi)]
            verdicts = []
            for hop in range(3):
                nxt = []
                for fv, b_ in views:
                    v, det = judge(fv, b_)
                    if v != "ret": verdicts.append((v, det, fv)); continue
                    base = F.fn(fv.path) or fv
                    callers = {g.path for g, b2 in cg.sites.get(base.path, [])}
                    if not callers: verdicts.append(("escape", det, fv)); continue
                    for cp in sorted(callers):
                        gi = mir.inlined(F, F.fn(cp), depth=4)
                        hits = [b2 for b2, t2 in gi.calls() if mir.call_matches(t2, CLOCK) and gi.blocks[b2].get("from") is not None and (gi.blocks[b2].get("orig") or (None, None))[0] == f.path and (gi.blocks[b2].get("orig") or (None, None))[1] == bi]
                        if not hits: verdicts.append(("escape", {("ret-into", cp)}, gi))
                        for b2 in hits: nxt.append((gi, b2))
                views = nxt
                if not views: break
            for fv, b_ in views: verdicts.append(("escape", {("ret", "beyond three helper levels")}, fv))
            if all(v == "ts" for v, det, fv in verdicts):
                rep.ok("R14.1", "clock read feeds only the template variable current_timestamp", sample=site, nontrivial_key=key)
            elif all(v == "bumped" for v, det, fv in verdicts):
                rep.ok("R14.1", "clock read feeds bumped_timestamp only under dirty == Some(true)", sample=site, nontrivial_key=key)
            elif any(v == "unguarded" for v, det, fv in verdicts):
                rep.bad("R14.1", "clock-unguarded:" + key, "the wall clock is written into bumped_timestamp without the dirty guard: %s" % [det for v, det, fv in verdicts if v == "unguarded"][0], site)
            else:
                kinds = set().union(*[det for v, det, fv in verdicts if v == "escape" and det])
                rep.bad("R14.1", "clock-escape:" + key, "a wall-clock read flows to %s (allowed: template variable current_timestamp; bumped_timestamp under dirty == Some(true))" % sorted(map(str, kinds)), site)
    rep.floor("R14.1", "clock read sites", n_clock, 2)
    # ---- R14.2 zone -------------------------------------------------------------------
    n_dt = 0
    if not bad_zone("chrono::DateTime<chrono::Local>") or not bad_zone("x chrono::FixedOffset y") or bad_zone("chrono::DateTime<chrono::Utc>"):
        raise core.CheckBroken("zone predicate self-test failed")
    rep.ok("R14.2", "positive control: predicate fires on DateTime<Local>/FixedOffset and is silent on DateTime<Utc>")
    for f in F.fns.values():
        texts = list(f.locals)
        for bi, t in f.calls():
            texts.append(t[1].get("full") or ""); texts += t[1].get("targs") or []
        hits = set()
        for tx in texts:
            if "chrono::DateTime<chrono::Utc>" in tx or "chrono::Utc" in tx: n_dt += 1
            for h in bad_zone(tx): hits.add(h)
        for h in sorted(hits):
            rep.bad("R14.2", "zone:%s:%s" % (f.path.replace("crate::", ""), h), "non-UTC time zone machinery in %s: %s" % (f.path, h), f.where())
    rep.floor("R14.2", "chrono Utc instantiations seen (rule not blind)", n_dt, 5)
    rep.ok("R14.2", "all %d chrono instantiations in local MIR are Utc" % n_dt, nontrivial_key="utc")
    # ---- R14.3 hasher seeds / unordered iteration -----------------------------------------
    n_hash = 0
    for f in F.fns.values():
        for bi, t in f.calls():
            full = t[1].get("full") or ""; names = mir.callee_names(t)
            site = "%s bb%d line %s" % (f.where(), bi, f.blocks[bi]["line"])
            fk = f.path.replace("crate::", "")
            if any("RandomState" in n for n in names) or any("RandomState::new" in n or "BuildHasher>::build_hasher" in n or "BuildHasher>::hash_one" in n for n in names):
                if "HashMap::<" in full or "HashSet::<" in full or "IndexMap" in full or "IndexSet" in full:
                    pass   # a map's own hashing is not observable without iteration (checked below)
                else:
                    rep.bad("R14.3", "random-hasher:" + fk, "a randomly seeded hasher is constructed/used: %s" % full, site)
            if "DefaultHasher" in full:
                n_hash += 1
                m = (t[1].get("decl") or "").rsplit("::", 1)[-1]
                if m in ("new", "default", "hash", "finish", "write", "write_u8", "write_u32", "write_u64", "write_usize", "hash_slice", "clone"):
                    rep.ok("R14.3", "DefaultHasher::%s (fixed keys)" % m, sample=site)
                else:
                    rep.bad("R14.3", "hasher-api:%s:%s" % (fk, m), "unexpected DefaultHasher API %s" % full, site)
            # iteration over std hash collections
            p = t[1].get("path") or t[1].get("decl") or ""
            m = p.rsplit("::", 1)[-1]
            is_std_hash = ("std::collections::HashMap::<" in p or "std::collections::HashSet::<" in p or "std::collections::hash::" in p)
            into_iter_on_hash = (m == "into_iter" and ("std::collections::HashMap<" in full or "std::collections::HashSet<" in full))
            iter_types = any(x in full for x in ("std::collections::hash_map::", "std::collections::hash_set::", "std::collections::hash::map::", "std::collections::hash::set::"))
            if (is_std_hash and m in HASH_ITER) or into_iter_on_hash or iter_types:
                rep.bad("R14.3", "hash-iteration:%s:%s" % (fk, m), "iteration over a std HashMap/HashSet (order depends on a per-process random seed): %s" % full, site)
    rep.floor("R14.3", "DefaultHasher call sites", n_hash, 3)
    rep.ok("R14.3", "no iteration over std HashMap/HashSet in %d local functions" % len(F.fns), nontrivial_key="noiter")
    # ---- R14.4 environment ---------------------------------------------------------------------
    pipe_reach = cg.closure([p for p in PIPELINES if p in F.fns])
    miss = [p for p in PIPELINES if p not in F.fns]
    for p in miss: rep.bad("R14.4", "anchor-missing:" + p, "pipeline entry point not found: " + p)
    n_env = 0
    for f in local:
        for bi, t in f.calls():
            site = "%s bb%d line %s" % (f.where(), bi, f.blocks[bi]["line"])
            fk = f.path.replace("crate::", "")
            if mir.call_matches(t, ENV_READ):
                n_env += 1
                var = mir.sym_value(F, f, t[2][0]) if t[2] else "?"
                if f.path in pipe_reach:
                    rep.bad("R14.4", "env-in-pipeline:%s:%s" % (fk, var), "environment variable %s is read inside a pipeline (output would depend on the environment)" % var, site)
                else:
                    rep.ok("R14.4", "env read of %s outside the pipelines (%s)" % (var, fk), sample=site, nontrivial_key=fk + var)
            if mir.call_matches(t, ("std::env::current_dir",)):
                n_env += 1
                ok, why = current_dir_ok(F, f, bi)
                if ok: rep.ok("R14.4", "current_dir only when no directory was given / to absolutise a relative path (%s)" % fk, sample=why, nontrivial_key=fk + "cwd")
                else: rep.bad("R14.4", "cwd:" + fk, "current_dir() used unconditionally: " + why, site)
            if mir.call_matches(t, ("std::env::args", "std::env::args_os")) and f.path != ROOT:
                top = f
                while top.kind == "closure" and top.parent and F.fn(top.parent) is not None: top = F.fn(top.parent)
                callers = {g.path for g, b2 in cg.sites.get(top.path, [])}
                if top.path == ROOT or (callers and callers <= mir.private_helpers_of(F, cg, ROOT, "crate::cli::app::")):
                    rep.ok("R14.4", "process arguments are read by run() (through its private helper %s)" % top.path.rsplit("::", 1)[-1], sample=site, nontrivial_key="args" + fk)
                    continue
                rep.bad("R14.4", "args:" + fk, "process arguments read outside run()", site)
    rep.floor("R14.4", "environment access sites examined", n_env, 4)
    # ---- R14.5 threads / mutable statics ----------------------------------------------------------
    for f in local:
        for bi, t in f.calls():
            if mir.call_matches(t, ("std::thread::spawn", "std::thread::Builder", "std::thread::scope", "rayon::", "tokio::")):
                rep.bad("R14.5", "thread:" + f.path.replace("crate::", ""), "a thread is spawned: %s" % mir.callee(t), f.where())
    statics = [f for f in F.fns.values() if f.kind == "static"]
    for s in statics:
        ty = s.d.get("ret", "")
        if ty.startswith("std::sync::LazyLock<") or ty.startswith("&") or ty.startswith("[&str") or ty in ("&str",):
            rep.ok("R14.5", "static %s: %s" % (s.path.replace("crate::", ""), ty[:60]))
        elif ty.startswith("std::sync::OnceLock<") or ty.startswith("once_cell::sync::OnceCell<") or ty.startswith("once_cell::sync::Lazy<"):
            rep.ok("R14.5", "write-once static %s: %s" % (s.path.replace("crate::", ""), ty[:60]))
        elif any(x in ty for x in ("Mutex", "RwLock", "Atomic", "Cell<", "RefCell", "UnsafeCell")):
            rep.bad("R14.5", "mutable-static:" + s.path.replace("crate::", ""), "interior-mutable static of type %s" % ty, s.where())
        else:
            rep.ok("R14.5", "static %s: %s" % (s.path.replace("crate::", ""), ty[:60]))
    rep.ok("R14.5", "no thread spawn in %d reachable functions" % len(local), nontrivial_key="nothreads")
    # ---- R14.6 dependencies: what is read from other programs does not depend on the locale or on logging settings ---------------
    # ---- R14.8 the template engine's own environment-reading built-ins are not reachable from a user template -----------------------
    # `Tera::default()` registers now() (local wall clock), get_env() and get_random(); a user-supplied --output-template can call them
    # unless zerv registers functions of the same names over them (Tera has no way to remove one).
    tera_ctor = []; registered = set()
    for p_, g_ in sorted(F.fns.items()):
        if "crate::cli::utils::template::" not in p_ or "::tests" in p_: continue
        for bi, t in g_.calls():
            c_ = mir.callee(t) or ""
            if c_.endswith("tera::Tera::default") or c_.endswith("Tera as std::default::Default>::default") or c_.endswith("tera::Tera::new"): tera_ctor.append((g_, bi))
            if c_.endswith("Tera::register_function") and len(t[2]) > 1:
                v = mir.const_arg(g_, t[2][1])
                if isinstance(v, str): registered.add(v)
    rep.floor("R14.8", "Tera instances built in the template module", len(tera_ctor), 1)
    rep.floor("R14.8", "template functions registered by zerv", len(registered), 6)
    open_ = sorted({"now", "get_env", "get_random"} - registered)
    for g_, bi in tera_ctor:
        fk = g_.path.replace("crate::", "")
        top = fk.split("::{closure")[0]
        if open_: rep.bad("R14.8", "tera-builtin-effects:" + top.rsplit("::", 1)[-1], "%s builds the engine with Tera's default function set and does not cover %s: a user template can read the local wall clock, the environment and a random generator (`{{ now() }}`, `{{ get_env(name=\"HOME\") }}`, `{{ get_random(start=0, end=9) }}`), so the output is not a function of the repository state and the arguments" % (top, open_), "%s bb%d" % (g_.where(), bi))
        else: rep.ok("R14.8", "Tera's now / get_env / get_random are replaced by functions zerv registers", nontrivial_key="builtins" + fk)
    # ---- R14.7 every git process runs in the repository directory (-C), not in the caller's working directory ------------------------
    ngit = 0
    for p_, g_ in sorted(F.fns.items()):
        if "crate::vcs::" not in p_ or "::tests" in p_: continue
        news = [(bi, t) for bi, t in g_.calls() if (mir.callee(t) or "").endswith("process::Command::new") and t[2] and mir.const_arg(g_, t[2][0]) == "git"]
        if not news: continue
        ngit += len(news)
        has_dir = any((mir.callee(t) or "").endswith("process::Command::current_dir") for bi, t in g_.calls())
        argv_consts = [mir.const_arg(g_, t[2][1]) for bi, t in g_.calls() if (mir.callee(t) or "").endswith("process::Command::arg") and len(t[2]) > 1]
        site = g_.where(); fk = p_.replace("crate::", "")
        if has_dir: rep.ok("R14.7", "%s runs git with current_dir(<repository path>)" % fk.rsplit("::", 1)[-1], sample=site, nontrivial_key="gitdir" + fk)
        elif argv_consts and all(a_ in ("--version", "version") for a_ in argv_consts) and not any((mir.callee(t) or "").endswith("process::Command::args") for bi, t in g_.calls()):
            rep.ok("R14.7", "%s only asks `git --version` (no repository involved)" % fk.rsplit("::", 1)[-1], sample=site, nontrivial_key="gitver" + fk)
        else:
            rep.bad("R14.7", "git-in-callers-cwd:" + fk, "%s starts git without current_dir: the answer is taken from the process's working directory, not from the repository given with -C (from another repository with a tag of the same name the values of THAT repository are reported)" % fk, site)
    rep.floor("R14.7", "git process constructions in crate::vcs", ngit, 2)
    core.borrow(F, rep, "c02", "C02", "R14.6", ("R02.4:argv:", "R02.4:unlisted-git-call"), "every git invocation is one of the audited machine-readable forms (format strings, --porcelain, --show-current): none parses text git translates")
    core.borrow(F, rep, "c18", "C18", "R14.6", ("R18.4:", "R18.5:", "R18.6:shared-argument-list"), "the Python wrapper returns the command's stdout only (stderr carries RUST_LOG-dependent, time-stamped log lines)")
    return core.finish(rep, explanation=EXPL, assumptions=ASSUME, trusted=TRUST)

def is_dirty_true(F, f, g):
    desc, pol, d = g
    if desc[0] != "call" or pol is not True: return False
    if not (desc[1] or "").endswith("::eq"): return False
    t = desc[2]
    texts = [mir.sym_value(F, f, a) for a in t[2]]
    has_dirty = any(tx.endswith(".dirty") or ".dirty" in tx for tx in texts)
    has_true = any("Some(True)" in tx or "Some(true)" in tx for tx in texts)
    return has_dirty and has_true

def dirty_some_true(f, gs):
    """`matches!(self.vars.dirty, Some(true))` / `if let Some(true) = ..`: the Option's discriminant is Some and its payload is true"""
    some = payload = False
    for desc, pol, d in gs:
        if desc[0] == "discr" and isinstance(pol, tuple) and pol[0] == "in" and set(pol[1]) == {"Some"} and any("dirty" in o.path_str() for o in mir.trace_place(f, desc[1])): some = True
        if desc[0] == "place" and pol is True and any(not isinstance(e, str) and e[0] == "f" and e[2] == "dirty" for e in desc[1][1:]) and any(not isinstance(e, str) and e[0] == "d" and e[1] == "Some" for e in desc[1][1:]): payload = True
        if pol is True and desc[0] not in ("call", "discr", "bin") and any("dirty" in o.path_str() for o in (mir.trace_place(f, desc[1]) if len(desc) > 1 and isinstance(desc[1], list) else [])): payload = True
    return some and payload

def current_dir_ok(F, f, bi):
    gs = mir.guards_of(f, bi)
    for desc, pol, d in gs:
        if desc[0] == "discr" and isinstance(pol, tuple):
            # match on Option<dir>: None arm
            os = mir.trace_place(f, desc[1])
            if any("directory" in o.path_str() for o in os) and ((pol[0] == "in" and pol[1] == frozenset({"None"})) or (pol[0] == "not" and "Some" in pol[1])):
                return True, "under `directory` is None"
        if desc[0] == "call" and (desc[1] or "").endswith("Path::is_absolute") and pol is False:
            return True, "under !path.is_absolute()"
        if desc[0] == "call" and (desc[1] or "").endswith("Path::is_relative") and pol is True:
            return True, "under path.is_relative()"
    return False, "guards: %s" % [str(g[0][:2]) for g in gs]

EXPL = ("Effect confinement over all local MIR (and the call closure of cli::app::run): (R14.1) every wall-clock read is Utc::now and its value flows only into the template variable "
        "current_timestamp or into bumped_timestamp under the dominating guard dirty == Some(true); (R14.2) every chrono::DateTime/TimeZone instantiation in local types and callee generics is Utc, "
        "no Local/FixedOffset/chrono_tz/libc time API appears (predicate self-tested each run); (R14.3) hashers are DefaultHasher::new/default only and no std HashMap/HashSet is iterated; "
        "(R14.4) no environment variable is read in the call closure of the four pipelines, current_dir() is used only when no -C was given or to absolutise a relative path, argv is read only in run(); "
        "(R14.5) no thread is spawned and no interior-mutable static other than LazyLock exists. Not decided: git's own dependence on LANG/GIT_*; stability of DefaultHasher across toolchains.")
ASSUME = ["dependencies (chrono, tera, ron, clap) do not read the clock, TZ or environment on the paths zerv uses, other than through the calls visible here",
          "DefaultHasher::new() uses fixed keys (documented)"]
TRUST = ["rustc MIR + trait resolution", "zfacts exporter (callee resolution, type printing)", "rules/c14.py, mir.py"]
