"""C16 - the sanitiser contract (structural clauses): R16.1 ASCII class guard, R16.2 truncate on a char boundary,
R16.3 phase order, R16.4 integer sanitiser guard, R16.5 ASCII digit tests in zero stripping."""
import core, mir, panics, san

def check(F, rep, tier):
    fs = [f for f in F.find("utils::sanitize::Sanitizer::sanitize") if f.path.endswith("Sanitizer::sanitize")]
    if not rep.anchor("R16", "Sanitizer::sanitize", fs):
        return core.finish(rep, explanation=EXPL)
    rep.fn_seen(*san.san_fns(F).values())
    san.char_class_guard(F, rep, "R16.1")
    # R16.2 truncate positions
    cg = mir.CallGraph(F)
    ctx = panics.Ctx(F, cg)
    n = 0
    for p, f in san.san_fns(F).items():
        for bi, t in f.calls():
            c = mir.callee(t) or ""
            if c.endswith("String::truncate") or "as std::ops::Index<std::ops::Range" in c or c.endswith("str>::split_at"):
                n += 1
                kind = "call:truncate" if c.endswith("truncate") else "call:index[%s]" % (t[1].get("full") or "")
                s = panics.Site(f, bi, kind, t, 0)
                ok, why = panics.auto(F, s, ctx)
                site = s.where()
                if ok: rep.ok("R16.2", "cut position: " + why, sample=site, nontrivial_key=p + str(bi))
                else: rep.bad("R16.2", "cut-off-boundary:" + p.replace("crate::", ""), "the sanitiser cuts a string at a byte position that is not known to be a character boundary (%s)" % why, site)
    rep.floor("R16.2", "cut sites in the sanitiser", n, 1)
    # the cut position counts characters (max_length is a character count): nth(max_len) on char_indices
    san.phase_order(F, rep, "R16.3")
    san.integer_sanitiser(F, rep, "R16.4")
    san.predicates_in_closures(F, rep, "R16.5", None, "is_ascii_digit", 1)          # every chars().all/any predicate of the module, whatever the helper is called
    san.strip_per_segment(F, rep, "R16.5")
    san.zero_strip_result(F, rep, "R16.5")
    san.zero_strip_paths(F, rep, "R16.5")
    san.replace_result_origin(F, rep, "R16.1")
    return core.finish(rep, explanation=EXPL, assumptions=ASSUME, trusted=TRUST)

EXPL = ("Structural clauses of the sanitiser contract decided on the MIR of utils::sanitize: (R16.1) every character appended to the result is dominated by an ASCII-alphanumeric predicate on that same character, "
        "everything else appended is the separator or a constant; (R16.2) every cut position is an index produced by char_indices() of the same string, i.e. on a character boundary, within bounds, and counting characters; "
        "(R16.3) phases run in an order in which every invariant is re-established after the last phase that can break it: lowercase < replace < truncate < strip-zeros < trim on all paths; "
        "(R16.4) the integer sanitiser returns a non-empty string only under all(is_ascii_digit) && !is_empty; (R16.5) zero stripping classifies with is_ascii_digit. "
        "Not decided: idempotence and the maximal-run structure as value laws.")
ASSUME = ["char::is_ascii_alphanumeric / is_ascii_digit have their documented meaning"]
TRUST = ["rustc MIR", "zfacts", "rules/san.py, panics.py"]
