"""C16 - the sanitiser contract (structural clauses): R16.1 ASCII class guard, R16.2 truncate on a char boundary,
R16.3 phase order, R16.4 integer sanitiser guard, R16.5 ASCII digit tests in zero stripping."""
import core, mir, panics, san

def check(F, rep, tier):
    fs = [f for f in F.find("utils::sanitize::Sanitizer::sanitize") if f.path.endswith("Sanitizer::sanitize")]
    if not rep.anchor("R16", "Sanitizer::sanitize", fs):
        return core.finish(rep, explanation=EXPL)
    rep.fn_seen(*san.san_fns(F).values())
    san.char_class_guard(F, rep, "R16.1")
    # R16.2 truncate positions
    cg = mir.CallGraph(F)
    ctx = panics.Ctx(F, cg)
    n = 0
    for p, f in san.san_fns(F).items():
        for bi, t in f.calls():
            c = mir.callee(t) or ""
            if c.endswith("String::truncate") or "as std::ops::Index<std::ops::Range" in c or c.endswith("str>::split_at"):
                n += 1
                kind = "call:truncate" if c.endswith("truncate") else "call:index[%s]" % (t[1].get("full") or "")
                s = panics.Site(f, bi, kind, t, 0)
                ok, why = panics.auto(F, s, ctx)
                site = s.where()
                if ok: rep.ok("R16.2", "cut position: " + why, sample=site, nontrivial_key=p + str(bi))
                else: rep.bad("R16.2", "cut-off-boundary:" + p.replace("crate::", ""), "the sanitiser cuts a string at a byte position that is not known to be a character boundary (%s)" % why, site)
    rep.floor("R16.2", "cut sites in the sanitiser", n, 1)
    # the cut position counts characters (max_length is a character count): nth(max_len) on char_indices
    san.phase_order(F, rep, "R16.3")
    san.integer_sanitiser(F, rep, "R16.4")
    san.predicates_in_closures(F, rep, "R16.5", None, "is_ascii_digit", 1)          # every chars().all/any predicate of the module, whatever the helper is called
    san.strip_per_segment(F, rep, "R16.5")
    san.zero_strip_result(F, rep, "R16.5")
    san.zero_strip_paths(F, rep, "R16.5")
    san.replace_result_origin(F, rep, "R16.1")
    san.phase_guards(F, rep, "R16.7")
    wrapper_rules(F, rep)
    core.borrow(F, rep, "c15", "C15", "R16.6", ("R15.5:custom-params-detection",), "the template function builds a custom sanitiser whenever one of the four settings is given, whatever its value")
    return core.finish(rep, explanation=EXPL, assumptions=ASSUME, trusted=TRUST)

ALTERING = ("::filter", "::and_then", "::or", "::or_else", "::xor", "::min", "::max", "::then", "::then_some", "::take", "::skip", "::collect", "::trim", "::trim_end",
            "::trim_start", "::trim_matches", "::trim_end_matches", "::trim_start_matches", "::replace", "::to_lowercase", "::to_uppercase", "::truncate", "::parse",
            "::saturating_sub", "::saturating_add", "::clamp", "::unwrap_or_default", "::zip", "::rev", "::split", "::join")

def template_value_rule(F, rep, rule, scope=None):
    """the text the template function sanitize(..) hands to the sanitiser is its `value` argument as given (shared with C15)"""
    if scope is None:
        tf = F.fn("crate::cli::utils::template::functions::sanitize_function")
        if not rep.anchor(rule, "template function sanitize()", tf): return
        ti = mir.inlined(F, tf, depth=2, keep=("sanitize", "str", "semver_str", "pep440_local_str", "uint", "key", "get_string_value"))
        scope = [ti] + mir.closures_in(F, ti)
    # (c) the text that is sanitised is the `value` argument itself: cutting it first (take / truncate / a slice) is not the contract's
    #     cut, which counts characters of the RESULT after separator runs have been collapsed
    CUTS = ("::take", "::truncate", "::skip", "::split_at", "::drain", "::split_off", "::pop", "::trim", "::trim_start", "::trim_end", "::to_lowercase", "::to_uppercase", "::replace", "::char_indices", "::nth")
    nval = 0
    for h in scope:
        for bi, t in h.calls():
            if not (mir.callee(t) or "").endswith("sanitize::Sanitizer::sanitize") or len(t[2]) < 2: continue
            nval += 1
            site = "%s bb%d line %s" % (h.where(), bi, h.blocks[bi]["line"])
            cuts = set(); sliced = False
            for k, d in mir.deep_origins(h, t[2][1], stop=()):
                if k == "call" and d.isdigit() and h.blocks[int(d)]["t"][0] == "call":
                    c2 = mir.callee(h.blocks[int(d)]["t"]) or ""
                    if any(c2.endswith(x) for x in CUTS): cuts.add(c2.rsplit("::", 1)[-1])
                    if "Index<" in (h.blocks[int(d)]["t"][1].get("full") or "") and "Range" in (h.blocks[int(d)]["t"][1].get("full") or ""): sliced = True
            if cuts or sliced: rep.bad(rule, "template-value-precut", "sanitize(..) hands the sanitiser a text that went through %s first: `a//bcd` with max_length 4 gives a-b instead of a-bc (the cut belongs to the sanitiser, after separator runs are collapsed)" % (sorted(cuts) + (["a slice"] if sliced else [])), site)
            else: rep.ok(rule, "sanitize(..) sanitises its value argument as given", sample=site, nontrivial_key="val%s%d" % (h.path[-12:], bi))
    rep.floor(rule, "Sanitizer::sanitize calls in the template function", nval, 1)

def wrapper_rules(F, rep):
    """R16.6: the two ways the contract's settings reach the sanitiser do not alter them: the constructor Sanitizer::str stores its
    parameters as given, and the template function sanitize(..) forwards its arguments to that constructor and returns the
    sanitised text itself (a string, not re-cut, not re-typed)."""
    rule = "R16.6"
    ctor = F.fn("crate::utils::sanitize::Sanitizer::str")
    if rep.anchor(rule, "Sanitizer::str", ctor):
        rep.fn_seen(ctor)
        ci = mir.inlined(F, ctor, depth=2)
        nset = 0
        # first by evaluation: the struct the constructor returns for symbolic parameters (sees through `..Self::base()` updates)
        evaluated = None
        try:
            import absint
            v = absint.Eval(F, {}).fn_eval(ctor, [("sym", "p%d" % i) for i in range(1, ctor.nargs + 1)])
            if isinstance(v, tuple) and v[0] == "struct": evaluated = v[2]
        except Exception:
            evaluated = None
        if evaluated is not None and all(k in evaluated for k in ("separator", "lowercase", "keep_zeros", "max_length")):
            want_sym = {"lowercase": "p2", "keep_zeros": "p3", "max_length": "p4"}
            for nm in ("separator", "lowercase", "keep_zeros", "max_length"):
                nset += 1
                x = evaluated[nm]
                txt = x[1] if isinstance(x, tuple) and x[0] == "sym" else repr(x)
                if nm == "separator":
                    import re as _re
                    good = isinstance(x, tuple) and x[0] == "sym" and (txt == "p1" or txt.startswith("map(p1, "))
                    # the mapped function only converts &str to String
                    for cpath in _re.findall(r"'(crate::[^']+)'", txt):
                        c_ = F.fn(cpath)
                        if c_ is None or any(not any((mir.callee(t) or "").endswith(y) for y in ("::to_string", "::to_owned", "::into", "String::from", "From<&str>>::from", "::clone")) for b_, t in c_.calls()): good = False
                else: good = isinstance(x, tuple) and x[0] == "sym" and txt == want_sym[nm]
                if good: rep.ok(rule, "Sanitizer::str stores %s as given" % nm, sample=ctor.where(), nontrivial_key="ctor" + nm)
                elif any(a.strip("::") in txt for a in ALTERING): rep.bad(rule, "ctor-alters:" + nm, "Sanitizer::str passes %s through `%s` before storing it: some settings (e.g. max_length = 0) are replaced by others" % (nm, txt[:80]), ctor.where())
                else: rep.bad(rule, "ctor-wiring:" + nm, "Sanitizer::str stores `%s` in %s, expected its own parameter" % (txt[:80], nm), ctor.where())
            ci = None
        for bi, si, st in (ci.stmts() if ci is not None else []):
            if not (st[0] == "=" and st[2][0] == "agg" and (st[2][1].get("adt") or "").endswith("sanitize::Sanitizer")): continue
            for nm, op in zip(st[2][1]["fields"], st[2][2]):
                if nm not in ("separator", "lowercase", "keep_zeros", "max_length"): continue
                nset += 1
                site = "%s bb%d line %s" % (ci.where(), bi, ci.blocks[bi]["line"])
                calls = set(); params = set()
                for k, d in mir.deep_origins(ci, op, stop=()):
                    if k == "call" and d.isdigit() and ci.blocks[int(d)]["t"][0] == "call": calls.add(mir.callee(ci.blocks[int(d)]["t"]) or "?")
                    elif k == "param": params.add(int(d))
                want = {"separator": 1, "lowercase": 2, "keep_zeros": 3, "max_length": 4}[nm]
                alter = sorted(c.rsplit("::", 1)[-1] for c in calls if any(c.endswith(x) for x in ALTERING))
                other = sorted(c.rsplit("::", 1)[-1] for c in calls if not any(c.endswith(x) for x in ALTERING) and not (nm == "separator" and (c.endswith("Option::<T>::map") or c.endswith("::to_string") or c.endswith("::to_owned") or c.endswith("::into") or c.endswith("String::from") or "From<" in c)))
                if alter: rep.bad(rule, "ctor-alters:" + nm, "Sanitizer::str passes %s through %s before storing it: some settings (e.g. max_length = 0) are replaced by others" % (nm, alter), site)
                elif params != {want}: rep.bad(rule, "ctor-wiring:" + nm, "Sanitizer::str fills %s from parameter(s) %s, expected parameter %d" % (nm, sorted(params), want), site)
                elif other: rep.undecided(rule, "ctor-shape:" + nm, "%s is computed through %s" % (nm, other), site)
                else: rep.ok(rule, "Sanitizer::str stores %s as given" % nm, sample=site, nontrivial_key="ctor" + nm)
        rep.floor(rule, "settings stored by Sanitizer::str", nset, 4)
    tf = F.fn("crate::cli::utils::template::functions::sanitize_function")
    if rep.anchor(rule, "template function sanitize()", tf):
        rep.fn_seen(tf)
        ti = mir.inlined(F, tf, depth=2, keep=("sanitize", "str", "semver_str", "pep440_local_str", "uint", "key", "get_string_value"))
        scope = [ti] + mir.closures_in(F, ti)
        # (a) the four settings handed to Sanitizer::str come from the template arguments of the same name
        nfw = 0
        for bi, t in ti.calls():
            if (mir.callee(t) or "") != "crate::utils::sanitize::Sanitizer::str" or len(t[2]) != 4: continue
            for nm, a in zip(("separator", "lowercase", "keep_zeros", "max_length"), t[2]):
                nfw += 1
                site = "%s bb%d line %s" % (ti.where(), bi, ti.blocks[bi]["line"])
                keys = set(); alter = set()
                for k, d in mir.deep_origins(ti, a, stop=()):
                    if k == "call" and d.isdigit() and ti.blocks[int(d)]["t"][0] == "call":
                        t2 = ti.blocks[int(d)]["t"]; c2 = mir.callee(t2) or ""
                        if c2.endswith("HashMap<K, V, S>::get") or c2.endswith("::get_string_value") or c2.endswith("::get"):
                            for a2 in t2[2][1:]:
                                v = mir.const_arg(ti, a2)
                                if isinstance(v, str): keys.add(v)
                        if any(c2.endswith(x) for x in ("::filter", "::min", "::max", "::saturating_sub", "::clamp", "::or", "::xor")): alter.add(c2.rsplit("::", 1)[-1])
                if alter: rep.bad(rule, "template-arg-altered:" + nm, "sanitize(..) passes its %s argument through %s before building the sanitiser" % (nm, sorted(alter)), site)
                elif keys == {nm}: rep.ok(rule, "sanitize(..): %s is forwarded to Sanitizer::str" % nm, sample=site, nontrivial_key="fw" + nm)
                elif not keys: rep.bad(rule, "template-arg-dropped:" + nm, "sanitize(..) builds its sanitiser without the %s argument it was given (a constant is passed instead): the setting is not applied inside the sanitiser, so whatever is done about it afterwards is not followed by the clean-up phases" % nm, site)
                else: rep.bad(rule, "template-arg-wiring:" + nm, "sanitize(..) fills %s from the template argument(s) %s" % (nm, sorted(keys)), site)
        rep.floor(rule, "settings forwarded by the template function", nfw, 4)
        template_value_rule(F, rep, rule, scope)
        # (b) what is returned is Value::String(<result of Sanitizer::sanitize>)
        nret = 0
        for h in scope:
            for bi, si, st in h.stmts():
                if not (st[0] == "=" and st[2][0] == "agg" and st[2][1].get("k") == "adt" and (st[2][1].get("adt") or "").endswith("Value") and st[2][1].get("variant") not in (None, "Ok", "Err")): continue
                adt = st[2][1]["adt"]
                if not ("serde_json" in adt or "tera" in adt): continue
                nret += 1
                site = "%s bb%d line %s" % (h.where(), bi, h.blocks[bi]["line"])
                if st[2][1]["variant"] != "String":
                    rep.bad(rule, "template-result-retyped", "sanitize(..) returns a Value::%s: the sanitised text is converted to another type (a number drops kept leading zeros)" % st[2][1]["variant"], site); continue
                calls = set()
                for k, d in mir.deep_origins(h, st[2][2][0], stop=()):
                    if k == "call" and d.isdigit() and h.blocks[int(d)]["t"][0] == "call": calls.add(mir.callee(h.blocks[int(d)]["t"]) or "?")
                direct = {mir.callee(o.fn.blocks[o.data]["t"]) or "?" for o in mir.trace_op(h, st[2][2][0], transparent=()) if o.kind == "call"}
                post = sorted(c.rsplit("::", 1)[-1] for c in direct if not c.endswith("Sanitizer::sanitize"))
                if not direct: rep.undecided(rule, "template-result-shape", "the returned string is not a call result", site)
                elif not post: rep.ok(rule, "sanitize(..) returns the sanitiser's result unchanged (Value::String)", sample=site, nontrivial_key="ret%d" % bi)
                elif any(("::" + x) in ALTERING for x in post): rep.bad(rule, "template-result-postprocessed", "sanitize(..) passes the sanitised text through %s before returning it: what the sanitiser guarantees (no trailing separator, no zero-led digit segment, idempotence) need not hold for the cut text" % post, site)
                else: rep.undecided(rule, "template-result-shape", "the returned string comes from %s" % post, site)
        rep.floor(rule, "values returned by the template function", nret, 1)

EXPL = ("Structural clauses of the sanitiser contract decided on the MIR of utils::sanitize: (R16.1) every character appended to the result is dominated by an ASCII-alphanumeric predicate on that same character, "
        "everything else appended is the separator or a constant; (R16.2) every cut position is an index produced by char_indices() of the same string, i.e. on a character boundary, within bounds, and counting characters; "
        "(R16.3) phases run in an order in which every invariant is re-established after the last phase that can break it: lowercase < replace < truncate < strip-zeros < trim on all paths; "
        "(R16.4) the integer sanitiser returns a non-empty string only under all(is_ascii_digit) && !is_empty; (R16.5) zero stripping classifies with is_ascii_digit. "
        "Not decided: idempotence and the maximal-run structure as value laws.")
ASSUME = ["char::is_ascii_alphanumeric / is_ascii_digit have their documented meaning"]
TRUST = ["rustc MIR", "zfacts", "rules/san.py, panics.py"]
