"""C02 - git state extraction is faithful to the repository history (thin: only what lives in the Rust source).
R02.1 VcsData -> ZervVars wiring; R02.2 no tag => error; R02.3 producer wiring in get_vcs_data; R02.4 git argv tokens;
R02.5 reachable-only, first hit, max by version order; R02.6 dirty polarity.  The git layer is never executed by the offline suite."""
import re
import core, mir, clapx, panics

G = "crate::vcs::git::GitVcs::"
MAP = "crate::pipeline::vcs_data_to_zerv_vars::vcs_data_to_zerv_vars"

# helper -> (required tokens, forbidden tokens); order and extra harmless flags are free
ARGV = {
    "get_commits_in_topo_order#0": (["rev-list", "--topo-order", "HEAD"], ["--all", "--reverse", "--date-order", "--author-date-order"]),
    "get_commits_in_topo_order#1": (["--tags", "--no-walk", "%H"], ["--all"]),
    # the listing must not depend on the repository's configuration (column.ui = always prints several tags per line: fix 2 of round 5) and a
    # tag must be named unambiguously (%(refname:short) prints tags/<name> when a branch has the same name)
    "get_all_tags_from_commit_hash#0": ([["tag", "--points-at", "--no-column"], ["tag", "--points-at", "--column=never"], ["for-each-ref", "--points-at", "refs/tags", "strip=2"]],
                                        ["--merged", "--contains", "--no-contains", "refname:short"]),
    # the count is over every commit reachable from HEAD and not from the tag: no option that thins out or cuts the walk
    "calculate_distance#0": (["rev-list", "--count"], ["--all", "--first-parent", "--no-merges", "--merges", "--ancestry-path", "--max-count", "-n", "--skip", "--since", "--until", "--after", "--before",
                                                       "--no-walk", "--boundary", "--left-right", "--cherry-pick", "--cherry-mark", "--simplify-by-decoration", "--min-parents", "--max-parents", "--author", "--grep"]),
    "get_commit_hash#0": ([["rev-parse", "HEAD"], ["rev-list", "-n", "1", "HEAD"], ["log", "-1", "%H"]], ["--short", "%h"]),
    "get_current_branch#0": ([["branch", "--show-current"], ["symbolic-ref", "--short", "HEAD"]], []),
    "get_commit_timestamp#0": ([["log", "-1", "%ct"], ["log", "-n", "1", "%ct"], ["show", "-s", "%ct"]], ["%at", "%ad", "%cd"]),
    "get_tag_timestamp#0": (["%ct"], ["%at", "%ad"]),
    # alternatives: a list of lists is "any one of these token sets" (equivalent git spellings of the same question)
    "get_tag_commit_hash#0": ([["rev-list", "-n", "1"], ["rev-list", "-1"], ["rev-list", "--max-count=1"], ["rev-parse", "^{commit}"], ["rev-parse", "^{}"]], []),
    # untracked files are asked for explicitly: status.showUntrackedFiles = no would hide them (round 5)
    "is_dirty#0": ([[st, fmt_, u] for st in ("status",) for fmt_ in ("--porcelain", "--short", "-s") for u in ("--untracked-files=normal", "--untracked-files=all", "-unormal", "-uall")],
                   ["-uno", "--untracked-files=no", "--ignored", "--ignore-submodules"]),
}

def argv_of(F, f, t):
    """constant tokens of the &[&str] argv passed to run_git_command, plus the literal pieces of formatted elements"""
    toks = []
    for o in mir.trace_op(f, t[2][1], transparent=()):
        if o.kind == "agg":
            rv = mir.rv_at(o.fn, *o.data)
            for a in rv[2]:
                c = mir.const_arg(o.fn, a)
                if isinstance(c, str): toks.append(c)
                else:
                    # format!("{tag}..HEAD") and friends
                    lits = []
                    for o2 in mir.trace_op(o.fn, a, transparent=mir.TRANSPARENT + ("std::hint::must_use",)):
                        if o2.kind == "call" and (mir.callee(o2.fn.blocks[o2.data]["t"]) or "").endswith("fmt::format"):
                            for b2, pieces in mir.fmt_templates(o2.fn):
                                lits.append(("fmt", pieces))
                    if lits: toks.append(lits[0])
                    else: toks.append(("dyn", panics.okey(o.fn, a)[:60]))
        elif o.kind == "const" and o.data.get("k") == "promoted":
            body = F.fn("%s::promoted[%d]" % (o.data["of"], o.data["idx"]))
            vals = clapx.const_str_array(F, body, ["cp", [0]]) if body is not None else None
            if vals: toks += vals
    return toks

def check(F, rep, tier):
    m = F.fn(MAP)
    # ---- R02.1 / R02.2 ---------------------------------------------------------------------------------
    if rep.anchor("R02.1", "vcs_data_to_zerv_vars", m):
        rep.fn_seen(m)
        # helpers of the conversion module (parse_tag_version(..), with_hash_prefix(..)) are seen through
        m = mir.inlined(F, m, depth=3, ok=lambda F_, caller, cp, g: g is not None and g.kind != "closure" and cp.startswith("crate::pipeline::vcs_data_to_zerv_vars"))
        want = {"distance": {"distance"}, "bumped_branch": {"current_branch"}, "dirty": {"is_dirty"}, "bumped_commit_hash": {"commit_hash_prefix", "commit_hash"},
                "last_commit_hash": {"commit_hash_prefix", "tag_commit_hash"}, "bumped_timestamp": {"commit_timestamp"}, "last_timestamp": {"tag_timestamp"}, "last_tag_version": {"tag_version"}}
        got = {}
        for bi, si, st in m.stmts():
            if st[0] != "=" or len(st[1]) < 2: continue
            fl = [e for e in st[1][1:] if not isinstance(e, str) and e[0] == "f"]
            if not fl or not fl[-1][3].endswith("vars::ZervVars"): continue
            VCSF = {"commit_hash", "commit_hash_prefix", "commit_timestamp", "is_dirty", "current_branch", "distance", "tag_version", "tag_timestamp", "tag_commit_hash"}
            def comps(x):
                # "vcs_data.tag_version", "tag_version.as Some.0" (after `let VcsData { tag_version, .. } = vcs_data`), ...
                parts = [p_ for p_ in re.split(r"[.\s]+", x) if p_]
                hit = [p_ for p_ in parts if p_ in VCSF]
                return set(hit) if hit else {parts[-1]} if parts else set()
            srcs = set()
            for x in mir.field_sources(F, m, st[2][1] if st[2][0] == "use" else ["c", {}]):
                if not x.startswith(("call:", "const:", "upvar:", "[")): srcs |= comps(x)
            if st[2][0] == "agg":
                for a in st[2][2]:
                    for x in mir.field_sources(F, m, a):
                        if not x.startswith(("call:", "const:", "upvar:", "[")): srcs |= comps(x)
            got.setdefault(fl[-1][2], set()).update(srcs)
        rep.floor("R02.1", "ZervVars fields wired from VcsData", len(got), 8)
        vcs_fields = {"commit_hash", "commit_hash_prefix", "commit_timestamp", "is_dirty", "current_branch", "distance", "tag_version", "tag_timestamp", "tag_commit_hash"}
        for k, w in want.items():
            g = {x for x in got.get(k, set()) if x in vcs_fields}
            if g == w: rep.ok("R02.1", "vars.%s <- vcs_data.%s" % (k, "+".join(sorted(w))), nontrivial_key=k)
            else: rep.bad("R02.1", "wiring:" + k, "ZervVars.%s is filled from VcsData.%s, expected %s" % (k, sorted(g), sorted(w)), m.where())
        # prefix + hash order: the template is "{prefix}{hash}"
        # version fields come from parsing tag_version
        pv = [(bi, t) for bi, t in m.calls() if (mir.callee(t) or "").endswith("VersionObject::parse_with_format")]
        if pv and all(any("tag_version" in x for x in mir.field_sources(F, m, t[2][0])) for bi, t in pv): rep.ok("R02.1", "version fields come from parsing vcs_data.tag_version", nontrivial_key="parse")
        else: rep.bad("R02.1", "version-source", "the version is not parsed from vcs_data.tag_version", m.where())
        # R02.2: the None arm returns Err(NoTagsFound) and builds no ZervVars
        none_err = False
        for bi, si, st in m.stmts():
            if st[0] == "=" and st[2][0] == "agg" and st[2][1].get("variant") == "NoTagsFound" or (st[0] == "=" and st[2][0] == "use" and st[2][1][0] == "c" and st[2][1][1].get("v") == "NoTagsFound"):
                gs = mir.guards_of(m, bi)
                if any(d[0] == "discr" and any("tag_version" in o.path_str() for o in mir.trace_place(m, d[1])) and isinstance(pol, tuple) and ((pol[0] == "in" and "None" in pol[1]) or (pol[0] == "not" and "Some" in pol[1])) for d, pol, dd in gs): none_err = True
        if none_err: rep.ok("R02.2", "no tag => Err(NoTagsFound)", nontrivial_key="notag")
        else: rep.bad("R02.2", "default-version-without-tag", "a repository without a valid version tag is not reported as NoTagsFound on the tag_version == None path", m.where())
        dfl = [t for bi, t in m.calls() if "ZervVars as std::default::Default" in (mir.callee(t) or "")]
        if dfl: rep.bad("R02.2", "default-vars", "vcs_data_to_zerv_vars builds default ZervVars (a version invented for a tagless repository)", m.where())
    # ---- R02.3 producer wiring --------------------------------------------------------------------------------
    gv = [f for f in F.find("<crate::vcs::git::GitVcs as crate::vcs::Vcs>::get_vcs_data")]
    if rep.anchor("R02.3", "<GitVcs as Vcs>::get_vcs_data", gv):
        f = gv[0]; rep.fn_seen(f)
        # private helpers that collect part of the data (collect_head_data / fill_tag_data) are seen through; the git sub-commands stay calls
        f = mir.inlined(F, f, depth=3, keep=("get_commit_hash", "get_commit_timestamp", "is_dirty", "get_current_branch", "calculate_distance", "get_tag_timestamp", "get_tag_commit_hash", "get_latest_tag", "run_git_command", "check_shallow_clone"),
                        ok=lambda F_, caller, cp, g: g is not None and g.kind != "closure" and cp.startswith("crate::vcs::git::"))
        want = {"commit_hash": "get_commit_hash", "commit_timestamp": "get_commit_timestamp", "is_dirty": "is_dirty", "current_branch": "get_current_branch",
                "distance": "calculate_distance", "tag_timestamp": "get_tag_timestamp", "tag_commit_hash": "get_tag_commit_hash", "tag_version": "get_latest_tag"}
        got = {}
        for bi, si, st in f.stmts():
            if st[0] != "=": continue
            if st[2][0] == "agg" and st[2][1].get("adt", "").endswith("vcs_data::VcsData"):
                for name, op in zip(st[2][1]["fields"], st[2][2]):
                    got.setdefault(name, set()).update(x[5:] for x in mir.field_sources(F, f, op) if x.startswith("call:") and (x[5:].startswith("get_") or x[5:] in ("is_dirty", "calculate_distance")))
            fl = [e for e in st[1][1:] if not isinstance(e, str) and e[0] == "f"]
            if fl and fl[-1][3].endswith("vcs_data::VcsData") and st[2][0] == "use":
                got.setdefault(fl[-1][2], set()).update(x[5:] for x in mir.field_sources(F, f, st[2][1]) if x.startswith("call:") and (x[5:].startswith("get_") or x[5:] in ("is_dirty", "calculate_distance")))
        for bi, t in f.calls():
            d = t[3]
            fl = [e for e in d[1:] if not isinstance(e, str) and e[0] == "f"]
            if fl and fl[-1][3].endswith("vcs_data::VcsData"):
                got.setdefault(fl[-1][2], set()).update(x[5:] for a in t[2] for x in mir.field_sources(F, f, a) if x.startswith("call:") and (x[5:].startswith("get_") or x[5:] in ("is_dirty", "calculate_distance")))
                c = (mir.callee(t) or "").rsplit("::", 1)[-1]
                if c.startswith("get_") or c in ("is_dirty", "calculate_distance"): got[fl[-1][2]].add(c)
        rep.floor("R02.3", "VcsData fields produced in get_vcs_data", len([k for k in got if got[k]]), 8)
        for k, h in want.items():
            g = got.get(k, set())
            if k == "tag_version": g = {x for x in g if x == "get_latest_tag"} or g
            if h in g and len({x for x in g if x != "get_latest_tag" or k == "tag_version"}) == 1: rep.ok("R02.3", "VcsData.%s <- %s()" % (k, h), nontrivial_key=k)
            else: rep.bad("R02.3", "producer:" + k, "VcsData.%s is produced by %s, expected %s" % (k, sorted(g), h), f.where())
        # the facts the version cannot do without are obtained with `?`: a failing git sub-command must not be turned into
        # "clean", "no tag" or an empty hash (instances confirmed on the pinned tree; the optional facts use unwrap_or there)
        for h in ("get_commit_hash", "get_commit_timestamp", "is_dirty", "get_latest_tag"):
            sites = [(bi, t) for bi, t in f.calls() if (mir.callee(t) or "").endswith(G + h)]
            if not sites: continue
            for bi, t in sites:
                dest = t[3][0]
                uses = [(mir.callee(t2) or "?") for b2, t2 in f.calls() if any(a[0] in ("cp", "mv") and a[1][0] == dest for a in t2[2])]
                if any("Try>::branch" in u for u in uses): rep.ok("R02.3", "%s()? - a git failure is propagated" % h, nontrivial_key="prop" + h)
                elif any(u.rsplit("::", 1)[-1].startswith(("unwrap_or", "ok", "is_ok", "is_err", "map_or")) for u in uses):
                    rep.bad("R02.3", "error-swallowed:" + h, "the result of %s is consumed by %s: when that git sub-command fails, zerv reports a made-up fact (clean / no tag / empty) instead of failing" % (h, [u.rsplit("::", 1)[-1] for u in uses]), "%s bb%d" % (f.where(), bi))
                else: rep.undecided("R02.3", "error-handling:" + h, "the result of %s is handled by %s, a form this rule does not evaluate" % (h, uses), "%s bb%d" % (f.where(), bi))
        # the three tag-dependent helpers receive the tag found by the search
        for h in ("calculate_distance", "get_tag_timestamp", "get_tag_commit_hash"):
            sites = [(bi, t) for bi, t in f.calls() if (mir.callee(t) or "").endswith(G + h)]
            ok = bool(sites) and all(any("call:get_latest_tag" == x for x in mir.field_sources(F, f, t[2][1])) for bi, t in sites)
            if ok: rep.ok("R02.3", "%s(tag) receives the tag returned by get_latest_tag" % h, nontrivial_key="arg" + h)
            else: rep.bad("R02.3", "helper-arg:" + h, "%s is not called with the tag found by get_latest_tag" % h, f.where())
    # ---- R02.4 argv tokens ---------------------------------------------------------------------------------------------
    runner = F.fn(G + "run_git_command")
    n_sites = 0
    if rep.anchor("R02.4", "GitVcs::run_git_command", runner):
        per = {}
        for p, g in sorted(F.fns.items()):
            if not p.startswith(G) or g is runner: continue
            for bi, t in g.calls():
                if (mir.callee(t) or "") == runner.path:
                    k = "%s#%d" % (p.rsplit("::", 1)[-1], per.get(p, 0)); per[p] = per.get(p, 0) + 1
                    n_sites += 1
                    rep.fn_seen(g)
                    toks = argv_of(F, g, t)
                    flat = []
                    for x in toks:
                        if isinstance(x, str): flat.append(x)
                        elif x[0] == "fmt": flat += [pc for pc in x[1] if isinstance(pc, str)] + ["<arg>"]
                    spec = ARGV.get(k)
                    site = "%s bb%d line %s" % (g.where(), bi, g.blocks[bi]["line"])
                    if spec is None:
                        rep.bad("R02.4", "unlisted-git-call:" + k, "git invocation %s (%s) is not in the audited argv table" % (k, flat), site); continue
                    req, forb = spec
                    alts = req if req and isinstance(req[0], list) else [req]
                    misses = [[r for r in alt if not any(r == x or r in x for x in flat)] for alt in alts]
                    miss = [] if any(not m for m in misses) else min(misses, key=len)
                    req = next((alt for alt, m in zip(alts, misses) if not m), alts[0])
                    bad = [b for b in forb if any(b == x or (b.startswith("--") and x.startswith(b + "=")) or (not b.startswith("-") and b in x) for x in flat)]     # options by equality, format pieces by containment
                    if miss or bad: rep.bad("R02.4", "argv:" + k, "git %s: required tokens missing %s, forbidden tokens present %s (argv %s)" % (k, miss, bad, flat), site)
                    else: rep.ok("R02.4", "git %s argv has %s" % (k, req), sample=flat, nontrivial_key=k)
                    if k == "calculate_distance#0":
                        rng = [x for x in toks if not isinstance(x, str) and x[0] == "fmt"]
                        lits = [pc for pc in rng[0][1] if isinstance(pc, str)] if rng else None
                        shape = [("A" if isinstance(pc, tuple) else pc) for pc in rng[0][1]] if rng else None
                        if shape == ["A", "..HEAD"]: rep.ok("R02.4", "distance range is <tag>..HEAD", nontrivial_key="range")
                        else: rep.bad("R02.4", "distance-range", "distance is counted over %s, expected <tag>..HEAD (commits reachable from HEAD but not from the tag)" % (shape,), site)
                    if k == "get_tag_timestamp#0":
                        rng = [x for x in toks if not isinstance(x, str) and x[0] == "fmt"]
                        shape = [("A" if isinstance(pc, tuple) else pc) for pc in rng[0][1]] if rng else None
                        if shape == ["A", "^{commit}"]: rep.ok("R02.4", "tag time is read from <tag>^{commit}", nontrivial_key="peel")
                        else: rep.bad("R02.4", "tag-peel", "tag timestamp is read from %s, expected <tag>^{commit}" % (shape,), site)
        rep.floor("R02.4", "run_git_command call sites", n_sites, 10)
        # the runner passes exactly the argv it was given: global options added here (-c core.fileMode=false, --git-dir, ...) would
        # change the meaning of every audited command line at once
        extra = []; n_args = 0
        for bi, t in runner.calls():
            c = mir.callee(t) or ""
            if c.endswith("process::Command::args") or c.endswith("process::Command::arg"):
                n_args += 1
                src = mir.trace_op(runner, t[2][1])
                if not src or not all(o.kind == "param" and o.data == 2 for o in src): extra.append("bb%d %s" % (bi, [repr(o)[:50] for o in src][:2]))
            if c.endswith("process::Command::env") or c.endswith("process::Command::envs") or c.endswith("process::Command::env_clear"):
                extra.append("bb%d %s" % (bi, c.rsplit("::", 1)[-1]))
        if extra: rep.bad("R02.4", "runner-extra-args", "run_git_command adds arguments / environment of its own to every git invocation: %s" % extra, runner.where())
        elif n_args: rep.ok("R02.4", "run_git_command passes exactly its argv parameter to git", nontrivial_key="runnerargs")
        else: rep.undecided("R02.4", "runner-args-shape", "run_git_command does not pass its argv with Command::args", runner.where())
    # ---- R02.5 reachable-only, first hit, max by version order ----------------------------------------------------------------
    topo = F.fn(G + "get_commits_in_topo_order")
    if rep.anchor("R02.5", "GitVcs::get_commits_in_topo_order", topo):
        rep.fn_seen(topo, *F.children(topo.path))
        # the returned list is built from the FIRST git call's output (rev-list HEAD), filtered by membership in the second
        ret_src = mir.field_sources(F, topo, ["cp", [0]])
        calls = [bi for bi, t in topo.calls() if (mir.callee(t) or "").endswith("run_git_command")]
        os_ = mir.trace_place(topo, [0], transparent=())
        first_out = None
        def base_call(fn, op, depth=0):
            out = set()
            if depth > 8: return out
            for o in mir.trace_op(fn, op, transparent=()):
                if o.kind == "call":
                    t = fn.blocks[o.data]["t"]
                    if (mir.callee(t) or "").endswith("run_git_command"): out.add(o.data)
                    elif "from_residual" in (mir.callee(t) or ""): continue        # error propagation, not the walked list
                    elif t[2]: out |= base_call(fn, t[2][0], depth + 1)
                elif o.kind == "agg":
                    for a in mir.rv_at(fn, *o.data)[2]: out |= base_call(fn, a, depth + 1)
            return out
        walked = base_call(topo, ["cp", [0]])
        push_sites = []
        if not walked:
            # loop form: `for line in output.lines() { if .. { result.push(hash) } }` - what the pushed elements derive from
            ret_locals = {o.data if o.kind == "local" else None for o in mir.trace_place(topo, [0], transparent=())}
            for bi, t in topo.calls():
                if (mir.callee(t) or "").endswith("Vec::<T, A>::push"):
                    dd = mir.deep_origins(topo, t[2][1], stop=())
                    hit = {int(d) for k, d in dd if k == "call" and d.isdigit() and int(d) in calls}
                    if hit: walked |= hit; push_sites.append(bi)
        if len(calls) == 2 and walked == {calls[0]}:
            a0 = [x for x in argv_of(F, topo, topo.blocks[calls[0]]["t"]) if isinstance(x, str)]
            if "HEAD" in a0 and "rev-list" in a0: rep.ok("R02.5", "the walked list is the output of `rev-list ... HEAD` (ancestors of HEAD only)", nontrivial_key="walk")
            else: rep.bad("R02.5", "walk-source", "the commit list walked by the tag search comes from `git %s`, not from rev-list HEAD" % a0, topo.where())
        else: rep.bad("R02.5", "walk-source", "the commit list walked by the tag search is not (only) the rev-list HEAD output (sources: blocks %s of %s)" % (sorted(walked), calls), topo.where())
        flt = [c for c in F.children(topo.path) if any((mir.callee(t) or "").endswith("HashSet::<T, S, A>::contains") for bi, t in c.calls())]
        if not flt and push_sites:
            flt = [bi for bi in push_sites if any(d[0] == "call" and (d[1] or "").endswith("HashSet::<T, S, A>::contains") and pol is True for d, pol, dd in mir.guards_of(topo, bi))]
        if flt: rep.ok("R02.5", "walk restricted to commits in the tagged set (HashSet::contains)", nontrivial_key="member")
        else: rep.bad("R02.5", "no-membership-filter", "the walk is not restricted to tagged commits", topo.where())
    lt = F.fn(G + "get_latest_tag")
    if rep.anchor("R02.5", "GitVcs::get_latest_tag", lt):
        rep.fn_seen(lt)
        # a per-commit helper (get_max_valid_tag_at_commit) is seen through; the walk, the tag listing and the version maximum stay calls
        lt = mir.inlined(F, lt, depth=2, keep=("find_max_version_tag", "get_commits_in_topo_order", "get_all_tags_from_commit_hash", "filter_only_valid_tags", "run_git_command"))
        # returns at the first commit with a valid tag: a `return Ok(Some(max))` inside the loop
        in_loop_ret = False
        for bi, si, st in lt.stmts():
            if st[0] == "=" and st[1] == [0] and st[2][0] == "agg" and st[2][1].get("variant") == "Ok":
                v = mir.sym_value(F, lt, st[2][2][0])
                if "Some" in v:
                    # block is inside the loop: it can reach the loop header? a return cannot; instead check its guards include the iterator's Some
                    if any(d[0] == "discr" and isinstance(pol, tuple) and pol[0] == "in" and "Some" in pol[1] for d, pol, dd in mir.guards_of(lt, bi)): in_loop_ret = True
        scope_ = [lt] + mir.closures_in(F, lt)
        # lazy pipeline idiom: commits.iter().map(tags).filter(..).find_map(|tags| max(tags)) stops at the first hit as the loop does
        short_circuit = [bi for bi, t in lt.calls() if (mir.callee(t) or "").rsplit("::", 1)[-1] in ("find_map", "find") and "Iterator" in (mir.callee(t) or "")]
        eager = [(mir.callee(t) or "").rsplit("::", 1)[-1] for bi, t in lt.calls() if "Iterator" in (mir.callee(t) or "") and (mir.callee(t) or "").rsplit("::", 1)[-1] in ("last", "max", "max_by", "max_by_key", "min", "min_by", "min_by_key", "fold", "reduce", "rfind", "for_each")]
        if not in_loop_ret and short_circuit and not eager and any((mir.callee(t) or "").endswith("GitUtils::find_max_version_tag") for g_ in scope_[1:] for bi, t in g_.calls()):
            in_loop_ret = True
        fm = any((mir.callee(t) or "").endswith("GitUtils::find_max_version_tag") for g_ in scope_ for bi, t in g_.calls())
        it = any((mir.callee(t) or "").endswith("get_commits_in_topo_order") for bi, t in lt.calls())
        rev = any("iter::Rev" in (t[1].get("full") or "") or (mir.callee(t) or "").endswith("::rev") or (mir.callee(t) or "").endswith("::reverse") or (mir.callee(t) or "").endswith("::last") for bi, t in lt.calls())
        if in_loop_ret and fm and it and not rev: rep.ok("R02.5", "search returns at the first commit (in walk order) that has a valid tag, choosing it with find_max_version_tag", nontrivial_key="first")
        else: rep.bad("R02.5", "not-first-hit", "get_latest_tag does not return at the first tagged commit of the walk (return-in-loop %s, find_max %s, reversed %s)" % (in_loop_ret, fm, rev), lt.where())
    fmx = [x for x in F.find("GitUtils::find_max_version_tag") if x.kind == "assoc"]
    if rep.anchor("R02.5", "GitUtils::find_max_version_tag", fmx):
        f = fmx[0]; rep.fn_seen(f)
        cg = mir.CallGraph(F)
        reach = cg.closure([f.path], generic=False)
        import tables as _tb
        shape, det = _tb.max_choice_shape(F, f)
        mb = shape in ("max_by", "running-max")
        ords = [p for p in reach if p.endswith("::cmp") and ("impl std::cmp::Ord for crate::version::semver::core::SemVer" in p or "impl std::cmp::Ord for crate::version::pep440::core::PEP440" in p)]
        if mb and len(ords) == 2: rep.ok("R02.5", "the tag on a commit is chosen with max_by over <SemVer|PEP440 as Ord>::cmp", nontrivial_key="maxby")
        elif shape == "unknown" and len(ords) == 2: rep.undecided("R02.5", "tag-choice-shape", "how find_max_version_tag picks the greatest tag is not recognised (%s)" % det, f.where())
        else: rep.bad("R02.5", "tag-choice", "the tag of a commit is not chosen as the maximum over the version orderings (shape %s %s, orderings reached %d)" % (shape, det or "", len(ords)), f.where())
    # ---- R02.6 dirty polarity -----------------------------------------------------------------------------------------------------
    d = F.fn(G + "is_dirty")
    if rep.anchor("R02.6", "GitVcs::is_dirty", d):
        rep.fn_seen(d)
        good = False
        for p in mir.enum_paths(d):
            sp = mir.SymPath(d, p)
            r = sp.ret()
            if r[0] == "agg" and r[1].endswith("Result::Ok") and r[2]:
                v = r[2][0][1]
                if v[0] == "un" and v[1] == "Not" and v[2][0] == "call" and str(v[2][1]).endswith("::is_empty"): good = True
        if good: rep.ok("R02.6", "is_dirty = !porcelain_output.is_empty()", nontrivial_key="dirty")
        else: rep.bad("R02.6", "dirty-polarity", "is_dirty does not return the negation of output.is_empty()", d.where())
    # ---- R02.7 the repository root is the nearest ancestor that has a `.git` entry of any kind -----------------------------------
    fr = F.fn("crate::vcs::find_vcs_root_with_limit")
    if rep.anchor("R02.7", "vcs::find_vcs_root_with_limit", fr):
        rep.fn_seen(fr)
        tests = []
        for bi, t in fr.calls():
            c = mir.callee(t) or ""
            if not (c.startswith("std::path::Path::") or c.startswith("std::path::PathBuf::") or c.startswith("std::fs::")): continue
            last = c.rsplit("::", 1)[-1]
            if last not in ("exists", "is_dir", "is_file", "try_exists", "metadata", "symlink_metadata", "is_symlink", "read_dir"): continue
            on_git = any(k == "const" and ".git" in d for k, d in mir.deep_origins(fr, t[2][0], stop=())) if t[2] else False
            if on_git: tests.append((last, bi))
        if not tests: rep.undecided("R02.7", "root-test-shape", "no file-system test of a `.git` path found in find_vcs_root_with_limit", fr.where())
        for last, bi in tests:
            site = "%s bb%d line %s" % (fr.where(), bi, fr.blocks[bi]["line"])
            if last in ("exists", "try_exists"): rep.ok("R02.7", "a directory is the repository root when `.git` exists in it (directory or file)", sample=site, nontrivial_key="root%d" % bi)
            elif last in ("is_dir", "is_file", "read_dir", "is_symlink"):
                rep.bad("R02.7", "root-test:" + last, "the repository root is recognised with `.git`.%s(): in a linked worktree or submodule `.git` is a file, so the search walks up into an enclosing checkout and every fact is read from the wrong repository" % last, site)
            else: rep.undecided("R02.7", "root-test-shape", "`.git` is tested with %s" % last, site)
    return core.finish(rep, explanation=EXPL, assumptions=ASSUME, trusted=TRUST)

EXPL = ("The core of C02 (which tag git considers nearest, what rev-list counts, what status calls dirty) lives in the external git binary over runtime repositories and is NOT decided. Decided is the part written in Rust, which the offline "
        "suite never executes (all git tests need Docker): the VcsData -> ZervVars wiring (8 fields incl. prefix + hash), Err(NoTagsFound) on the tagless path, the producer wiring of get_vcs_data (each field from its helper, the tag-dependent "
        "helpers fed with the found tag), required/forbidden tokens of every git argv (rev-list --topo-order HEAD; --tags --no-walk; tag --points-at; rev-list --count <tag>..HEAD; status --porcelain without -uno/--ignored; --show-current; %ct; ^{commit}), "
        "that the walked list is the rev-list HEAD output restricted to tagged commits, that the search returns at the first hit and picks the tag by max_by over the version orderings, and the polarity of is_dirty.")
ASSUME = ["git behaves as documented for the audited argv", "argv token requirements are the semantics at this boundary: replacing a command by an equivalent one needs a re-audit (stated limitation)"]
TRUST = ["rustc MIR", "zfacts", "rules/c02.py"]
