"""C18 - the Python API is a faithful wrapper of the CLI.
R18.1 keyword table <-> clap option table (name, arity, value domain, positional);
R18.2 every keyword used exactly once; R18.3 _extend_args shape; R18.4 _run_zerv_command shape.
Python side: `ast` only (nothing imported or executed). Rust side: clap derive output read from MIR."""
import ast, os
import core, mir, clapx

PYFILE = os.path.join(core.REPO, "python/zerv/__init__.py")
FUNCS = {"version": 42, "flow": 28, "check": 2, "render": 4}

# ---------------------------------------------------------------------------
# Python extraction

class PyApi:
    def __init__(self, path):
        with open(path) as f:
            self.src = f.read()
        self.tree = ast.parse(self.src)
        self.aliases = {}
        for node in self.tree.body:
            if isinstance(node, ast.Assign) and len(node.targets) == 1 and isinstance(node.targets[0], ast.Name):
                self.aliases[node.targets[0].id] = node.value
        self.funcs = {n.name: n for n in self.tree.body if isinstance(n, ast.FunctionDef)}

    def literal_values(self, node, depth=0):
        """set of strings a type expression admits, or None when unconstrained (str/int/...)"""
        if depth > 8: return None
        if isinstance(node, ast.Subscript) and isinstance(node.value, ast.Name) and node.value.id == "Literal":
            elts = node.slice.elts if isinstance(node.slice, ast.Tuple) else [node.slice]
            return {e.value for e in elts if isinstance(e, ast.Constant)}
        if isinstance(node, ast.Name) and node.id in self.aliases:
            return self.literal_values(self.aliases[node.id], depth + 1)
        if isinstance(node, ast.BinOp) and isinstance(node.op, ast.BitOr):
            l = self.literal_values(node.left, depth + 1); r = self.literal_values(node.right, depth + 1)
            if l is None and r is None: return None
            return (l or set()) | (r or set())
        return None

    def annotation(self, node):
        """(base kinds set, literal values|None): strips `| None`"""
        kinds = set(); lits = None
        def walk(n):
            nonlocal lits
            if isinstance(n, ast.BinOp) and isinstance(n.op, ast.BitOr):
                walk(n.left); walk(n.right); return
            if isinstance(n, ast.Constant) and n.value is None: kinds.add("None"); return
            if isinstance(n, ast.Name) and n.id in ("str", "int", "bool", "float"): kinds.add(n.id); return
            lv = self.literal_values(n)
            if lv is not None:
                kinds.add("literal"); lits = (lits or set()) | lv; return
            kinds.add("other:" + ast.dump(n)[:40])
        if node is not None: walk(node)
        return kinds, lits

def call_kw(call, name):
    for k in call.keywords:
        if k.arg == name: return k.value
    return None

def func_table(api, name):
    """-> dict(params={kw: (kinds, lits)}, positional=[names], sub=[...], flags=[(flag, kw)], stdin_passed, shape_ok, why)"""
    fn = api.funcs.get(name)
    if fn is None: return None
    out = {"params": {}, "positional": [], "why": []}
    for a in fn.args.posonlyargs + fn.args.args:
        out["positional"].append(a.arg); out["params"][a.arg] = api.annotation(a.annotation)
    for a in fn.args.kwonlyargs:
        out["params"][a.arg] = api.annotation(a.annotation)
    body = [s for s in fn.body if not (isinstance(s, ast.Expr) and isinstance(s.value, ast.Constant))]
    # defaults: an omitted keyword must add nothing, so its default is None (or False)
    out["defaults"] = []
    pos = fn.args.posonlyargs + fn.args.args
    for a, d in list(zip(pos[len(pos) - len(fn.args.defaults):], fn.args.defaults)) + list(zip(fn.args.kwonlyargs, fn.args.kw_defaults)):
        if d is None: continue
        if not (isinstance(d, ast.Constant) and (d.value is None or d.value is False)):
            out["defaults"].append((a.arg, ast.unparse(d) if hasattr(ast, "unparse") else "?"))
    out["shape_ok"] = False
    # statements before the final return: a keyword parameter that is re-bound there no longer carries what the caller passed
    out["rebound"] = []
    pre, body = body[:-1], body[-1:]
    for st in pre:
        for n in ast.walk(st):
            tg = []
            if isinstance(n, ast.Assign): tg = n.targets
            elif isinstance(n, (ast.AugAssign, ast.AnnAssign, ast.NamedExpr)): tg = [n.target]
            elif isinstance(n, (ast.For, ast.AsyncFor)): tg = [n.target]
            elif isinstance(n, ast.Delete): tg = n.targets
            elif isinstance(n, ast.withitem) and n.optional_vars is not None: tg = [n.optional_vars]
            for t in tg:
                for m in ast.walk(t):
                    if isinstance(m, ast.Name) and m.id in out["params"]:
                        cond = ""
                        if isinstance(st, ast.If): cond = " when `%s`" % (ast.unparse(st.test) if hasattr(ast, "unparse") else "?")
                        val = ast.unparse(n.value) if hasattr(ast, "unparse") and getattr(n, "value", None) is not None else "?"
                        out["rebound"].append((m.id, val, cond))
    simple = all(isinstance(st, (ast.Assign, ast.AnnAssign, ast.Pass)) or (isinstance(st, ast.If) and all(isinstance(x, (ast.Assign, ast.AnnAssign, ast.Pass)) for x in st.body + st.orelse)) for st in pre)
    if pre and not simple and not out["rebound"]:
        out["why"].append("statements before the final return are not plain assignments")
        body = []
    if len(body) == 1 and isinstance(body[0], ast.Return) and isinstance(body[0].value, ast.Call):
        c = body[0].value
        if isinstance(c.func, ast.Name) and c.func.id == "_run_zerv_command":
            inner = call_kw(c, "args") or (c.args[0] if c.args else None)
            out["stdin_passed"] = isinstance(call_kw(c, "stdin"), ast.Name) and call_kw(c, "stdin").id == "stdin"
            if isinstance(inner, ast.Call) and isinstance(inner.func, ast.Name) and inner.func.id == "_extend_args":
                a = call_kw(inner, "args") or (inner.args[0] if inner.args else None)
                fl = call_kw(inner, "flags") or (inner.args[1] if len(inner.args) > 1 else None)
                if isinstance(a, ast.Name):
                    for node in api.tree.body:
                        tgts = node.targets if isinstance(node, ast.Assign) else ([node.target] if isinstance(node, ast.AnnAssign) else [])
                        if any(isinstance(t_, ast.Name) and t_.id == a.id for t_ in tgts) and isinstance(getattr(node, "value", None), (ast.List, ast.Call, ast.ListComp)):
                            out["shared_list"] = a.id
                if isinstance(a, ast.List) and isinstance(fl, ast.List):
                    sub = []
                    elts_ = []
                    for e in a.elts:
                        # [*_CHECK_CMD, version]: a module-level constant list of literals is spliced in (a fresh list is built)
                        if isinstance(e, ast.Starred) and isinstance(e.value, ast.Name):
                            defs_ = [node.value for node in api.tree.body if isinstance(node, (ast.Assign, ast.AnnAssign)) and getattr(node, "value", None) is not None
                                     and any(isinstance(t_, ast.Name) and t_.id == e.value.id for t_ in (node.targets if isinstance(node, ast.Assign) else [node.target]))]
                            if len(defs_) == 1 and isinstance(defs_[0], (ast.List, ast.Tuple)) and all(isinstance(x_, ast.Constant) for x_ in defs_[0].elts):
                                elts_ += list(defs_[0].elts); continue
                        elts_.append(e)
                    for e in elts_:
                        if isinstance(e, ast.Constant): sub.append(("lit", e.value))
                        elif isinstance(e, ast.Name): sub.append(("name", e.id))
                        else: sub.append(("?", ast.dump(e)))
                    flags = []
                    ok = True
                    for e in fl.elts:
                        if isinstance(e, ast.Tuple) and len(e.elts) == 2 and isinstance(e.elts[0], ast.Constant) and isinstance(e.elts[1], ast.Name):
                            flags.append((e.elts[0].value, e.elts[1].id))
                        else:
                            ok = False; out["why"].append("flag entry is not (constant, name): " + ast.dump(e)[:60])
                            if isinstance(e, ast.Tuple) and len(e.elts) == 2 and isinstance(e.elts[0], ast.Constant):
                                used = sorted({m.id for m in ast.walk(e.elts[1]) if isinstance(m, ast.Name) and m.id in out["params"]})
                                if used: out.setdefault("computed", []).append((e.elts[0].value, used, ast.unparse(e.elts[1]) if hasattr(ast, "unparse") else "?"))
                    out["sub"] = sub; out["flags"] = flags; out["shape_ok"] = ok
    if not out["shape_ok"] and not out["why"]:
        out["why"].append("body is not `return _run_zerv_command(args=_extend_args(args=[...], flags=[...]))`")
    return out

# ---------------------------------------------------------------------------

INT_TYPES = ("u8", "u16", "u32", "u64", "usize", "i8", "i16", "i32", "i64", "isize")

def opt_lookup(flag, opts, globals_):
    for o in opts + [g for g in globals_ if g.is_global]:
        if flag.startswith("--") and o.long == flag[2:]: return o
        if flag.startswith("-") and not flag.startswith("--") and len(flag) == 2 and o.short == flag[1]: return o
    return None

def domains(F, rep):
    """finite value domains that live in later validation rather than in clap"""
    d = {}
    ps = [f for f in F.find("as std::str::FromStr>::from_str") if "ZervSchemaPreset" in f.path] + \
         [f for f in F.find("<impl std::str::FromStr for crate::schema::presets::ZervSchemaPreset>::from_str")]
    if ps:
        rep.fn_seen(ps[0])
        table, default = mir.string_table(ps[0])
        d["preset_names"] = set(table)
    vl = F.fn("crate::utils::constants::pre_release_labels::VALID_LABELS")
    if vl is not None:
        d["valid_labels"] = set(clapx.const_str_array(F, vl, ["cp", [0]]) or [])
    none_kw = set()
    for p, f in F.fns.items():
        if p.endswith("template::types::Template::<T>::render"):
            rep.fn_seen(f)
            for bi, t in f.calls():
                if mir.call_matches(t, ("PartialEq",)) and t[1].get("full", "").startswith("<str as"):
                    for a in t[2]:
                        v = mir.const_arg(f, a)
                        if isinstance(v, str): none_kw.add(v)
    d["none_keywords"] = none_kw
    return d

def check(F, rep, tier):
    if not os.path.exists(PYFILE):
        rep.bad("R18.1", "anchor-missing:python", "python/zerv/__init__.py not found")
        return core.finish(rep, explanation=EXPL)
    try:
        api = PyApi(PYFILE)
    except SyntaxError as e:
        rep.bad("R18.1", "python-syntax", "python/zerv/__init__.py does not parse: %s" % e)
        return core.finish(rep, explanation=EXPL)
    subs, top = clapx.subcommands(F, rep)
    if not rep.anchor("R18.1", "clap Subcommand::augment_subcommands of cli::parser::Commands", subs):
        return core.finish(rep, explanation=EXPL)
    for k, v in subs.items():
        for o in v:
            if str(o.id).startswith("?"):
                rep.undecided("R18.1", "unrecognised-shape:clap:%s" % o.id, "could not read a clap Arg definition in sub-command %s" % k)
    dom = domains(F, rep)
    rep.floor("R18.1", "schema preset names known to Rust", len(dom.get("preset_names", ())), 22)
    rep.extra["clap_options"] = {k: len(v) for k, v in subs.items()}
    for fname, floor in FUNCS.items():
        tab = func_table(api, fname)
        if not rep.anchor("R18.1", "python function " + fname, tab): continue
        for pname, val, cond in tab.get("rebound", []):
            rep.bad("R18.6", "parameter-rebound:%s.%s" % (fname, pname), "zerv.%s re-binds its keyword `%s` to %s%s before building the command line: what reaches the CLI is not what the caller passed (a None/False argument then adds an option)" % (fname, pname, val, cond), PYFILE)
        if not tab.get("rebound"): rep.ok("R18.6", "zerv.%s passes its keywords on as received (none is re-bound)" % fname, nontrivial_key="rebind" + fname)
        if tab.get("shared_list"):
            rep.bad("R18.6", "shared-argument-list:" + fname, "zerv.%s hands the module-level list %s to _extend_args, which appends to it: the options of one call stay in the list and are sent again by every later call in the same process" % (fname, tab["shared_list"]), PYFILE)
        for flag, used, expr in tab.get("computed", []):
            rep.bad("R18.6", "flag-value-computed:%s.%s" % (fname, flag), "zerv.%s sends %s with the value of `%s` instead of the keyword %s as given: a None argument can then add an option (and a given one can be changed)" % (fname, flag, expr, used), PYFILE)
        for pname, dflt in tab.get("defaults", []):
            rep.bad("R18.7", "keyword-default:%s.%s" % (fname, pname), "zerv.%s(%s=%s): an omitted keyword has a value other than None/False, so a plain call adds an option the command line does not have (the CLI's own default may depend on other inputs)" % (fname, pname, dflt), PYFILE)
        if not tab.get("defaults"): rep.ok("R18.7", "every optional parameter of zerv.%s defaults to None (an omitted keyword adds nothing)" % fname, nontrivial_key="dflt" + fname)
        if not tab["shape_ok"]:
            rep.undecided("R18.4", "unrecognised-shape:" + fname, "zerv.%s: %s" % (fname, "; ".join(tab["why"])), PYFILE); continue
        kwonly = [k for k in tab["params"] if k not in tab["positional"]]
        rep.floor("R18.1", "keywords of zerv.%s" % fname, len(kwonly), floor)
        # sub-command + positional
        sub = tab["sub"]
        if not sub or sub[0][0] != "lit" or sub[0][1] not in subs:
            rep.bad("R18.1", "subcommand:" + fname, "zerv.%s invokes %r which is not a clap sub-command (%s)" % (fname, sub[:1], sorted(subs)), PYFILE); continue
        opts = subs[sub[0][1]]
        if sub[0][1] != fname:
            rep.bad("R18.1", "subcommand-name:" + fname, "zerv.%s invokes sub-command %r" % (fname, sub[0][1]), PYFILE)
        else:
            rep.ok("R18.1", "zerv.%s -> sub-command %r" % (fname, fname))
        cl_pos = [o for o in opts if o.positional()]
        py_pos = [s[1] for s in sub[1:]]
        if [s[0] for s in sub[1:]] != ["name"] * len(py_pos) or py_pos != tab["positional"] or len(py_pos) != len(cl_pos):
            rep.bad("R18.1", "positional:" + fname, "positional arguments differ: python passes %r (signature %r), clap defines %r" % (sub[1:], tab["positional"], [o.id for o in cl_pos]), PYFILE)
        else:
            rep.ok("R18.1", "zerv.%s positionals %r match clap %r" % (fname, py_pos, [o.id for o in cl_pos]), nontrivial_key=fname + "pos")
        # flags
        used = {}
        for flag, kw in tab["flags"]:
            used.setdefault(kw, []).append(flag)
            key = "%s.%s" % (fname, kw)
            if kw not in tab["params"]:
                rep.bad("R18.1", "unknown-name:" + key, "flag table of zerv.%s refers to %r which is not a parameter" % (fname, kw), PYFILE); continue
            o = opt_lookup(flag, opts, top)
            if o is None:
                rep.bad("R18.1", "no-such-option:" + key, "zerv.%s(%s=...) emits %r, which sub-command %r does not define" % (fname, kw, flag, fname), PYFILE); continue
            kinds, lits = tab["params"][kw]
            base = kinds - {"None"}
            # arity
            if base == {"bool"}:
                if o.takes_value():
                    rep.bad("R18.1", "arity:" + key, "%s is a bool keyword (flag emitted without value) but clap option %s takes a value (%s)" % (kw, flag, o.action), PYFILE); continue
            else:
                if not o.takes_value():
                    rep.bad("R18.1", "arity:" + key, "%s passes a value but clap option %s is a switch (%s)" % (kw, flag, o.action), PYFILE); continue
            # the option must be the one named like the keyword (a renamed/misrouted flag still 'exists')
            # compared on the public long name, not on the Rust field name (a field rename is not a behaviour change)
            if (o.long or "").replace("-", "_") != kw and not same_meaning(o.long, kw):
                rep.bad("R18.1", "misrouted:" + key, "keyword %s is sent as %s, which is clap option --%s" % (kw, flag, o.long), PYFILE); continue
            # value type
            if "int" in base and o.value_ty is not None:
                ty = o.value_ty.replace("crate::cli::utils::template::types::Template<", "")
                if ty not in INT_TYPES:
                    rep.bad("R18.1", "type:" + key, "%s is an int keyword but option %s parses %s" % (kw, flag, o.value_ty), PYFILE); continue
            # value domain
            if lits is not None:
                d = None; src = None
                if o.values is not None: d = set(o.values); src = "clap value_parser"
                elif o.id == "schema":
                    d = set(dom.get("preset_names", ())); src = "ZervSchemaPreset::from_str"
                    if fname == "flow": d = {x for x in d if x.startswith("standard")}; src += " (standard*)"
                elif o.id == "pre_release_label":
                    d = possible_values(F, o, rep)
                    if d is None: d = set(dom.get("valid_labels", ())) | set(dom.get("none_keywords", ())); src = "VALID_LABELS + none keywords"
                    else: src = "PossibleValuesParser"
                elif o.id == "post_mode":
                    d = possible_values(F, o, rep); src = "PossibleValuesParser"
                elif o.id == "format":
                    d = check_formats(F, rep); src = "run_check_command match arms"
                if d is None:
                    rep.bad("R18.1", "domain-unknown:" + key, "cannot determine the value domain of option %s to compare with Literal%s" % (flag, sorted(lits)), PYFILE); continue
                extra = lits - d
                if extra:
                    rep.bad("R18.1", "domain:" + key, "Literal values %s of %s are not accepted by option %s (%s: %s)" % (sorted(extra), kw, flag, src, sorted(d)), PYFILE); continue
                rep.ok("R18.1", "%s: %s -> %s domain %s subset of %s" % (key, kw, flag, sorted(lits), src), sample=sorted(d), nontrivial_key=key)
            else:
                rep.ok("R18.1", "%s: %s -> %s (%s, %s)" % (key, kw, flag, o.action, o.value_ty), nontrivial_key=key)
        # R18.2 every keyword exactly once (stdin is the documented exception)
        for kw in kwonly:
            n = len(used.get(kw, []))
            if kw == "stdin":
                if n == 0 and tab.get("stdin_passed"): rep.ok("R18.2", "%s.stdin forwarded as process input" % fname)
                else: rep.bad("R18.2", "stdin:" + fname, "stdin is not forwarded as the process input", PYFILE)
            elif n != 1:
                rep.bad("R18.2", "keyword-count:%s.%s" % (fname, kw), "keyword %s of zerv.%s appears %d times in the flag table" % (kw, fname, n), PYFILE)
            else:
                rep.ok("R18.2", "%s.%s used once" % (fname, kw))
    extend_args_shape(api, rep)
    run_cmd_shape(api, rep)
    no_decorators(api, rep)
    return core.finish(rep, explanation=EXPL, assumptions=ASSUME, trusted=TRUST)

def same_meaning(opt_id, kw):
    return {("directory", "repo_path")}.__contains__((opt_id, kw))

def possible_values(F, o, rep):
    """domain of an option whose value_parser is PossibleValuesParser::new(CONST)"""
    f = F.fn(o.owner)
    if f is None: return None
    for bi, t in f.calls():
        if mir.call_matches(t, ("PossibleValuesParser::new",)):
            # does this parser flow into our Arg?  (the derive builds args one after another: match by the Arg id on the same chain)
            vals = clapx.const_str_array(F, f, t[2][0])
            # find the Command::arg whose chain includes a value_parser fed by this call
            for b2, t2 in f.calls():
                if (mir.callee(t2) or "") == "clap::Arg::value_parser":
                    sl = [x for x in mir.trace_op(f, t2[2][1], transparent=()) if x.kind == "call" and x.data == bi]
                    if sl:
                        names, _ = mir.chain(f, t2[2][0], stop=("clap::Arg::new",), maxlen=60)
                        if names and mir.const_arg(f, names[-1][2][2][0]) == o.id:
                            return set(vals) if vals is not None else None
    return None

def check_formats(F, rep):
    fs = [f for f in F.find("cli::check::run_check_command") if f.kind == "fn"]
    if not fs: return None
    out = set()
    for bi, t in fs[0].calls():
        if mir.call_matches(t, ("PartialEq",)) and "str" in t[1].get("full", ""):
            for a in t[2]:
                v = mir.const_arg(fs[0], a)
                if isinstance(v, str): out.add(v)
    return out or None

# ---------------------------------------------------------------------------
def _is_name(n, s): return isinstance(n, ast.Name) and n.id == s

def extend_args_shape(api, rep):
    """R18.3 by abstract interpretation of _extend_args (and any helper it calls) on the four value classes: the verdict is
    about what the function computes, not how it is written (loop + append, helper returning tokens, extend, ...)."""
    import pyabs
    rule = "R18.3"
    fn = api.funcs.get("_extend_args")
    if not rep.anchor(rule, "python _extend_args", fn): return
    FLAG = ("const", "FLAG"); V = pyabs.other("v")
    cases = [("None", pyabs.NONE, [], "skip-guard", "None must add nothing"),
             ("False", pyabs.B(False), [], "skip-guard", "False must add nothing"),
             ("True", pyabs.B(True), [FLAG], "flag-append", "True must add the flag alone"),
             ("0", ("const", 0), [FLAG, ("str", ("const", 0))], "skip-guard", "the integer 0 is a value (distance=0), not an absent keyword: it must add the flag followed by str(value)"),
             ("7", ("const", 7), [FLAG, ("str", ("const", 7))], "value-append", "an integer must add the flag followed by str(value)"),
             ("''", ("const", ""), [FLAG, ("str", ("const", ""))], "skip-guard", "the empty string is a value, not an absent keyword: it must add the flag followed by str(value)"),
             ("'x'", ("const", "x"), [FLAG, ("str", ("const", "x"))], "value-append", "a string must add the flag followed by str(value)")]
    for label, val, want, key, why in cases:
        try:
            toks, same = pyabs.extend_args_tokens(api.funcs, val)
        except pyabs.Unsupported as e:
            rep.undecided(rule, "unrecognised-shape:_extend_args:" + label, "_extend_args uses a construct outside the evaluated subset (%s)" % e, PYFILE); continue
        except RecursionError:
            rep.undecided(rule, "unrecognised-shape:_extend_args:" + label, "_extend_args recursion", PYFILE); continue
        if toks is None:
            rep.bad(rule, "return", "_extend_args does not return its list (for %s)" % label, PYFILE); continue
        got = toks[1:] if toks[:1] == [("const", "SUB")] else None
        if got == want and same: rep.ok(rule, "_extend_args([sub], [(flag, %s)]) == [sub] + %s" % (label, want), nontrivial_key="ea" + label)
        elif got == want: rep.bad(rule, "return", "_extend_args returns a different list than the one it was given (for %s)" % label, PYFILE)
        else: rep.bad(rule, key, "_extend_args: %s; for value %s it produces %s after the sub-command (expected %s)" % (why, label, got if got is not None else toks, want), PYFILE)

def no_decorators(api, rep):
    """R18.5: the public functions and the two helpers are plain functions: a decorator (lru_cache, retry, ...) changes what a
    call returns or when the command runs"""
    # every function of the module: a cache on a helper that the public functions delegate to has the same effect
    allf = {n_.name: n_ for n_ in ast.walk(api.tree) if isinstance(n_, (ast.FunctionDef, ast.AsyncFunctionDef))} if getattr(api, "tree", None) is not None else {}
    for nme in sorted(set(("version", "flow", "check", "render", "_extend_args", "_run_zerv_command")) | set(allf)):
        fn = api.funcs.get(nme) or allf.get(nme)
        if fn is None: continue
        if fn.decorator_list:
            rep.bad("R18.5", "decorated:" + nme, "zerv.%s carries decorator(s) %s: the call no longer runs the command line every time (e.g. a cache returns stale output when the environment, the clock or the repository changed)" % (nme, [ast.unparse(d_) if hasattr(ast, "unparse") else ast.dump(d_) for d_ in fn.decorator_list]), PYFILE)
        else: rep.ok("R18.5", "zerv.%s is undecorated" % nme)

def run_cmd_shape(api, rep):
    """R18.4: subprocess.run([binary, *args], input=stdin, capture_output=True, text=True); on every path a return happens only
    when returncode == 0 and returns result.stdout.strip(); every returncode != 0 path raises.  Paths are enumerated on the AST."""
    import pyabs
    rule = "R18.4"
    fn = api.funcs.get("_run_zerv_command")
    if not rep.anchor(rule, "python _run_zerv_command", fn): return
    runs = [c for c in ast.walk(fn) if isinstance(c, ast.Call) and isinstance(c.func, ast.Attribute) and c.func.attr == "run" and _is_name(c.func.value, "subprocess")]
    if len(runs) != 1:
        rep.undecided(rule, "unrecognised-shape:run", "expected exactly one subprocess.run call", PYFILE); return
    run = runs[0]
    assigns = {}
    for s_ in ast.walk(fn):
        if isinstance(s_, ast.Assign) and len(s_.targets) == 1 and isinstance(s_.targets[0], ast.Name): assigns.setdefault(s_.targets[0].id, []).append(s_.value)
    def resolve(n, depth=0):
        while isinstance(n, ast.Name) and n.id in assigns and len(assigns[n.id]) == 1 and depth < 5: n = assigns[n.id][0]; depth += 1
        return n
    resname = None
    for nme, vals in assigns.items():
        if any(v is run for v in vals): resname = nme
    co = call_kw(run, "capture_output")
    if isinstance(co, ast.Constant) and co.value is True: rep.ok(rule, "capture_output=True")
    else: rep.bad(rule, "capture-output", "subprocess.run is not called with capture_output=True (stdout would not be captured)", PYFILE)
    tx = call_kw(run, "text")
    if isinstance(tx, ast.Constant) and tx.value is True: rep.ok(rule, "text=True")
    else: rep.bad(rule, "text-mode", "subprocess.run is not called with text=True", PYFILE)
    inp = call_kw(run, "input")
    stdin_param = fn.args.args[1].arg if len(fn.args.args) > 1 else "stdin"
    if _is_name(inp, stdin_param): rep.ok(rule, "input=stdin")
    else: rep.bad(rule, "stdin-input", "stdin is not passed as the process input", PYFILE)
    a0 = resolve(run.args[0]) if run.args else None
    def is_bin(x):
        x = resolve(x)
        return isinstance(x, ast.Call) and _is_name(x.func, "find_zerv_bin") and not x.args
    good_argv = isinstance(a0, ast.List) and len(a0.elts) == 2 and is_bin(a0.elts[0]) and isinstance(a0.elts[1], ast.Starred) and _is_name(a0.elts[1].value, fn.args.args[0].arg)
    if good_argv: rep.ok(rule, "argv = [find_zerv_bin(), *args]", nontrivial_key="argv")
    else: rep.bad(rule, "argv", "the command line is not [find_zerv_bin(), *args]", PYFILE)
    def is_stdout_strip(v):
        v = resolve(v)
        return (isinstance(v, ast.Call) and isinstance(v.func, ast.Attribute) and v.func.attr == "strip" and not v.args
                and isinstance(v.func.value, ast.Attribute) and v.func.value.attr == "stdout" and _is_name(v.func.value.value, resname))
    def rc_zero(test, truth):
        """True / False when the condition fixes returncode == 0 / != 0, None when it says nothing about it, 'unknown' otherwise"""
        t = test
        if isinstance(t, ast.UnaryOp) and isinstance(t.op, ast.Not): r = rc_zero(t.operand, not truth); return r
        def is_rc(x): return isinstance(x, ast.Attribute) and x.attr == "returncode" and _is_name(x.value, resname)
        if isinstance(t, ast.Compare) and len(t.ops) == 1 and is_rc(t.left) and isinstance(t.comparators[0], ast.Constant) and t.comparators[0].value == 0:
            if isinstance(t.ops[0], ast.NotEq): return not truth
            if isinstance(t.ops[0], ast.Eq): return truth
            # `returncode > 0`: true means non-zero; false leaves zero OR negative (killed by a signal): zero is not established
            if isinstance(t.ops[0], ast.Gt): return False if truth else "weak"
            if isinstance(t.ops[0], ast.Lt): return False if truth else "weak"
            if isinstance(t.ops[0], ast.GtE): return "weak"
            if isinstance(t.ops[0], ast.LtE): return "weak"
            return "unknown"
        if is_rc(t): return not truth            # `if result.returncode:` is true for non-zero
        if any(is_rc(x) for x in ast.walk(t)): return "unknown"
        return None
    try:
        ps = pyabs.paths(fn.body)
    except pyabs.Unsupported as e:
        rep.undecided(rule, "unrecognised-shape:_run_zerv_command", "control flow outside the evaluated subset (%s)" % e, PYFILE); return
    probs = []; undecided = []; n_ret = 0
    for conds, (kind, node) in ps:
        zs = [rc_zero(t, tr) for t, tr in conds]
        if "unknown" in zs: undecided.append("a test on returncode this rule does not evaluate"); continue
        weak = "weak" in zs
        zs = [z for z in zs if z is not None and z != "weak"]
        if True in zs and False in zs: continue                    # infeasible
        zero = zs[0] if zs else None
        if weak and zero is None and kind == "return":
            n_ret += 1
            probs.append(("raise-guard", "a path returns after a one-sided test of returncode (> 0 / < 0): a process killed by a signal (negative code) is not treated as a failure")); continue
        if kind == "return":
            n_ret += 1
            if zero is not True: probs.append(("raise-guard", "a path returns without having established returncode == 0 (a failing command does not raise)"))
            elif not is_stdout_strip(node.value): probs.append(("return-value", "a path returns something other than result.stdout.strip()"))
        elif kind == "fall":
            probs.append(("return-value" if zero is True else "raise-guard", "a path falls off the end of _run_zerv_command (returns None)"))
        elif kind == "raise" and zero is True:
            probs.append(("raise-on-success", "a path raises although returncode == 0"))
    if undecided and not probs: rep.undecided(rule, "unrecognised-shape:_run_zerv_command", undecided[0], PYFILE)
    for k, msg in sorted(set(probs)): rep.bad(rule, k, msg, PYFILE)
    if not probs and not undecided and n_ret:
        rep.ok(rule, "every return is result.stdout.strip() under returncode == 0; every returncode != 0 path raises (%d paths)" % len(ps), nontrivial_key="paths")

EXPL = ("Static table agreement between python/zerv/__init__.py (parsed with ast, never imported) and the clap option tables read from the MIR of the derive-generated "
        "augment_args / augment_subcommands. For each of the 42+28+2+4 keywords: the emitted flag names an option of that sub-command (or a global one), the option is the one carrying the keyword's name, "
        "bool keywords map to switch actions and value keywords to value-taking actions, int keywords to integer value types, every Literal value lies in the option's domain "
        "(clap value_parser arrays, PossibleValuesParser constants, ZervSchemaPreset::from_str's string table, VALID_LABELS + Template none-keywords, check's match arms); positionals agree; each keyword appears once; "
        "_extend_args and _run_zerv_command have the statement shape that gives 'None/False add nothing', 'returns stripped stdout' and 'raises on failure'. "
        "Not decided: that the spawned binary is the one built from /repo; behaviour of subprocess.")
ASSUME = ["clap's derive output (builder call chains in augment_args) defines the CLI as clap documents", "python's subprocess.run semantics"]
TRUST = ["rustc MIR of the clap derive expansion", "zfacts exporter", "python ast module", "rules/c18.py, clapx.py"]
