"""Reference grammars (oracles).  These are statements of the external specifications,
not copies of zerv's source; each is given twice, independently, and the two are
checked equivalent on every run so a transcription slip in either is caught."""

# --- SemVer 2.0.0 ------------------------------------------------------------
# (1) the regular expression published at semver.org (\d spelled [0-9]), with the
#     optional leading "v" that the property statement allows.
SEMVER_ORG = (r"^v?(0|[1-9][0-9]*)\.(0|[1-9][0-9]*)\.(0|[1-9][0-9]*)"
              r"(?:-((?:0|[1-9][0-9]*|[0-9]*[a-zA-Z-][0-9a-zA-Z-]*)(?:\.(?:0|[1-9][0-9]*|[0-9]*[a-zA-Z-][0-9a-zA-Z-]*))*))?"
              r"(?:\+([0-9a-zA-Z-]+(?:\.[0-9a-zA-Z-]+)*))?$")

# (2) generated from the BNF of the specification
def semver_bnf():
    letter = "[A-Za-z]"
    positive = "[1-9]"
    digit = "[0-9]"
    non_digit = "(?:%s|-)" % letter
    ident_char = "(?:%s|%s)" % (digit, non_digit)
    ident_chars = "(?:%s)+" % ident_char
    digits = "(?:%s)+" % digit
    numeric = "(?:0|%s|%s%s)" % (positive, positive, digits)
    alnum = "(?:%s|%s%s|%s%s|%s%s%s)" % (non_digit, non_digit, ident_chars, ident_chars, non_digit, ident_chars, non_digit, ident_chars)
    pre_id = "(?:%s|%s)" % (alnum, numeric)
    build_id = "(?:%s|%s)" % (alnum, digits)
    pre = r"%s(?:\.%s)*" % (pre_id, pre_id)
    build = r"%s(?:\.%s)*" % (build_id, build_id)
    core = r"%s\.%s\.%s" % (numeric, numeric, numeric)
    valid = r"(?:%s|%s-%s|%s\+%s|%s-%s\+%s)" % (core, core, pre, core, build, core, pre, build)
    return "^v?%s$" % valid

# --- PEP 440 -----------------------------------------------------------------
# (1) Appendix B VERSION_PATTERN, verbatim (re.VERBOSE | re.IGNORECASE), without the
#     surrounding \s* (the property is about strings without surrounding whitespace).
PEP440_APPENDIX_B = r"""(?ix)^
    v?
    (?:
        (?:(?P<epoch>[0-9]+)!)?                           # epoch
        (?P<release>[0-9]+(?:\.[0-9]+)*)                  # release segment
        (?P<pre>                                          # pre-release
            [-_\.]?
            (?P<pre_l>alpha|a|beta|b|preview|pre|c|rc)
            [-_\.]?
            (?P<pre_n>[0-9]+)?
        )?
        (?P<post>                                         # post release
            (?:-(?P<post_n1>[0-9]+))
            |
            (?:
                [-_\.]?
                (?P<post_l>post|rev|r)
                [-_\.]?
                (?P<post_n2>[0-9]+)?
            )
        )?
        (?P<dev>                                          # dev release
            [-_\.]?
            (?P<dev_l>dev)
            [-_\.]?
            (?P<dev_n>[0-9]+)?
        )?
    )
    (?:\+(?P<local>[a-z0-9]+(?:[-_\.][a-z0-9]+)*))?       # local version
$"""

# (2) composed from the prose of PEP 440 ("Normalization" section), every letter
#     spelled as an explicit two-member ASCII class, no case-insensitive flag.
def _ci(word):
    return "".join("[%s%s]" % (c.lower(), c.upper()) if c.isalpha() else c for c in word)

def pep440_prose():
    num = "[0-9]+"
    sep = r"[-_.]?"
    pre_labels = ["alpha", "a", "beta", "b", "rc", "c", "pre", "preview"]
    pre = "(?:%s(?:%s)%s(?:%s)?)" % (sep, "|".join(_ci(w) for w in pre_labels), sep, num)
    post_spelled = "(?:%s(?:%s)%s(?:%s)?)" % (sep, "|".join(_ci(w) for w in ["post", "rev", "r"]), sep, num)
    post_implicit = "(?:-%s)" % num
    post = "(?:%s|%s)" % (post_implicit, post_spelled)
    dev = "(?:%s%s%s(?:%s)?)" % (sep, _ci("dev"), sep, num)
    alnum = "[a-zA-Z0-9]+"
    local = r"(?:\+%s(?:[-_.]%s)*)" % (alnum, alnum)
    return r"^[vV]?(?:%s!)?%s(?:\.%s)*%s?%s?%s?%s?$" % (num, num, num, pre, post, dev, local)

PEP440_PRE_LABEL_MAP = {"alpha": "Alpha", "a": "Alpha", "beta": "Beta", "b": "Beta",
                        "rc": "Rc", "c": "Rc", "pre": "Rc", "preview": "Rc"}
