"""Sanitiser rules shared by C01 and C16."""
import mir, panics

SAN = "crate::utils::sanitize::Sanitizer::"
ASCII_ALNUM_PREDS = {
    "is_ascii_alphanumeric": True, "is_ascii_digit": True, "is_ascii_alphabetic": True, "is_ascii_lowercase": True,
    "is_ascii_uppercase": True, "is_ascii_hexdigit": True,
    "is_alphanumeric": False, "is_alphabetic": False, "is_numeric": False, "is_lowercase": False, "is_uppercase": False,
}

def san_fns(F):
    return {p: f for p, f in F.fns.items() if p.startswith("crate::utils::sanitize::")}

def char_class_guard(F, rep, rule):
    """Every input-derived char appended to a sanitiser result is guarded by an ASCII-alphanumeric predicate on that char."""
    n = 0
    for p, f in san_fns(F).items():
        for bi, t in f.calls():
            c = mir.callee(t) or ""
            if c.endswith("String::push"):
                n += 1
                site = "%s bb%d line %s" % (f.where(), bi, f.blocks[bi]["line"])
                key = "%s#%d" % (p.replace("crate::", ""), bi)
                chk = panics.okey(f, t[2][1])
                verdict = None; seen_pred = []
                for desc, pol, d in mir.guards_of(f, bi):
                    if desc[0] == "call" and desc[1] and "char::methods::<impl char>::" in desc[1]:
                        m = desc[1].rsplit("::", 1)[-1]
                        same = panics.okey(f, desc[2][2][0]) == chk
                        seen_pred.append((m, pol, same))
                        if same and pol is True and ASCII_ALNUM_PREDS.get(m) is True: verdict = True
                        if same and pol is True and m == "is_ascii":
                            # is_ascii && is_alphanumeric
                            if any(m2 in ("is_alphanumeric", "is_alphabetic", "is_numeric") and p2 is True and s2 for m2, p2, s2 in seen_pred): verdict = True
                    if desc[0] == "call" and desc[1] and desc[1].endswith("char::methods::<impl char>::is_ascii") and pol is True:
                        pass
                # origin of the char must be the input's chars()
                from_input = any(o.kind == "call" and "Chars" in (o.fn.blocks[o.data]["t"][1].get("full") or "") for o in mir.trace_op(f, t[2][1], transparent=()))
                if verdict:
                    rep.ok(rule, "char pushed under an ASCII-alphanumeric guard on the same char", sample="%s guards=%s" % (site, seen_pred), nontrivial_key=key)
                elif from_input or True:
                    rep.bad(rule, "non-ascii-class:" + p.replace("crate::", ""), "an input character is appended to the sanitised text without an ASCII-alphanumeric guard (predicates on it: %s): Unicode letters/digits would pass" % (seen_pred or "none"), site)
            elif c.endswith("String::push_str") or c.endswith("String::insert_str") or c.endswith("String::insert"):
                # only the separator or constants may be appended
                srcs = mir.trace_op(f, t[2][1])
                ok = all((o.kind == "param" and "separator" in o.path_str()) or o.kind == "const" for o in srcs)
                site = "%s bb%d line %s" % (f.where(), bi, f.blocks[bi]["line"])
                if ok: rep.ok(rule, "push_str of the separator / a constant", sample=site)
                else: rep.undecided(rule, "unrecognised-shape:push_str:" + p.replace("crate::", ""), "text appended to a sanitiser result that is neither the separator nor a constant: %r" % srcs, site)
        # filter/map closures that build strings: closures in the sanitiser calling char predicates without ascii
    rep.floor(rule, "char append sites in the sanitiser", n, 1)

def predicates_in_closures(F, rep, rule, fn_suffix, want="is_ascii_digit", floor=1):
    """closures passed to Iterator::all / any over the characters of a string must test `want` on their parameter.
    fn_suffix None: every function of the sanitiser module (whatever the helpers are called)"""
    if fn_suffix is None:
        n_all = 0
        for p, f0 in sorted(san_fns(F).items()):
            if f0.kind == "closure" or "::tests::" in p: continue
            n_all += _predicates_in(F, rep, rule, f0, p.rsplit("::", 1)[-1], want)
        rep.floor(rule, "digit predicates in the sanitiser module", n_all, floor)
        return None
    fs = [f for p, f in san_fns(F).items() if p.endswith(fn_suffix)]
    if not rep.anchor(rule, "Sanitizer::" + fn_suffix, fs): return
    n = _predicates_in(F, rep, rule, mir.inlined(F, fs[0]), fn_suffix, want)
    rep.floor(rule, "digit predicates in " + fn_suffix, n, floor)
    return fs[0]

def _predicates_in(F, rep, rule, f, fn_suffix, want):
    n = 0
    for bi, t in f.calls():
        if (mir.callee(t) or "").endswith("Iterator::all") or (mir.callee(t) or "").endswith("Iterator::any"):
            for o in mir.trace_op(f, t[2][1]):
                if o.kind == "const" and o.data.get("k") == "fn":
                    n += 1
                    nm = o.data["path"].rsplit("::", 1)[-1]
                    site = "%s bb%d" % (f.where(), bi)
                    if nm == want: rep.ok(rule, "%s: all(char::%s)" % (fn_suffix, want), sample=site, nontrivial_key=fn_suffix + str(bi))
                    else: rep.bad(rule, "digit-class:" + fn_suffix, "%s classifies characters with %s instead of %s (Unicode digits would count as digits)" % (fn_suffix, nm, want), site)
                if o.kind == "agg":
                    rv = mir.rv_at(f, *o.data)
                    if rv[1].get("k") == "closure":
                        c = F.fn(rv[1]["path"]); n += 1
                        preds = [(mir.callee(t2) or "").rsplit("::", 1)[-1] for b2, t2 in c.calls() if "char::methods" in (mir.callee(t2) or "")]
                        site = "%s line %s" % (c.where(), c.line)
                        if preds == [want]: rep.ok(rule, "%s: all(|c| c.%s())" % (fn_suffix, want), sample=site, nontrivial_key=fn_suffix + str(bi))
                        else: rep.bad(rule, "digit-class:" + fn_suffix, "%s classifies characters with %s instead of %s (Unicode digits would count as digits)" % (fn_suffix, preds, want), site)
    return n

def phase_order(F, rep, rule):
    fs = [f for p, f in san_fns(F).items() if p.endswith("Sanitizer::sanitize_to_string")]
    if not rep.anchor(rule, "Sanitizer::sanitize_to_string", fs): return
    # new helpers are seen through; the phase functions themselves stay visible as calls
    f = mir.inlined(F, fs[0], keep=("replace_non_alphanumeric", "remove_leading_zeros", "remove_leading_zeros_from_segment"))
    phases = {"lowercase": ("to_lowercase", "to_ascii_lowercase"), "replace": ("Sanitizer::replace_non_alphanumeric",), "truncate": ("String::truncate", "Iterator::take", "Iterator::take_while", "Iterator::nth"),
              "strip_zeros": ("Sanitizer::remove_leading_zeros",), "trim": ("trim_start_matches", "trim_end_matches", "trim_matches")}
    at = {k: [bi for bi, t in f.calls() if any((mir.callee(t) or "").endswith(x) for x in v)] for k, v in phases.items()}
    for k in ("replace", "truncate", "strip_zeros", "trim"):
        if not at[k]:
            rep.bad(rule, "phase-missing:" + k, "sanitize_to_string has no %s phase" % k, f.where()); return
    # invariants: replace establishes alphabet; truncate may break 'no leading-zero numeric segment' and 'no trailing separator';
    # strip_zeros re-establishes the first, trim the second  =>  replace < truncate < strip_zeros < trim on every path
    order = [("lowercase", "replace"), ("replace", "truncate"), ("truncate", "strip_zeros"), ("strip_zeros", "trim"), ("truncate", "trim"), ("replace", "strip_zeros")]
    for a, b in order:
        if not at[a]: continue
        bad = [(x, y) for x in at[a] for y in at[b] if x in mir.reachable(f, y) and x != y]
        if bad:
            rep.bad(rule, "phase-order:%s-after-%s" % (a, b), "phase %s can run after phase %s (blocks %s): an invariant established earlier can be broken again" % (a, b, bad), f.where())
        else:
            rep.ok(rule, "%s precedes %s on every path" % (a, b), nontrivial_key=a + b)
    # the final value returned is the trimmed one (or the truncated/stripped one when there is no separator)
    return f

def phase_guards(F, rep, rule):
    """Each phase of sanitize_to_string runs under its own setting only: the cut whenever a max_length is set and the text is longer
    (no further condition can excuse a needed cut), zero stripping whenever zeros are not kept (with or without a separator)."""
    fs = [f for p, f in san_fns(F).items() if p.endswith("Sanitizer::sanitize_to_string")]
    if not fs: return
    f = mir.inlined(F, fs[0], keep=("replace_non_alphanumeric", "remove_leading_zeros", "remove_leading_zeros_from_segment"))
    def field_of(d):
        return {e[2] for o in (mir.trace_place(f, d[1]) if d[0] == "discr" else []) for e in o.path if not isinstance(e, str) and e[0] == "f"} | ({e[2] for e in d[1][1:] if not isinstance(e, str) and e[0] == "f"} if d[0] in ("discr", "place") and isinstance(d[1], list) else set())
    ncut = nstrip = 0
    for bi, t in f.calls():
        c = mir.callee(t) or ""
        site = "%s bb%d line %s" % (f.where(), bi, f.blocks[bi]["line"])
        if c.endswith("String::truncate"):
            ncut += 1
            extra = []
            for d, pol, dd in mir.guards_of(f, bi):
                if d[0] == "discr": continue
                if d[0] == "place" and "max_length" in field_of(d): continue
                extra.append(str(d[1]).rsplit("::", 1)[-1] if d[0] == "call" else str(d[1]))
            if extra: rep.bad(rule, "cut-under-extra-condition", "the cut to max_length is made only when %s also holds: a text that is longer than max_length after lower-casing / replacing (U+0130 lower-cases to two characters) is returned uncut" % extra, site)
            else: rep.ok(rule, "the cut depends only on max_length being set and the text being longer", sample=site, nontrivial_key="cutguard%d" % bi)
        if c.endswith("Sanitizer::remove_leading_zeros") or c.endswith("Sanitizer::remove_leading_zeros_from_segment"):
            nstrip += 1
            sep_guard = [d for d, pol, dd in mir.guards_of(f, bi) if d[0] == "discr" and "separator" in field_of(d) and isinstance(pol, tuple) and pol[0] == "in" and set(pol[1]) == {"Some"}]
            other = [b2 for b2, t2 in f.calls() if b2 != bi and ((mir.callee(t2) or "").endswith("Sanitizer::remove_leading_zeros") or (mir.callee(t2) or "").endswith("Sanitizer::remove_leading_zeros_from_segment"))]
            if sep_guard and not other: rep.bad(rule, "strip-needs-separator", "leading zeros are stripped only when a separator is set: with `separator: none` an all-digit result keeps them (\"007\" stays \"007\")", site)
            else: rep.ok(rule, "zero stripping does not depend on a separator being set", sample=site, nontrivial_key="stripguard%d" % bi)
    rep.floor(rule, "cut / zero-strip sites in sanitize_to_string", ncut + nstrip, 2)

def integer_sanitiser(F, rep, rule):
    fs = [f for p, f in san_fns(F).items() if p.endswith("Sanitizer::sanitize_to_integer")]
    if not rep.anchor(rule, "Sanitizer::sanitize_to_integer", fs): return
    f = mir.inlined(F, fs[0])
    # every return of a non-constant-empty string is guarded by all(is_ascii_digit) true and is_empty false
    n = 0
    for sp in mir.sym_paths(f, limit=20000):
        r = sp.ret()
        txt = mir.show(r)
        const_empty = r[0] == "call" and ((r[2] and r[2][0] == ("const", "")) or (not r[2] and str(r[1]).endswith("String::new")))
        if const_empty: continue
        n += 1
        fs_ = sp.facts()
        import parsers as _p
        def digit_pred(d):
            t_ = f.blocks[d[3]]["t"] if len(d) > 3 and isinstance(d[3], int) and f.blocks[d[3]]["t"][0] == "call" else None
            return t_ is not None and len(t_[2]) > 1 and _p.closure_pred_name(F, f, t_[2][1]) == "is_ascii_digit"
        has_all = any(d[0] == "call" and isinstance(d[1], str) and d[1].endswith("Iterator::all") and truth is True and digit_pred(d) for d, truth, b in fs_)
        nonempty = any(d[0] == "call" and isinstance(d[1], str) and d[1].endswith("::is_empty") and truth is False for d, truth, b in fs_)
        if has_all and nonempty: rep.ok(rule, "non-empty result only under all(is_ascii_digit) && !is_empty", sample=txt[:80], nontrivial_key="p%d" % n)
        else: rep.bad(rule, "uint-guard", "sanitize_to_integer can return %s without the digits-only / non-empty guard" % txt[:80], f.where())
    rep.floor(rule, "non-empty return paths of sanitize_to_integer", n, 2)


def segment_strippers(F):
    """private functions of the sanitiser module that (with helpers spliced in) test `chars().all(is_ascii_digit)` on a &str
    parameter and return that parameter unchanged when the test fails: the per-segment leading-zero strippers, whatever their name"""
    out = []
    for p, f in sorted(san_fns(F).items()):
        if f.kind == "closure" or not f.d.get("ret", "").endswith("String"): continue
        fi = mir.inlined(F, f, depth=3, ok=lambda F_, c_, cp, g_: g_ is not None and g_.kind != "closure" and cp.startswith("crate::utils::sanitize::"))
        has_all = [t for bi, t in fi.calls() if (mir.callee(t) or "").endswith("Iterator::all")]
        if not has_all: continue
        # which parameter is classified
        par = None
        for t in has_all:
            for kind, data in mir.deep_origins(fi, t[2][0]):
                if kind == "param" and data.isdigit() and fi.locals[int(data)].startswith("&str"): par = int(data)
        if par is None: continue
        # returns the parameter itself on some path where the digits test failed (that is what distinguishes it from the integer sanitiser)
        try: sps = mir.sym_paths(fi, limit=5000)
        except mir.TooManyPaths: continue
        unchanged_on_fail = False
        for sp in sps:
            fails = any(d[0] == "call" and str(d[1]).endswith("Iterator::all") and tr is False for d, tr, b in sp.facts()) or any(d[0] == "call" and str(d[1]).endswith("::is_empty") and tr is True for d, tr, b in sp.facts())
            r = sp.ret()
            while isinstance(r, tuple) and r[0] == "call" and r[2] and any(str(r[1]).endswith(x) for x in ("::to_string", "::to_owned", "Deref>::deref", "Clone>::clone")): r = r[2][0]
            if fails and r == ("param", par): unchanged_on_fail = True
        if unchanged_on_fail: out.append((f, fi, par))
    return out

def zero_strip_result(F, rep, rule):
    """On the all-digits paths of remove_leading_zeros_from_segment nothing may turn the raw segment text into the result:
    every string built there is trim_start_matches('0') of the segment, the constant "0", or the Display of a parsed integer.
    Path-based over the inlined body, so helper predicates / helper strippers are seen through."""
    cands = segment_strippers(F)
    # the innermost candidate is the per-segment stripper: the functions that call it contain its test too once it is spliced in
    names = {c[0].path for c in cands}
    cg_ = mir.CallGraph(F)
    def reaches_other(f0):
        return any(p in names and p != f0.path for p in cg_.closure([f0.path], generic=False))
    cands = [c for c in cands if not reaches_other(c[0])] or cands
    if not cands:
        rep.undecided(rule, "segment-stripper-not-found", "no function of the sanitiser module classifies a segment with chars().all(is_ascii_digit) and returns it unchanged otherwise", None); return
    f0, f, PAR = cands[0]
    rep.fn_seen(f0)
    CTORS = ("ToString>::to_string", "ToOwned>::to_owned", "String as std::convert::From", "Clone>::clone", "str>::to_string", "std::string::String::from", "::to_string", "::to_owned")
    def peel(e):
        while isinstance(e, tuple) and e[0] == "call" and isinstance(e[1], str) and any(e[1].endswith(x) for x in ("Deref>::deref", "String::as_str", "::as_ref", "::borrow")) and e[2]:
            e = e[2][0]
        return e
    n = 0; bad = set()
    try:
        paths = mir.sym_paths(f, limit=20000)
    except mir.TooManyPaths:
        rep.undecided(rule, "too-many-paths", "remove_leading_zeros_from_segment has too many paths to enumerate", f.where()); return
    for sp in paths:
        if not any(d[0] == "call" and isinstance(d[1], str) and d[1].endswith("Iterator::all") and truth is True for d, truth, b in sp.facts()): continue
        for b, name, args, t in sp.calls:
            if isinstance(name, str) and any(name.endswith(x) or x in name for x in CTORS) and args:
                n += 1
                if peel(args[0]) == ("param", PAR): bad.add("%s bb%d line %s" % (f.where(), b, f.blocks[b]["line"]))
            for a in args:
                if isinstance(a, tuple) and a[0] == "closure":
                    c = F.fn(a[1])
                    if c is None: continue
                    caps = dict(a[2])
                    for bi2, t2 in c.calls():
                        c2 = mir.callee(t2) or ""
                        if any(c2.endswith(x) or x in c2 for x in CTORS) and t2[2]:
                            n += 1
                            for o in mir.trace_op(c, t2[2][0], transparent=("ops::Deref>::deref", "String::as_str", "convert::AsRef")):
                                if o.kind == "upvar":
                                    ce = caps.get(o.data) or caps.get(str(o.data).lstrip("*&"))
                                    if ce is not None and peel(ce) == ("param", PAR): bad.add("%s bb%d line %s" % (c.where(), bi2, c.blocks[bi2]["line"]))
    if bad:
        rep.bad(rule, "zeros-not-stripped", "on the all-digits branch the segment text can be returned without stripping its leading zeros (%s): e.g. a digit run too long for an integer parse keeps its zeros" % sorted(bad), f.where())
    else:
        rep.ok(rule, "every string produced on the all-digits paths is stripped text, \"0\" or an integer rendering (%d string constructions)" % n, nontrivial_key="zs")
    rep.floor(rule, "string constructions on the all-digits branch", n, 1)


def _strip_wrappers(e):
    """peel value-preserving / trimming wrappers off a symbolic string expression"""
    while isinstance(e, tuple) and e[0] == "call" and isinstance(e[1], str) and any(e[1].endswith(x) for x in (
            "ToString>::to_string", "::to_string", "::to_owned", "::trim_end_matches", "::trim_start_matches", "::trim_matches", "Deref>::deref", "::as_str", "Clone>::clone", "::trim", "String as std::convert::From<&str>>::from")):
        e = e[2][0]
    return e

def replace_result_origin(F, rep, rule):
    """replace_non_alphanumeric returns the accumulator built by the guarded push loop whenever a separator is set;
    returning (a trimmed copy of) the input is allowed only when the separator is None."""
    fs = [f for p, f in san_fns(F).items() if p.endswith("Sanitizer::replace_non_alphanumeric")]
    if not rep.anchor(rule, "Sanitizer::replace_non_alphanumeric", fs): return
    f = mir.inlined(F, fs[0])
    n = 0; bad = []
    # the function has a loop: enumerate acyclic paths (loop taken at most once), enough to see every return
    for p in mir.enum_paths(f, limit=20000):
        if f.blocks[p[-1]]["t"][0] != "ret": continue
        sp = mir.SymPath(f, p)
        base = _strip_wrappers(sp.ret())
        n += 1
        if base == ("param", 2):
            none_guard = any(d[0] == "discr" and "separator" in mir.show(d[1]) and rel == "eq" and 0 in vals or (d[0] == "discr" and "separator" in mir.show(d[1]) and rel == "ne" and 1 in vals) for d, (rel, vals), b in sp.conds)
            if not none_guard: bad.append("input returned on a path where a separator is set (conditions: %s)" % [mir.show(d)[:40] for d, o, b in sp.conds][:4])
        elif base[0] == "call" and isinstance(base[1], str) and ("String::new" in base[1] or "String::with_capacity" in base[1]):
            pass
        elif base[0] == "local" or base[0] == "call":
            # accumulator after pushes shows as the String::new call; anything else is unexpected
            if not (base[0] == "call" and "String" in str(base[1])): bad.append("returns %s" % mir.show(base)[:60])
    if bad:
        rep.bad(rule, "replace-bypassed", "replace_non_alphanumeric can return text that did not go through the collapsing loop: %s" % sorted(set(bad))[:2], f.where())
    else:
        rep.ok(rule, "every return with a separator set is the accumulator of the guarded push loop (%d return paths)" % n, nontrivial_key="acc")
    rep.floor(rule, "return paths of replace_non_alphanumeric", n, 2)

def zero_strip_paths(F, rep, rule):
    """path-sensitive form of the zero-strip rule: on every path where all(is_ascii_digit) held, the result is not the raw segment"""
    cands = segment_strippers(F)
    names = {c[0].path for c in cands}
    cg_ = mir.CallGraph(F)
    cands = [c for c in cands if not any(p in names and p != c[0].path for p in cg_.closure([c[0].path], generic=False))] or cands
    if not cands: return
    f0, f, PAR = cands[0]
    n = 0; bad = []
    for p in mir.enum_paths(f, limit=5000):
        if f.blocks[p[-1]]["t"][0] != "ret": continue
        sp = mir.SymPath(f, p)
        digits = any(d[0] == "call" and isinstance(d[1], str) and d[1].endswith("Iterator::all") and not ((rel == "eq" and 0 in vals) or (rel == "ne" and 0 not in vals)) for d, (rel, vals), b in sp.conds)
        if not digits: continue
        n += 1
        r = sp.ret()
        inner = r
        while isinstance(inner, tuple) and inner[0] == "call" and isinstance(inner[1], str) and any(inner[1].endswith(x) for x in ("ToString>::to_string", "::to_string", "::to_owned", "Deref>::deref", "Clone>::clone")):
            inner = inner[2][0]
        if inner == ("param", PAR):
            bad.append("conditions %s" % [mir.show(d)[:50] for d, o, b in sp.conds])
    if bad: rep.bad(rule, "zeros-not-stripped-path", "an all-digit segment can be returned verbatim (leading zeros kept) on a path where the digits test succeeded: %s" % bad[:1], f.where())
    elif n: rep.ok(rule, "no all-digits path returns the raw segment (%d paths)" % n, nontrivial_key="zsp")


def strip_per_segment(F, rep, rule):
    """the per-segment stripper is applied to each separator-delimited segment: some function that reaches it (directly, through a
    closure or as a function value) splits its input at the configured separator.  A whole-text rewrite (one regex pass, a manual
    scan) is not evaluated segment by segment and is reported."""
    cands = segment_strippers(F)
    if not cands:
        return
    names = {c[0].path for c in cands}
    cg_ = mir.CallGraph(F)
    inner = [c for c in cands if not any(p in names and p != c[0].path for p in cg_.closure([c[0].path], generic=False))] or cands
    target = inner[0][0].path
    callers = []
    for p, f in sorted(san_fns(F).items()):
        if f.kind == "closure" or p == target: continue
        reach = cg_.closure([p], generic=True)
        if target in reach and p not in names - {target}: callers.append(f)
        elif target in reach: callers.append(f)
    splits = []
    for f in callers:
        for g in [f] + F.children(f.path):
            for bi, t in g.calls():
                c = mir.callee(t) or ""
                if c.endswith("core::str::<impl str>::split") and len(t[2]) > 1:
                    srcs = mir.trace_op(g, t[2][1])
                    if any("separator" in o.path_str() or (o.kind == "upvar" and "sep" in str(o.data)) or o.kind == "param" for o in srcs) or not all(o.kind == "const" for o in srcs): splits.append("%s bb%d" % (g.where(), bi))
    if splits: rep.ok(rule, "leading zeros are removed segment by segment: the input is split at the separator and each piece goes through %s" % target.rsplit("::", 1)[-1], sample=splits[0], nontrivial_key="perseg")
    else: rep.bad(rule, "strip-not-per-segment", "no function that reaches the per-segment zero stripper (%s) splits its input at the separator: adjacent numeric segments are not each stripped (e.g. a single regex pass consumes the separator between them)" % target.rsplit("::", 1)[-1], inner[0][0].where())
