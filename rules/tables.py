"""Table rules shared by C03 / C06 / C07: label tables and the smart-preset tier decision trees."""
import itertools, re, re
import mir

SANITIZE = "crate::utils::sanitize::Sanitizer::sanitize"

def enum_const_table(F, fn):
    """{variant: constant} for `match self { V => CONST, .. }` functions"""
    tab = {}
    for p in mir.enum_paths(fn):
        sp = mir.SymPath(fn, p)
        var = None
        for dsc, (rel, vals), b in sp.conds:
            if dsc[0] == "discr" and rel == "eq":
                d = mir.describe_discr(fn, b)
                if d[0] == "discr": var = {v: n for v, n in d[3]}.get(vals[0])
        r = sp.ret()
        if var is not None and r[0] == "const": tab[var] = r[1]
        elif var is not None and r[0] == "constx": tab[var] = r[1]
    return tab

def label_tables(F, rep, rule):
    w = F.fn("crate::version::zerv::components::Var::resolve_expanded_values_with_key_sanitizer")
    r = F.fn("crate::version::zerv::components::Var::try_from_secondary_label")
    ls = F.fn("crate::version::zerv::core::PreReleaseLabel::label_str")
    ts = F.fn("crate::version::zerv::core::PreReleaseLabel::try_from_str")
    for nm, f in (("resolve_expanded_values_with_key_sanitizer", w), ("Var::try_from_secondary_label", r), ("PreReleaseLabel::label_str", ls), ("PreReleaseLabel::try_from_str", ts)):
        if not rep.anchor(rule, nm, f): return
    rep.fn_seen(w, r, ls, ts)
    # helpers of the module and closures called directly (`labelled("major")`) are spliced in: the label constant then reaches
    # key_sanitizer.sanitize under the Var arm of its call site
    w = mir.inlined(F, w, depth=2, keep=("resolve_parts_with_value", "resolve_value", "label_str"), ok=lambda F_, c_, cp, g_: g_ is not None and g_.kind != "closure" and cp.startswith("crate::version::zerv::components::"))
    writer = {}
    for bi, t in w.calls():
        if (mir.callee(t) or "") != SANITIZE: continue
        recv = mir.trace_op(w, t[2][0])
        if not all((o.kind == "param" and o.data == 4) or (o.kind == "upvar" and "key_sanitizer" in str(o.data)) or "key_sanitizer" in o.path_str() for o in recv):
            # through an inlined closure the receiver is a captured reference: accept when it leads back to parameter 4
            deep = mir.deep_origins(w, t[2][0])
            if not any(k == "param" and d == "4" for k, d in deep): continue
        v = None
        for d, pol, dd in mir.guards_of(w, bi):
            if d[0] == "discr" and "components::Var" in str(d[2]) and isinstance(pol, tuple) and pol[0] == "in" and len(pol[1]) == 1: v = next(iter(pol[1]))
        c = mir.const_arg(w, t[2][1])
        if isinstance(c, str): writer[v] = c
        else:
            srcs = [mir.callee(o.fn.blocks[o.data]["t"]) or "" for o in mir.trace_op(w, t[2][1], transparent=()) if o.kind == "call"]
            writer[v] = ("call", srcs)
    reader, rdefault = mir.string_table(r)
    lab = enum_const_table(F, ls)
    # named constants: resolve `pre_release_labels::ALPHA`
    for k, v in list(lab.items()):
        if isinstance(v, str) and "::" in v:
            cf = F.fn(v)
            if cf is not None:
                pv = mir.promoted_value(F, {"named": v})
                if pv is not None and pv[0] == "const": lab[k] = pv[1]
    tfs, _ = mir.string_table(ts)
    for v in ("Epoch", "Post", "Dev"):
        lw = writer.get(v)
        back = reader.get(lw) if isinstance(lw, str) else None
        if isinstance(lw, str) and re.fullmatch(r"[a-z]+", lw) and back and any(("Var::" + v) in x for x in back):
            rep.ok(rule, "writer label %r for %s is read back as %s" % (lw, v, v), nontrivial_key="lab" + v)
        else:
            rep.bad(rule, "label-mismatch:" + v, "the label written for %s is %r but the reader maps it to %s" % (v, lw, back), w.where())
    pw = writer.get("PreRelease")
    if not (isinstance(pw, tuple) and any(x.endswith("PreReleaseLabel::label_str") for x in pw[1])):
        rep.bad(rule, "prerelease-label-source", "the pre-release label is not written with PreReleaseLabel::label_str (%s)" % (pw,), w.where())
    else:
        rep.ok(rule, "pre-release label written with label_str()")
    if not any("try_from_str" in x for x in rdefault):
        rep.bad(rule, "prerelease-label-reader", "try_from_secondary_label does not fall back to PreReleaseLabel::try_from_str", r.where())
    for L in ("Alpha", "Beta", "Rc"):
        s_ = lab.get(L)
        back = tfs.get(s_) if isinstance(s_, str) else None
        if isinstance(s_, str) and back and any(("PreReleaseLabel::" + L) in x for x in back): rep.ok(rule, "label_str(%s) = %r parses back to %s" % (L, s_, L), nontrivial_key="pl" + L)
        else: rep.bad(rule, "prelabel-mismatch:" + L, "label_str(%s) = %r, which try_from_str maps to %s" % (L, s_, back), ls.where())
    return writer, reader, lab

ATOMS = ("dirty", "distance", "pre_release", "post")

def tier_tree(F, fn):
    """{assignment tuple over ATOMS -> (callee short, const args)} by path enumeration over the function with its local
    helpers spliced in (a `SmartTier::select(vars)` style helper is seen through); infeasible paths are dropped."""
    rows = []
    fn = mir.inlined(F, fn, depth=3, ok=lambda F_, caller, cp, g: g is not None and g.kind != "closure" and cp.startswith("crate::schema::") and not re.search(r"_schema$", cp))
    def presence(e):
        return e[0] == "call" and str(e[1]).rsplit("::", 1)[-1] in ("is_some", "is_none") or e[0] == "discr"
    def defaulted(e, dflt):
        return e[0] == "call" and str(e[1]).endswith("::unwrap_or") and len(e[2]) == 2 and e[2][1] == ("const", dflt) or (e[0] == "call" and str(e[1]).endswith("::unwrap_or_default") and dflt in (0, False))
    try:
        sps = mir.sym_paths(fn, limit=20000)
    except mir.TooManyPaths:
        return None, "too many paths"
    for sp in sps:
        conds = {}
        for d, truth, b in sp.facts():
            if not isinstance(truth, bool):
                rel, vals = truth
                if d[0] == "discr" and d[1][0] == "agg": continue        # a value built on this path (already used for feasibility)
                if d[0] == "discr" and any(x in mir.show(d[1]) for x in (".pre_release", ".post")):
                    # match on the Option itself: presence test
                    atom = "pre_release" if ".pre_release" in mir.show(d[1]) else "post"
                    tr = (rel == "eq" and tuple(vals) == (1,)) or (rel == "ne" and 0 in vals and 1 not in vals)
                    if atom in conds and conds[atom] != tr: conds = None; break
                    conds[atom] = tr; continue
                return None, "unrecognised condition %s" % mir.show(d)[:60]
            txt = mir.show(d)
            atom = None
            if ".dirty" in txt: atom = "dirty"
            elif ".distance" in txt: atom = "distance"
            elif ".pre_release" in txt: atom = "pre_release"
            elif ".post" in txt: atom = "post"
            if atom is None: return None, "unrecognised condition %s" % txt[:60]
            # the kind of test per field: presence for pre_release / post (a set value, even 0, is printed by the renderers, so the
            # tier must include it), value-with-default for dirty / distance (Some(false) and Some(0) mean "nothing to show")
            if atom in ("pre_release", "post") and not presence(d): return None, "ATOM-KIND: %s is tested by value (%s), not by presence: a set %s that fails the value test is left out of the tier" % (atom, txt[:60], atom)
            if atom == "dirty" and not defaulted(d, False): return None, "ATOM-KIND: dirty is tested as %s, expected unwrap_or(false)" % txt[:60]
            if atom == "distance" and not (d[0] == "bin" and d[1] == "Gt" and defaulted(d[2], 0) and d[3] == ("const", 0)): return None, "ATOM-KIND: distance is tested as %s, expected unwrap_or(0) > 0" % txt[:60]
            if atom in ("pre_release", "post") and d[0] == "call" and str(d[1]).endswith("is_none"): truth = not truth
            if atom in conds and conds[atom] != truth: conds = None; break      # the same pure test with both outcomes: infeasible path
            conds[atom] = truth
        if conds is None: continue
        r = sp.ret()
        if r[0] != "call": return None, "returns %s" % mir.show(r)[:40]
        rows.append((conds, (str(r[1]).rsplit("::", 1)[-1], tuple(a[1] for a in r[2] if a[0] == "const"))))
    tab = {}
    for asg in itertools.product((False, True), repeat=4):
        a = dict(zip(ATOMS, asg))
        hits = {res for conds, res in rows if all(a[k] == v for k, v in conds.items())}
        if len(hits) != 1: return None, "assignment %s matches %d rows" % (a, len(hits))
        tab[asg] = hits.pop()
    return tab, None

def tier_law(a):
    """the documented tier: which components are printed"""
    if a["dirty"]: return "base_prerelease_post_dev"
    if a["distance"] or (a["pre_release"] and a["post"]): return "base_prerelease_post"
    if a["pre_release"]: return "base_prerelease"
    return "base"

def smart_tiers(F, rep, rule):
    st = F.fn("crate::schema::presets::ZervSchemaPreset::smart_standard_schema")
    ca = F.fn("crate::schema::presets::ZervSchemaPreset::smart_calver_schema")
    if not rep.anchor(rule, "smart_standard_schema", st) or not rep.anchor(rule, "smart_calver_schema", ca): return None
    rep.fn_seen(st, ca)
    ts, e1 = tier_tree(F, st); tc, e2 = tier_tree(F, ca)
    if ts is None or tc is None:
        if "ATOM-KIND" in str(e1) + str(e2): rep.bad(rule, "tier-atom-kind", "smart tier selection: %s" % (e1 or e2), st.where()); return None
        rep.undecided(rule, "unrecognised-shape:tier-tree", "tier decision tree not extractable: %s / %s" % (e1, e2), st.where()); return None
    iso = all(ts[k][0].replace("standard_", "") == tc[k][0].replace("calver_", "") and ts[k][1] == tc[k][1] for k in ts)
    if iso: rep.ok(rule, "standard and calver tier trees are isomorphic on all 16 assignments of (dirty, distance>0, pre, post)", nontrivial_key="iso")
    else:
        diff = [(dict(zip(ATOMS, k)), ts[k], tc[k]) for k in ts if ts[k][0].replace("standard_", "") != tc[k][0].replace("calver_", "")][:2]
        rep.bad(rule, "tiers-not-isomorphic", "standard and calver tier selection differ: %s" % diff, ca.where())
    bad = []
    for k, (callee, args) in ts.items():
        a = dict(zip(ATOMS, k))
        want = "standard_" + tier_law(a) + "_schema"
        if callee != want or args != (False,): bad.append((a, callee, args, want))
    if bad: rep.bad(rule, "tier-law", "tier selection deviates from the documented law (dirty -> +dev; distance or pre&post -> +post; pre -> prerelease; else base): %s" % bad[:2], st.where())
    else: rep.ok(rule, "tier selection equals the documented law on all 16 assignments", nontrivial_key="law")
    return ts


PRESETS = {
    "semver_str": {"target": "SanitizeTarget::Str", "separator": ".", "lowercase": False, "keep_zeros": False, "max_length": None},
    "pep440_local_str": {"target": "SanitizeTarget::Str", "separator": ".", "lowercase": True, "keep_zeros": False, "max_length": None},
    "uint": {"target": "SanitizeTarget::UInt", "separator": None, "lowercase": False, "keep_zeros": False, "max_length": None},
    "key": {"target": "SanitizeTarget::Str", "separator": ".", "lowercase": True, "keep_zeros": False, "max_length": None},
}

def preset_value(F, name, depth=0):
    f = F.fn("crate::utils::sanitize::Sanitizer::" + name)
    if f is None or depth > 3: return None
    # the constant the constructor evaluates to, through delegation (`Self::str(Some(DOT), ..)`, `..Self::with_target(t)`)
    if depth == 0 and f.nargs == 0:
        try:
            import absint
            v = absint.Eval(F, {}).fn_eval(f, [])
            if isinstance(v, tuple) and v[0] == "struct":
                out = {}
                def plain(x):
                    if isinstance(x, tuple) and x[0] == "Some": return plain(x[1])
                    if isinstance(x, tuple) and x[0] == "None": return None
                    if isinstance(x, tuple) and x[0] == "str": return x[1]
                    if isinstance(x, tuple) and x[0] == "variant": return str(x[1]).split("::")[-2] + "::" + str(x[1]).split("::")[-1]
                    if isinstance(x, (bool, int)): return x
                    raise absint.Unknown("value %r" % (x,))
                for k, x in v[2].items(): out[k] = plain(x)
                return out
        except (absint.Unknown, absint.Diverges, absint.NeedAtom):
            pass
    ps = [p for p in mir.enum_paths(f) if f.blocks[p[-1]]["t"][0] == "ret"]
    if len(ps) != 1: return None
    r = mir.SymPath(f, ps[0]).ret()
    if r[0] == "call" and str(r[1]).startswith("crate::utils::sanitize::Sanitizer::"):
        return preset_value(F, str(r[1]).rsplit("::", 1)[-1], depth + 1)
    if r[0] != "agg": return None
    out = {}
    for k, v in r[2]:
        t = mir.show(v)
        if t.startswith("Option::Some("):
            inner = t[len("Option::Some("):-1]
            m = re.match(r"^to_string\('(.*)'\)$", inner)
            out[k] = m.group(1) if m else (int(inner) if inner.isdigit() else inner)
        elif t == "Option::None": out[k] = None
        elif t in ("True", "False"): out[k] = (t == "True")
        elif v[0] == "const": out[k] = v[1]
        else: out[k] = t
    return out

def sanitizer_presets(F, rep, rule, names):
    for nm in names:
        got = preset_value(F, nm)
        f = F.fn("crate::utils::sanitize::Sanitizer::" + nm)
        if not rep.anchor(rule, "Sanitizer::" + nm, f): continue
        rep.fn_seen(f)
        want = PRESETS[nm]
        if got is None:
            rep.undecided(rule, "unrecognised-shape:preset:" + nm, "cannot read the constant configuration of Sanitizer::%s" % nm, f.where()); continue
        diff = {k: (got.get(k), v) for k, v in want.items() if got.get(k) != v}
        if diff: rep.bad(rule, "preset-config:" + nm, "Sanitizer::%s is configured with %s (got, expected): e.g. a max_length silently truncates identifiers" % (nm, diff), f.where())
        else: rep.ok(rule, "Sanitizer::%s = %s" % (nm, want), nontrivial_key="preset" + nm)


def max_choice_shape(F, f):
    """How a function picks the greatest element: ("max_by", None) for Iterator::max_by / max_by_key; for a hand-written loop
    ("running-max", None) when each element is compared with the best one so far (a local that the loop itself re-assigns from
    the element), ("fixed-compare", text) when it is compared with something the loop never updates; ("unknown", why) otherwise."""
    import mir
    if any((t[1].get("decl") or "") in ("std::iter::Iterator::max_by", "std::iter::Iterator::max_by_key", "std::iter::Iterator::max") for bi, t in f.calls()):
        return "max_by", None
    loop_blocks = {b for b in range(len(f.blocks)) if any(b in mir.reachable(f, s2) for s2 in mir.succs(f, b))}
    cmps = [(bi, t) for bi, t in f.calls() if bi in loop_blocks and len(t[2]) == 2 and ((mir.callee(t) or "").endswith("compare_version_objects") or (mir.callee(t) or "").endswith("::cmp") or (mir.callee(t) or "").endswith("::partial_cmp"))]
    if not cmps: return "unknown", "no max_by and no comparison inside a loop"
    verdict = None
    for bi, t in cmps:
        kinds = []
        for a in t[2]:
            from_next = other = False
            for o in mir.trace_op(f, a):
                if o.kind == "call" and (mir.callee(o.fn.blocks[o.data]["t"]) or "").endswith("Iterator>::next") and o.data in loop_blocks: from_next = True
                else: other = True
            kinds.append((from_next, other))
        elem = [k for k in kinds if k[0] and not k[1]]
        best = [k for k in kinds if k[0] and k[1]]
        fixed = [k for k in kinds if not k[0]]
        if len(elem) == 1 and len(best) == 1: verdict = verdict or ("running-max", None)
        elif len(elem) == 1 and len(fixed) == 1: return "fixed-compare", "%s bb%d line %s" % (f.where(), bi, f.blocks[bi]["line"])
        else: return "unknown", "comparison operands %s" % kinds
    return verdict or ("unknown", "no comparison recognised")
