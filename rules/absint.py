"""Finite-domain abstract evaluation of small pure decision functions.

A function such as FlowArgs::override_dirty is a boolean function of a few flags and Option-valued parameters.  Its symbolic
paths (mir.SymPath: path conditions + returned expression) are evaluated here under every assignment of a finite abstract
domain (bool exact, Option exact, unsigned integers as {zero, positive}); fields of `self` that are read become boolean atoms
on demand.  The result is the function's complete decision table, independent of how the source spells the decision
(nested ifs, matches!, Option combinators, helper methods, closures).

Whatever the evaluator does not model raises Unknown: the caller then reports NOT-DECIDED, never a violation."""
import itertools
import mir

class Unknown(Exception):
    pass

class Diverges(Exception):
    """every returning path is excluded by the conditions: the call panics / does not return for this input"""
    pass

class NeedAtom(Exception):
    def __init__(self, key):
        Exception.__init__(self, key); self.key = key

NONE = ("None",)
def some(v): return ("Some", v)
ZERO = ("int", "zero"); POS = ("int", "pos")

IDENTITY = ("::copied", "::cloned", "Deref>::deref", "::as_ref", "::as_deref", "::borrow", "Clone>::clone", "::into", "From<T>>::from", "::as_str",
            "::to_owned", "::as_mut", "::unwrap", "::expect", "::to_string", "::to_lowercase", "AsRef<T>>::as_ref")

def _int(v):
    if isinstance(v, bool): return 1 if v else 0
    if isinstance(v, int): return v
    if isinstance(v, tuple) and v[0] == "int": return v
    raise Unknown("not an integer: %r" % (v,))

def _cmp(op, a, b):
    a = _int(a); b = _int(b)
    if isinstance(a, int) and isinstance(b, int):
        return {"Eq": a == b, "Ne": a != b, "Lt": a < b, "Le": a <= b, "Gt": a > b, "Ge": a >= b}[op]
    # abstract {zero, pos} against a small constant
    if isinstance(a, tuple) and isinstance(b, int):
        z = a[1] == "zero"
        if b == 0: return {"Eq": z, "Ne": not z, "Lt": False, "Le": z, "Gt": not z, "Ge": True}[op]
        if b == 1 and op in ("Lt", "Ge"): return z if op == "Lt" else not z
        if z: return {"Eq": 0 == b, "Ne": 0 != b, "Lt": 0 < b, "Le": 0 <= b, "Gt": 0 > b, "Ge": 0 >= b}[op]
        raise Unknown("positive value compared with %d" % b)
    if isinstance(b, tuple) and isinstance(a, int):
        return _cmp({"Eq": "Eq", "Ne": "Ne", "Lt": "Gt", "Le": "Ge", "Gt": "Lt", "Ge": "Le"}[op], b, a)
    raise Unknown("abstract comparison")

class Eval:
    def __init__(self, F, atoms, opaque=()):
        self.F = F; self.atoms = atoms; self.opaque = opaque; self.steps = 0

    def atom(self, key):
        if key not in self.atoms: raise NeedAtom(key)
        return self.atoms[key]

    def truth(self, v):
        if isinstance(v, bool): return v
        if isinstance(v, tuple) and v[0] == "sym": return self.atom(v[1])
        raise Unknown("not a bool: %r" % (v,))

    def eq(self, a, b):
        if isinstance(a, tuple) and a[0] == "sym" or isinstance(b, tuple) and b[0] == "sym":
            ka = a[1] if isinstance(a, tuple) and a[0] == "sym" else repr(a[1] if isinstance(a, tuple) and a[0] == "str" else a)
            kb = b[1] if isinstance(b, tuple) and b[0] == "sym" else repr(b[1] if isinstance(b, tuple) and b[0] == "str" else b)
            return self.atom("eq(%s, %s)" % (ka, kb))
        if isinstance(a, tuple) and isinstance(b, tuple) and a[0] in ("Some", "None") and b[0] in ("Some", "None"):
            if a[0] != b[0]: return False
            return True if a[0] == "None" else self.eq(a[1], b[1])
        if isinstance(a, tuple) and a[0] == "int" or isinstance(b, tuple) and b[0] == "int": return _cmp("Eq", a, b)
        if isinstance(a, (bool, int)) and isinstance(b, (bool, int)): return a == b
        if isinstance(a, tuple) and isinstance(b, tuple) and a[0] == b[0] == "str": return a[1] == b[1]
        if isinstance(a, tuple) and isinstance(b, tuple) and a[0] == b[0] == "variant": return a[1] == b[1] and all(self.eq(x, y) for x, y in zip(a[2], b[2]))
        raise Unknown("equality of %r and %r" % (a, b))

    def discr(self, v):
        if isinstance(v, tuple):
            if v[0] == "None": return 0
            if v[0] == "Some": return 1
            if v[0] == "variant" and v[3] is not None: return v[3]
        if isinstance(v, bool): return 1 if v else 0
        raise Unknown("discriminant of %r" % (v,))

    def call_closure(self, c, args):
        if isinstance(c, tuple) and c[0] == "closure":
            g = self.F.fn(c[1])
            if g is None: raise Unknown("closure body missing")
            env = ("captures", dict(c[2]))
            return self.fn_eval(g, [env] + list(args))
        if isinstance(c, tuple) and c[0] == "fnitem":
            if c[1].endswith("Option::Some"): return some(args[0])
            g = self.F.fn(c[1])
            if g is not None: return self.fn_eval(g, list(args))
            return self.std_call(c[1], list(args), None)
        raise Unknown("not callable: %r" % (c,))

    def fn_eval(self, g, args):
        self.steps += 1
        if self.steps > 20000: raise Unknown("evaluation budget")
        if mir.has_loop(g): raise Unknown("loop in %s" % g.path)
        env = {i + 1: a for i, a in enumerate(args)}
        try:
            paths = mir.sym_paths(g, limit=4000, feasible_only=False)
        except mir.TooManyPaths:
            raise Unknown("too many paths in %s" % g.path)
        for sp in paths:
            ok = True
            for d, (rel, vals), b in sp.conds:
                v = self.ev(d, env)
                if isinstance(v, tuple) and v[0] == "sym": v = self.atom(v[1])
                n = _int(v) if not (isinstance(v, tuple) and v[0] in ("Some", "None", "variant")) else self.discr(v)
                if isinstance(n, tuple): raise Unknown("switch on an abstract integer")
                if (rel == "eq") != (n in vals): ok = False; break
            if ok:
                return self.ev(sp.ret(), env)
        raise Diverges(g.path)

    def ev(self, e, env):
        k = e[0]
        if k == "const":
            v = e[1]
            if isinstance(v, (bool, int)): return v
            if isinstance(v, str): return ("str", v)
            raise Unknown("constant %r" % (v,))
        if k == "param":
            if e[1] not in env: raise Unknown("parameter %d" % e[1])
            return env[e[1]]
        if k == "promoted":
            v = mir.promoted_value(self.F, {"k": "promoted", "of": e[1], "idx": e[2]})
            if v is not None: return self.ev(v, env)
            raise Unknown("promoted")
        if k == "cast": return self.ev(e[1], env)
        if k == "un":
            if e[1] == "Not": return not self.truth(self.ev(e[2], env))
            raise Unknown("unary " + str(e[1]))
        if k == "bin":
            op = e[1]; a = self.ev(e[2], env); b = self.ev(e[3], env)
            if op in ("Eq", "Ne") and not (isinstance(a, tuple) and a[0] == "int" or isinstance(b, tuple) and b[0] == "int") :
                r = self.eq(a, b); return r if op == "Eq" else not r
            if op in ("Eq", "Ne", "Lt", "Le", "Gt", "Ge"): return _cmp(op, a, b)
            if op in ("BitAnd", "BitOr", "BitXor"):
                x = self.truth(a); y = self.truth(b)
                return {"BitAnd": x and y, "BitOr": x or y, "BitXor": x != y}[op]
            raise Unknown("binary " + str(op))
        if k == "discr": return self.discr(self.ev(e[1], env))
        if k == "agg":
            name = str(e[1])
            if name.endswith("Option::Some"): return some(self.ev(e[2][0][1], env))
            if name.endswith("Option::None"): return NONE
            if name == "tuple": return ("tuple", [self.ev(v, env) for f, v in e[2]])
            if e[2] and not all(str(f).isdigit() for f, v in e[2]):
                return ("struct", name, {str(f): self.ev(v, env) for f, v in e[2]})
            return ("variant", name, [self.ev(v, env) for f, v in e[2]], None)
        if k == "as": return self.ev(e[1], env)
        if k == "field":
            base = self.ev(e[1], env)
            if isinstance(base, tuple):
                if base[0] == "Some" and str(e[2]) == "0": return base[1]
                if base[0] == "sym": return ("sym", base[1] + "." + str(e[2]))
                if base[0] == "captures":
                    if e[2] in base[1]: return self.ev_captured(base[1][e[2]])
                    raise Unknown("capture %s" % e[2])
                if base[0] == "struct" and str(e[2]) in base[2]: return base[2][str(e[2])]
                if base[0] == "tuple" and str(e[2]).isdigit(): return base[1][int(e[2])]
                if base[0] == "variant" and str(e[2]).isdigit() and int(e[2]) < len(base[2]): return base[2][int(e[2])]
            raise Unknown("field %s of %r" % (e[2], base))
        if k == "closure":
            # captured expressions are evaluated now (by value or by reference makes no difference for pure reads)
            return ("closure", e[1], [(n, ("val", self.ev(v, env))) for n, v in e[2]])
        if k == "fn": return ("fnitem", e[1])
        if k == "call":
            name = e[1]
            if not isinstance(name, str): raise Unknown("indirect call")
            args = [self.ev(a, env) for a in e[2]]
            return self.call(name, args)
        if k == "val": return e[1]
        raise Unknown("expression kind %s" % k)

    def ev_captured(self, v):
        return v[1] if isinstance(v, tuple) and v[0] == "val" else v

    def call(self, name, args):
        g = self.F.fn(name)
        if g is not None and not any(name.endswith(o) for o in self.opaque):
            try:
                return self.fn_eval(g, args)
            except Unknown:
                pass
        if g is not None or any(isinstance(a, tuple) and a[0] == "sym" for a in args[:1]) and not self.is_std(name):
            # a method of the symbolic receiver whose body is not followed: its result is a new symbol
            return ("sym", "%s(%s)" % (name.rsplit("::", 1)[-1], ", ".join(a[1] if isinstance(a, tuple) and a[0] == "sym" else repr(a) for a in args)))
        return self.std_call(name, args, None)

    def is_std(self, name):
        return name.startswith("std::") or name.startswith("core::") or name.startswith("<") or name.startswith("alloc::")

    def std_call(self, name, args, _):
        last = name.rsplit("::", 1)[-1]
        a0 = args[0] if args else None
        if "PartialEq" in name and last in ("eq", "ne") and len(args) == 2:
            r = self.eq(args[0], args[1]); return r if last == "eq" else not r
        if "PartialOrd" in name and last in ("lt", "le", "gt", "ge") and len(args) == 2:
            return _cmp(last.capitalize(), args[0], args[1])
        if last == "not" and "Not" in name: return not self.truth(a0)
        if any(name.endswith(x) for x in IDENTITY) and len(args) == 1: return a0
        opt = isinstance(a0, tuple) and a0[0] in ("Some", "None")
        if "Option" in name and opt:
            is_some = a0[0] == "Some"
            if last == "is_some": return is_some
            if last == "is_none": return not is_some
            if last == "unwrap_or": return a0[1] if is_some else args[1]
            if last == "unwrap_or_default":
                if is_some: return a0[1]
                raise Unknown("default of unknown type")
            if last == "unwrap_or_else": return a0[1] if is_some else self.call_closure(args[1], [])
            if last == "is_some_and": return self.truth(self.call_closure(args[1], [a0[1]])) if is_some else False
            if last == "is_none_or": return self.truth(self.call_closure(args[1], [a0[1]])) if is_some else True
            if last == "map": return some(self.call_closure(args[1], [a0[1]])) if is_some else NONE
            if last == "and_then": return self.call_closure(args[1], [a0[1]]) if is_some else NONE
            if last == "filter": return a0 if is_some and self.truth(self.call_closure(args[1], [a0[1]])) else NONE
            if last == "or": return a0 if is_some else args[1]
            if last == "or_else": return a0 if is_some else self.call_closure(args[1], [])
            if last == "map_or": return self.call_closure(args[2], [a0[1]]) if is_some else args[1]
            if last == "map_or_else": return self.call_closure(args[2], [a0[1]]) if is_some else self.call_closure(args[1], [])
            if last == "unwrap_or_default": return a0[1]
            if last == "contains": return is_some and self.eq(a0[1], args[1])
            if last == "xor": return a0 if is_some and args[1][0] == "None" else (args[1] if not is_some else NONE)
        if last == "then_some" and isinstance(a0, (bool, tuple)): return some(args[1]) if self.truth(a0) else NONE
        if last == "then" and len(args) == 2: return some(self.call_closure(args[1], [])) if self.truth(a0) else NONE
        if last in ("max", "min") and len(args) == 2 and all(isinstance(x, int) and not isinstance(x, bool) for x in args): return max(args) if last == "max" else min(args)
        if last == "matches" : raise Unknown("matches")
        if isinstance(a0, tuple) and a0[0] == "sym":
            return ("sym", "%s(%s)" % (last, ", ".join(a[1] if isinstance(a, tuple) and a[0] == "sym" else repr(a) for a in args)))
        raise Unknown("call %s" % name)

def decision_table(F, g, domains, sym_params=(1,), opaque=(), max_atoms=8):
    """{(param values.., ((atom, bool)..)): returned value} over the product of `domains` ({param index: [abstract values]}) and every
    boolean atom the evaluation asks for.  Raises Unknown when some step is not modelled."""
    atoms = []
    while True:
        table = {}
        try:
            keys = sorted(domains)
            for combo in itertools.product(*[domains[k] for k in keys]):
                for bits in itertools.product((False, True), repeat=len(atoms)):
                    asg = dict(zip(atoms, bits))
                    ev = Eval(F, asg, opaque)
                    args = []
                    for i in range(1, g.nargs + 1):
                        if i in domains: args.append(combo[keys.index(i)])
                        elif i in sym_params: args.append(("sym", "p%d" % i))
                        else: raise Unknown("parameter %d has no domain" % i)
                    try:
                        r = ev.fn_eval(g, args)
                    except Diverges:
                        r = "diverges"
                    if isinstance(r, tuple) and r[0] == "sym": r = ev.atom(r[1])
                    table[(combo, tuple(sorted(asg.items())))] = r
            return atoms, table
        except NeedAtom as n:
            if n.key in atoms or len(atoms) >= max_atoms: raise Unknown("atom %s" % n.key)
            atoms.append(n.key)
