"""C08 - the SemVer parser accepts exactly SemVer 2.0.0 and loses nothing.
Decided part (DESIGN.md 4/C08): R08.1 effective-language equality over all strings,
R08.2 input integrity, R08.3 rejection sites, R08.4 no constant fallback,
R08.5 ASCII classification, R08.6 print/parse separators, R08.7 check parity."""
import core, mir, rx, spec, parsers

ANCHOR = "<impl std::str::FromStr for crate::version::semver::core::SemVer>::from_str"
MODULE = "crate::version::semver::parser::"

def check(F, rep, tier):
    fs = F.find(ANCHOR)
    if not rep.anchor("R08", "<SemVer as FromStr>::from_str", fs):
        return core.finish(rep, explanation=EXPL)
    f = fs[0]
    rep.fn_seen(f)
    info = parsers.analyse_from_str(F, f, rep, "R08", MODULE)
    # ---- R08.1 language equality ------------------------------------------------
    if info.get("pattern") is not None:
        pre = rx.run({"subject_regex": {"pat": info["pattern"], "unicode": True, "ascii_groups": []}}, [])
        if not pre["patterns"]["subject_regex"].get("ok"):
            rep.bad("R08.1", "regex-does-not-compile", "SEMVER_REGEX does not compile: %s" % pre["patterns"]["subject_regex"].get("error"), info.get("static"))
            return core.finish(rep, explanation=EXPL, assumptions=ASSUME, trusted=TRUST)
        info["checked_groups"] = parsers.checked_groups(F, info, pre["patterns"]["subject_regex"]["groups"], rep, "R08")
        pats = {
            "subject_regex": {"pat": info["pattern"], "unicode": True, "ascii_groups": []},
            "subject_effective": {"pat": info["pattern"], "unicode": True, "ascii_groups": sorted(info["checked_groups"])},
            "oracle_semver_org": {"pat": spec.SEMVER_ORG, "unicode": False},
            "oracle_bnf": {"pat": spec.semver_bnf(), "unicode": False},
        }
        res = rx.run(pats, [["oracle_semver_org", "oracle_bnf"], ["subject_effective", "oracle_semver_org"],
                            ["subject_effective", "oracle_bnf"], ["subject_regex", "oracle_semver_org"]])
        parsers.language_verdict(rep, "R08.1", res, "subject_effective", ["oracle_semver_org", "oracle_bnf"],
                                 ("oracle_semver_org", "oracle_bnf"), info, "SemVer 2.0.0 (optional v)")
        info["rx"] = res
        # every checked group must be mandatory (discharges captures.name(g).unwrap(), used by C13)
        groups = {g["name"]: g for g in res["patterns"]["subject_regex"].get("groups", [])}
        for g in sorted(info["checked_groups"]):
            if g not in groups:
                rep.bad("R08.3", "group-missing:" + g, "from_str reads capture group %r which the regex does not define" % g, f.where())
        # R08.6 separators: Display's literals equal the literals preceding the regex groups
        parsers.semver_separators(F, rep, groups)
        split_separators(F, rep, f)
    # ---- R08.5 classification uses ASCII digits -----------------------------------
    parsers.numeric_classification(F, rep, "R08.5", MODULE, ("PreReleaseIdentifier", "BuildMetadata"), floor=2)
    # ---- R08.7 check parity ---------------------------------------------------------
    parsers.check_parity(F, rep, "R08.7", "SemVer", ANCHOR)
    return core.finish(rep, explanation=EXPL, assumptions=ASSUME, trusted=TRUST)

EXPL = ("Static decision of the structural clauses of C08. R08.1 decides L(parser) = L(SemVer 2.0.0 with optional v) over ALL strings "
        "by a product construction on determinised automata (regex-automata dense DFAs, 256-byte alphabet + end of input), where the parser's "
        "effective language is the regex read from /repo's MIR constants intersected with what the Rust code after the match can still reject "
        "(groups fed to str::parse::<uN> with the error propagated are restricted to ASCII digits). Two independent oracles (semver.org regex, BNF-generated) "
        "are checked equivalent on every run. R08.2-R08.7 are MIR rules on from_str, its helpers, Display and run_check_command: the haystack is the unmodified "
        "parameter; the only Err exits are no-match and numeric parse failure of a checked group; no Result<int,ParseIntError> is turned into a constant; "
        "numeric classification is guarded by an ASCII-digit predicate; Display's separators are the regex's literals; check calls the same from_str on the unmodified argument. "
        "Not decided: character-for-character reproduction as an equality on values.")
ASSUME = ["regex::Regex::new(p).captures(s) with ^...$ matches exactly the strings in L(p) (leftmost-first semantics do not change the accepted set)",
          "uN::from_str succeeds iff its input is a non-empty run of ASCII digits (optional +) within range; numeric range is the documented exemption"]
TRUST = ["rustc nightly MIR + trait resolution", "zfacts exporter", "regex-syntax parser and regex-automata determinisation (same crates the subject uses)", "rules/c08.py, rules/parsers.py, rules/spec.py"]


def split_separators(F, rep, f):
    """R08.6: what Display joins with '.', the parser must split at '.' and nothing else: every str::split in the parser scope
    (from_str with helpers spliced in, and the closures built there) uses the single-character pattern '.'"""
    rule = "R08.6"
    scope = parsers.parser_scope(F, f, MODULE)
    n = 0; bad = []
    for g in scope:
        for bi, t in g.calls():
            c = mir.callee(t) or ""
            if not any(c.endswith(x) or (x + "::<") in (t[1].get("full") or "") for x in ("core::str::<impl str>::split", "core::str::<impl str>::splitn", "core::str::<impl str>::rsplit", "core::str::<impl str>::split_terminator", "core::str::<impl str>::split_inclusive")): continue
            n += 1
            pat = mir.const_arg(g, t[2][1]) if len(t[2]) > 1 else None
            site = "%s bb%d line %s" % (g.where(), bi, g.blocks[bi]["line"])
            if pat == ".": rep.ok(rule, "identifier lists are split at '.'", sample=site, nontrivial_key="split%s%d" % (g.path, bi))
            else:
                what = repr(pat) if isinstance(pat, str) else (t[1].get("targs") or ["?"])[-1]
                rep.bad(rule, "split-separator:" + (g.blocks[bi].get("from") or g.path).rsplit("::", 1)[-1], "the parser splits an identifier list with the pattern %s instead of '.': identifiers containing other characters of that pattern (e.g. '-') are torn apart and printed differently" % what, site)
    if n == 0: rep.undecided(rule, "split-shape", "no str::split found in the SemVer parser: how identifier lists are separated is not evaluated", f.where())
