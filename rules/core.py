"""Common machinery for all checks: fact cache, reports, known findings, evidence."""
import fcntl, glob, hashlib, json, os, shutil, subprocess, sys, time

VERIF = os.path.dirname(os.path.dirname(os.path.abspath(__file__)))
REPO = os.environ.get("ZERV_REPO", "/repo")
CACHE = os.path.join(VERIF, ".cache")
DRIVER = os.path.join(VERIF, "engines/zfacts/target/debug/zfacts")
RXLANG = os.path.join(VERIF, "engines/rxlang/target/release/rxlang")

class CheckBroken(Exception):
    """The machinery could not run (exit 2, no VIOLATION line)."""

def _sha_tree():
    h = hashlib.sha256()
    files = []
    for pat in ("src/**/*.rs", "python/zerv/**/*.py", "docs/llms.md"):
        files += glob.glob(os.path.join(REPO, pat), recursive=True)
    files += [os.path.join(REPO, x) for x in ("Cargo.toml", "Cargo.lock", "rust-toolchain.toml")]
    files += [DRIVER]
    for f in sorted(set(files)):
        if not os.path.isfile(f):
            continue
        h.update(f.encode()); h.update(b"\0")
        with open(f, "rb") as fh:
            h.update(fh.read())
        h.update(b"\0")
    return h.hexdigest()[:24]

def nightly_sysroot():
    return subprocess.check_output(["rustc", "+nightly", "--print", "sysroot"], text=True).strip()

def ensure_driver():
    if not os.path.exists(DRIVER):
        raise CheckBroken("zfacts driver not built; run MANIFEST.setup_cmd (bin/setup)")

def run_driver(repo, out_dir, target_dir, features=None, release=False, log=None):
    """Run cargo +nightly check on `repo` with the zfacts driver as workspace wrapper."""
    ensure_driver()
    os.makedirs(out_dir, exist_ok=True)
    os.makedirs(target_dir, exist_ok=True)
    prof = "release" if release else "debug"
    # cargo would skip the wrapper on a warm target dir: zerv's own fingerprints are dropped below, under the lock
    env = dict(os.environ)
    env.update({
        "LD_LIBRARY_PATH": nightly_sysroot() + "/lib",
        "RUSTFLAGS": "-Zmir-opt-level=0 -Awarnings",
        "RUSTC_WORKSPACE_WRAPPER": DRIVER,
        "ZFACTS_OUT": out_dir,
        "CARGO_TARGET_DIR": target_dir,
        "CARGO_NET_OFFLINE": "true",
    })
    env.pop("RUSTC_WRAPPER", None)
    cmd = ["cargo", "+nightly", "check", "--offline", "--lib", "--manifest-path", os.path.join(repo, "Cargo.toml")]
    if features:
        cmd += ["--features", features]
    if release:
        cmd += ["--release"]
    # one driver run at a time per target dir (cargo would serialise anyway; the fingerprint reset must not interleave)
    lk = open(os.path.join(target_dir, ".zfacts-lock"), "w")
    fcntl.flock(lk, fcntl.LOCK_EX)
    try:
        for d in glob.glob(os.path.join(target_dir, prof, ".fingerprint", "zerv-*")):
            shutil.rmtree(d, ignore_errors=True)
        p = subprocess.run(cmd, env=env, stdout=subprocess.PIPE, stderr=subprocess.STDOUT, text=True)
    finally:
        fcntl.flock(lk, fcntl.LOCK_UN)
    if log:
        with open(log, "w") as f:
            f.write(p.stdout)
    fact = os.path.join(out_dir, "zerv-lib.json")
    if p.returncode != 0 or not os.path.exists(fact):
        raise CheckBroken("driver run failed (rc=%s); cargo output:\n%s" % (p.returncode, p.stdout[-4000:]))
    return fact

def ensure_facts(variant="dev"):
    """Facts for /repo's current working tree, cached by content hash."""
    key = _sha_tree()
    d = os.path.join(CACHE, "facts", key + "-" + variant)
    fact = os.path.join(d, "zerv-lib.json")
    os.makedirs(os.path.join(CACHE, "facts"), exist_ok=True)
    lock = open(os.path.join(CACHE, "facts", ".lock-" + variant), "w")
    fcntl.flock(lock, fcntl.LOCK_EX)
    try:
        if os.path.exists(fact):
            try: os.utime(d, None)
            except OSError: pass
        if not os.path.exists(fact):
            # keep the cache small, but never pull the facts out from under a concurrent run on another tree:
            # only the oldest entries beyond the 16 most recently used are dropped
            olds = sorted(glob.glob(os.path.join(CACHE, "facts", "*-" + variant)), key=os.path.getmtime)
            for old in olds[:-16]:
                shutil.rmtree(old, ignore_errors=True)
            tmp = d + ".tmp"
            shutil.rmtree(tmp, ignore_errors=True)
            run_driver(REPO, tmp, os.path.join(CACHE, "target"),
                       features="test-utils" if variant == "testutils" else None,
                       release=(variant == "release"), log=os.path.join(CACHE, "driver-%s.log" % variant))
            os.rename(tmp, d)
    finally:
        fcntl.flock(lock, fcntl.LOCK_UN)
    return fact, key

# ---------------------------------------------------------------------------

class Report:
    def __init__(self, pid, tier):
        self.pid = pid
        self.tier = tier
        self.t0 = time.time()
        self.violations = []      # dicts: key, rule, msg, site
        self.obligations = 0
        self.discharged = 0
        self.nontrivial = set()
        self.samples = []
        self.rules = {}           # rule id -> {"instances": n, "what": str}
        self.notes = []
        self.functions = set()
        self.extra = {}

    # an obligation = one rule instance examined
    def ok(self, rule, what, sample=None, nontrivial_key=None):
        self.obligations += 1
        self.discharged += 1
        r = self.rules.setdefault(rule, {"instances": 0, "violations": 0})
        r["instances"] += 1
        if nontrivial_key is not None:
            self.nontrivial.add((rule, nontrivial_key))
        if sample is not None and sum(1 for s in self.samples if s.get("rule") == rule) < 3:
            self.samples.append({"rule": rule, "instance": what, "detail": sample})

    def bad(self, rule, key, msg, site=None, detail=None):
        self.obligations += 1
        r = self.rules.setdefault(rule, {"instances": 0, "violations": 0})
        r["instances"] += 1
        r["violations"] += 1
        self.violations.append({"rule": rule, "key": "%s:%s" % (rule, key), "msg": msg, "site": site, "detail": detail})

    def undecided(self, rule, key, msg, site=None):
        """a rule instance whose shape the rule does not recognise: no verdict (never an alarm); listed in the evidence"""
        self.obligations += 1
        r = self.rules.setdefault(rule, {"instances": 0, "violations": 0})
        r["instances"] += 1
        r["undecided"] = r.get("undecided", 0) + 1
        self.extra.setdefault("undecided", []).append({"rule": rule, "key": key, "why": msg, "site": site})

    def floor(self, rule, what, count, floor):
        """fail closed when a rule matched fewer instances than confirmed by hand"""
        if count < floor:
            self.bad(rule, "below-floor:" + what, "rule matched %d instances of %s, floor is %d (anchor moved or rule blind)" % (count, what, floor))
        else:
            self.ok(rule, "floor %s: %d >= %d" % (what, count, floor))

    def anchor(self, rule, what, obj):
        if obj is None or obj == []:
            self.bad(rule, "anchor-missing:" + what, "anchor not found: " + what)
            return False
        return True

    def fn_seen(self, *fns):
        for f in fns:
            if f is not None:
                self.functions.add(f.path if hasattr(f, "path") else str(f))

def load_known():
    p = os.path.join(VERIF, "known_findings.json")
    if not os.path.exists(p):
        return {"findings": [], "fixed": []}
    with open(p) as f:
        return json.load(f)

def borrow(F, rep, modname, pid, rule, select, what):
    """Run another property's check on the same facts (silently) and import the verdicts of the rule instances whose
    key matches one of `select` (substring match): the importing property depends on them.  Keys are re-rooted under `rule`."""
    import importlib
    mod = importlib.import_module(modname)
    sub = Report(pid, rep.tier); sub.silent = True
    mod.check(F, sub, rep.tier)
    hit = [v for v in sub.violations if any(x in v["key"] for x in select)]
    for v in hit:
        rep.bad(rule, "dep:" + v["key"], "%s (imported from %s: %s)" % (v["msg"], pid, what), v.get("site"))
    if not hit:
        rep.ok(rule, "%s: %s rule instances %s hold" % (what, pid, list(select)), nontrivial_key="dep:" + pid + ":" + ",".join(select))
    rep.functions |= sub.functions
    return hit


def finish(rep, level="other", explanation="", assumptions=None, trusted=None):
    """Write evidence + reports, print VIOLATION / KNOWN-FINDING lines, return exit code."""
    known = load_known()
    kmap = {k["key"]: k for k in known.get("findings", []) if k.get("property") == rep.pid}
    new, listed = [], []
    for v in rep.violations:
        (listed if v["key"] in kmap else new).append(v)
    if getattr(rep, "silent", False):
        rep.new_violations = new
        return 1 if new else 0
    rdir = os.path.join(VERIF, "reports", rep.pid)
    shutil.rmtree(rdir, ignore_errors=True)
    os.makedirs(rdir, exist_ok=True)
    for v in listed:
        print("KNOWN-FINDING: property=%s %s -- %s" % (rep.pid, v["key"], kmap[v["key"]].get("what", v["msg"])))
    for u in rep.extra.get("undecided", []):
        print("NOT-DECIDED: property=%s [%s:%s] %s" % (rep.pid, u["rule"], u["key"], str(u["why"])[:200]))
    exit_code = 0
    for i, v in enumerate(new):
        safe = "".join(c if c.isalnum() or c in "._-" else "_" for c in v["key"])[:150]
        path = os.path.join(rdir, "%02d_%s.json" % (i, safe))
        with open(path, "w") as f:
            json.dump(v, f, indent=1, ensure_ascii=False)
        print("  [%s] %s\n      at %s" % (v["key"], v["msg"], v.get("site")))
        print("VIOLATION property=%s replay=%s" % (rep.pid, path))
        exit_code = 1
    wall = time.time() - rep.t0
    cov = {
        "explanation": explanation,
        "evaluations": rep.obligations,
        "distinct_nontrivial": len(rep.nontrivial),
        "rule": "one evaluation = one rule instance (call site, table row, path, field, regex direction) examined on this run; non-trivial = an instance whose verdict needed a guard-set / origin / dominance / table / term / automaton argument rather than a name lookup, counted distinct by (rule, site key)",
        "obligations": rep.obligations,
        "discharged": rep.discharged + len(listed),
        "functions_analysed": len(rep.functions),
        "rules": rep.rules,
        "samples": rep.samples[:40] or [{"note": "no instance sampled"}],
        "known_findings_listed": [v["key"] for v in listed],
        "checker_cmd": "bin/check %s --tier %s" % (rep.pid, rep.tier),
        "trusted_base": trusted or ["rustc nightly MIR construction and trait resolution", "zfacts exporter", "rule code under /verif/rules"],
        "exhaustive": False,
    }
    cov.update(rep.extra)
    if getattr(rep, "selftest", None) is not None: cov["selftest"] = rep.selftest
    ev = {
        "property_id": rep.pid,
        "tier": rep.tier,
        "seed": int(os.environ.get("VERIF_SEED", "0") or 0),
        "level": level,
        "coverage": cov,
        "assumptions": assumptions or [],
        "wall_s": round(wall, 3),
        "violations": len(new),
    }
    if not os.environ.get("VERIF_SCRATCH"):     # set by bin/trymut and bin/seed_install: a run on a deliberately changed tree leaves no evidence
        os.makedirs(os.path.join(VERIF, "evidence"), exist_ok=True)
        with open(os.path.join(VERIF, "evidence", rep.pid + ".json"), "w") as f:
            json.dump(ev, f, indent=1, ensure_ascii=False)
    print("%s: %d rule instances, %d violations (%d listed as known findings), %d functions, %.1fs" % (
        rep.pid, rep.obligations, len(rep.violations), len(listed), len(rep.functions), wall))
    return exit_code


# ---------------------------------------------------------------------------
# thorough tier: checker self-tests on seeded variants (scratch copies outside /repo and /verif)

def variants_for(pid):
    out = []
    for f in sorted(glob.glob(os.path.join(VERIF, "fixtures", "variants", pid + "_*.diff"))):
        out.append((os.path.basename(f)[:-5], f))
    for d in sorted(glob.glob(os.path.join(VERIF, "seeded", pid + "-*"))):
        f = os.path.join(d, "patch.diff")
        if os.path.exists(f): out.append(("seeded/" + os.path.basename(d), f))
    # changes seeded for another property that this check is recorded to catch as well
    for d in sorted(glob.glob(os.path.join(VERIF, "seeded", "*"))):
        m = os.path.join(d, "meta.json")
        if os.path.exists(m) and not os.path.basename(d).startswith(pid + "-"):
            try:
                meta = json.load(open(m))
                if pid in meta.get("caught_by", []): out.append(("seeded/" + os.path.basename(d) + " (cross)", os.path.join(d, "patch.diff")))
            except Exception: pass
    return out

def _scratch_facts(scratch, name, patch, tree_key):
    """facts of /repo's working tree with `patch` applied (scratch copy under the system temp dir), cached by content:
    (fact path | None, work dir | None, reason)"""
    import hashlib
    h = hashlib.sha256((tree_key + "\0").encode() + open(patch, "rb").read()).hexdigest()[:24]
    cdir = os.path.join(CACHE, "facts-variants", h)
    fact = os.path.join(cdir, "zerv-lib.json")
    work = os.path.join(scratch, "repo")
    shutil.rmtree(work, ignore_errors=True)
    os.makedirs(work)
    for item in ("src", "python", "docs", "Cargo.toml", "Cargo.lock", "rust-toolchain.toml", "README.md"):
        sp = os.path.join(REPO, item)
        if os.path.isdir(sp): shutil.copytree(sp, os.path.join(work, item))
        elif os.path.exists(sp): shutil.copy2(sp, os.path.join(work, item))
    p = subprocess.run(["git", "apply", "--unsafe-paths", "--directory=" + work, patch], cwd=work, stdout=subprocess.PIPE, stderr=subprocess.STDOUT, text=True)
    if p.returncode != 0:
        p = subprocess.run(["patch", "-p1", "-s", "-i", patch], cwd=work, stdout=subprocess.PIPE, stderr=subprocess.STDOUT, text=True)
    if p.returncode != 0: return None, None, "does not apply"
    if os.path.exists(fact): return fact, work, "cached"
    out = os.path.join(scratch, "facts")
    shutil.rmtree(out, ignore_errors=True)
    try:
        f = run_driver(work, out, os.path.join(CACHE, "target"))
    except CheckBroken:
        return None, None, "does not compile"
    os.makedirs(cdir, exist_ok=True)
    shutil.copy2(f, fact + ".tmp"); os.replace(fact + ".tmp", fact)
    # keep the cache bounded
    ents = sorted(glob.glob(os.path.join(CACHE, "facts-variants", "*")), key=os.path.getmtime)
    for old in ents[:-260]: shutil.rmtree(old, ignore_errors=True)
    return fact, work, "driver"

def _run_on(pid, mod, fact, work):
    global REPO
    import facts as factsmod
    F = factsmod.Facts(fact)
    sub = Report(pid, "thorough"); sub.silent = True
    saved = {}
    old_repo = REPO
    REPO = work
    if hasattr(mod, "PYFILE"): saved["PYFILE"] = mod.PYFILE; mod.PYFILE = os.path.join(work, "python/zerv/__init__.py")
    try:
        mod.check(F, sub, "quick")
    except CheckBroken:
        raise
    except Exception:
        finish(sub)          # a crash of the rule code on the variant: verdicts so far count, the rest is not decided
        sub.crashed = True
    finally:
        REPO = old_repo
        for k, v in saved.items(): setattr(mod, k, v)
    return sub

def neutral_fixtures():
    return [(os.path.basename(f)[:-5], f) for f in sorted(glob.glob(os.path.join(VERIF, "fixtures", "neutral", "*.diff")))]

def selftest(pid, mod, tier_seed=0):
    """Both directions.  (1) Each seeded variant (fixtures/variants/<ID>_*.diff, seeded/*) is applied to a scratch copy of /repo's
    working tree, the facts are re-derived with the same driver and the rule module must report a violation that is not a
    listed known finding.  (2) Each behaviour-preserving refactoring in fixtures/neutral/*.diff is applied the same way and the
    rule module must stay silent.  Returns a summary dict; raises CheckBroken if a variant is missed or a neutral change alarms."""
    import tempfile, random
    vs = variants_for(pid)
    random.Random(tier_seed).shuffle(vs)
    res = {"variants": len(vs), "detected": 0, "skipped": [], "missed": [], "details": [], "neutral": 0, "neutral_silent": 0, "neutral_alarms": [], "neutral_skipped": []}
    tree_key = _sha_tree()
    scratch = tempfile.mkdtemp(prefix="zerv-verif-scratch-")
    try:
        for name, patch in vs:
            fact, work, how = _scratch_facts(scratch, name, patch, tree_key)
            if fact is None:
                res["skipped"].append("%s (%s)" % (name, how)); continue
            sub = _run_on(pid, mod, fact, work)
            newv = getattr(sub, "new_violations", [])
            if newv:
                res["detected"] += 1
                res["details"].append({"variant": name, "reported": [v["key"] for v in newv][:4]})
            elif name.endswith("(cross)"):
                # a change seeded for another property that this check reported when it was installed: informative only
                res.setdefault("cross_not_reported", []).append(name)
            else:
                res["missed"].append(name)
        for name, patch in neutral_fixtures():
            res["neutral"] += 1
            fact, work, how = _scratch_facts(scratch, name, patch, tree_key)
            if fact is None:
                res["neutral_skipped"].append("%s (%s)" % (name, how)); continue
            sub = _run_on(pid, mod, fact, work)
            newv = getattr(sub, "new_violations", [])
            if newv: res["neutral_alarms"].append({"neutral": name, "reported": [v["key"] for v in newv][:3]})
            else: res["neutral_silent"] += 1
    finally:
        shutil.rmtree(scratch, ignore_errors=True)
    if res["missed"]:
        raise CheckBroken("self-test: the check for %s did not report seeded variant(s) %s" % (pid, res["missed"]))
    if res["neutral_alarms"]:
        raise CheckBroken("self-test: the check for %s raised an alarm on behaviour-preserving change(s) %s" % (pid, res["neutral_alarms"]))
    return res

