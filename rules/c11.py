"""C11 - PEP 440 comparison is a spelling-independent total order on a fixed key.
R11.1 cmp term; R11.2 label table; R11.3 local segment table; R11.4 eq/partial_cmp through cmp; R11.5 spelling funnel."""
import core, mir, cmpterm
from c10 import ord_impl, check_stages, field_stage, option_stage, table_is_total_order, eq_via_cmp, ORD, OPT

PEP = "crate::version::pep440::core::PEP440"
LABEL = "crate::version::zerv::core::PreReleaseLabel"
LOCAL = "crate::version::pep440::utils::LocalSegment"

def num(x):
    return "Ord<u32>::cmp(unwrap_or(self.%s,0),unwrap_or(other.%s,0))" % (x, x)

def check(F, rep, tier):
    f = ord_impl(F, PEP)
    if not rep.anchor("R11.1", "<PEP440 as Ord>::cmp", f):
        return core.finish(rep, explanation=EXPL)
    rep.fn_seen(f, *F.children(f.path))
    evals = 0
    lab = "Ord<PreReleaseLabel>::cmp(self.pre_label#Some.0,other.pre_label#Some.0)"
    loc = "Ord<Vec<T, A>>::cmp(self.local#Some.0,other.local#Some.0)"
    rel = "compare_release_versions(self.release,other.release)"
    def pre_ss(a):
        return a[lab] if a[lab] != "Equal" else a[num("pre_number")]
    specs = [field_stage("epoch", "u32"),
             ("release", {rel: ORD}, lambda a: a[rel]),
             option_stage("pre", "self.pre_label", "other.pre_label", "Equal", "Greater", "Less", ss_fn=pre_ss, extra={lab: ORD, num("pre_number"): ORD}),
             option_stage("post", "self.post_label", "other.post_label", "Equal", "Less", "Greater", ss_key=num("post_number")),
             option_stage("dev", "self.dev_label", "other.dev_label", "Equal", "Greater", "Less", ss_key=num("dev_number")),
             option_stage("local", "self.local", "other.local", "Equal", "Less", "Greater", ss_key=loc)]
    try:
        c = cmpterm.Comparator(F, f)
        evals += check_stages(rep, "R11.1", c, specs, "PEP440::cmp") or 0
        release_rule(F, rep, c, rel)
        # local lists: std Vec/slice order over LocalSegment::cmp
        k = [x for x in c.atoms if "local#Some.0" in x]
        if k:
            callee = c.atoms[k[0]]
            if F.fn(callee) is None and ("Vec<T, A>" in callee or "Ord for [" in callee or "slice" in callee):
                rep.ok("R11.1", "local segment lists compared by the std slice order (element-wise, shorter prefix lower)", nontrivial_key="localslice")
            else:
                rep.bad("R11.1", "local-list-order", "local segment lists are compared by %s" % callee, f.where())
    except cmpterm.Unrecognised as e:
        rep.undecided("R11.1", "unrecognised-shape:PEP440::cmp", str(e), f.where())
    # ---- R11.2 label order a < b < rc ---------------------------------------------------------------
    g = ord_impl(F, LABEL)
    if rep.anchor("R11.2", "<PreReleaseLabel as Ord>::cmp", g):
        rep.fn_seen(g)
        try:
            cl = cmpterm.Comparator(F, g)
            dom = ("Alpha", "Beta", "Rc"); rank = {"Alpha": 0, "Beta": 1, "Rc": 2}
            def spec(a):
                d = rank[a["self"]] - rank[a["other"]]
                return "Less" if d < 0 else ("Greater" if d > 0 else "Equal")
            evals += check_stages(rep, "R11.2", cl, [("label", {"self": dom, "other": dom}, spec)], "PreReleaseLabel::cmp") or 0
            tab = {(x, y): cl.eval_stage(cl.stages[0], {"self": x, "other": y}) for x in dom for y in dom}
            pr = table_is_total_order(tab, dom)
            if pr: rep.bad("R11.2", "label-not-total-order", "the 9-entry label table is not a strict total order: %s" % pr[:3], g.where())
            else: rep.ok("R11.2", "label table is antisymmetric, reflexive and transitive (9 entries)", nontrivial_key="total")
        except cmpterm.Unrecognised as e:
            rep.undecided("R11.2", "unrecognised-shape:PreReleaseLabel::cmp", str(e), g.where())
    # ---- R11.3 local segment order ---------------------------------------------------------------------
    h = ord_impl(F, LOCAL)
    if rep.anchor("R11.3", "<LocalSegment as Ord>::cmp", h):
        rep.fn_seen(h)
        try:
            cs = cmpterm.Comparator(F, h)
            ku = "Ord<u32>::cmp(self#UInt.0,other#UInt.0)"
            ks = "Ord<String>::cmp(to_lowercase(self#Str.0),to_lowercase(other#Str.0))"
            # text parts: an all-digit one is a number too large for UInt(u32), kept verbatim without leading zeros, so it compares
            # by (length, digits) = by value, and below every alphabetic part; alphabetic parts compare case-insensitively
            kns = "is_numeric_text(self#Str.0)"; kno = "is_numeric_text(other#Str.0)"
            klen = "Ord<usize>::cmp(len(self#Str.0),len(other#Str.0))"
            kdig = "Ord<str>::cmp(self#Str.0,other#Str.0)"
            def spec(a):
                s, o = a["self"], a["other"]
                if s == "UInt" and o == "UInt": return a[ku]
                if s == "Str" and o == "Str":
                    ns, no = a[kns] == "true", a[kno] == "true"
                    if ns and no: return a[klen] if a[klen] != "Equal" else a[kdig]
                    if ns != no: return "Less" if ns else "Greater"
                    return a[ks]
                return "Less" if s == "UInt" else "Greater"
            evals += check_stages(rep, "R11.3", cs, [("segment", {"self": ("Str", "UInt"), "other": ("Str", "UInt"), ku: ORD, ks: ORD, kns: ("false", "true"), kno: ("false", "true"), klen: ORD, kdig: ORD}, spec)], "LocalSegment::cmp") or 0
        except cmpterm.Unrecognised as e:
            rep.undecided("R11.3", "unrecognised-shape:LocalSegment::cmp", str(e), h.where())
    # ---- R11.7 numeric local parts compare by value whatever their size -------------------------------------------------------------
    # LocalSegment::UInt holds a u32; where the parser keeps a longer digit run as text (Str), the comparator must still treat it as
    # a number (by value, below alphabetic parts) - a plain text comparison orders 10000000000 below 4294967296.
    if h is not None:
        import parsers as _ps
        producers = []
        for p_, g_ in F.fns.items():
            if not p_.startswith("crate::version::pep440::parser::"): continue
            for bi, t in g_.calls():
                c = mir.callee(t) or ""
                is_ctor = c.endswith("LocalSegment::try_new_str") or any(a[0] == "c" and a[1].get("k") == "fn" and str(a[1].get("path")).endswith("LocalSegment::Str") for a in t[2])
                if not is_ctor: continue
                g2, b2 = g_, bi
                for _ in range(4):
                    try:
                        paths = [pp for pp in mir.enum_paths(g2, limit=5000, stop_blocks=[b2]) if pp[-1] == b2]
                    except mir.TooManyPaths:
                        break
                    if any(any(m == "all" and tr and pr == "is_ascii_digit" for m, c_, tr, pr in f_) for pp in paths for f_ in _ps.path_facts(F, g2, pp)):
                        producers.append("%s bb%d line %s" % (g_.where(), bi, g_.blocks[bi]["line"])); break
                    par = F.fn(g2.parent) if g2.kind == "closure" and g2.parent else None
                    if par is None: break
                    made = [b3 for b3, s3, st in par.stmts() if st[0] == "=" and st[2][0] == "agg" and st[2][1].get("k") == "closure" and st[2][1]["path"] == g2.path]
                    if not made: break
                    g2, b2 = par, made[0]
        cgl = mir.CallGraph(F)
        cmp_scope = [F.fn(p_) for p_ in cgl.closure([h.path], generic=False) if F.fn(p_) is not None and p_.startswith("crate::version::pep440::")]
        cmp_scope += [c_ for g_ in list(cmp_scope) for c_ in F.children(g_.path)]
        digit_aware = any((mir.callee(t) or "").rsplit("::", 1)[-1] in ("is_ascii_digit", "is_numeric", "is_digit", "parse") for g_ in cmp_scope for bi, t in g_.calls()) or \
                      any(a[0] == "c" and a[1].get("k") == "fn" and str(a[1].get("path")).endswith("is_ascii_digit") for g_ in cmp_scope for bi, t in g_.calls() for a in t[2])
        if producers and not digit_aware:
            rep.bad("R11.7", "big-numeric-local-as-text", "the parser keeps an all-digit local part that does not fit u32 as text (%s) and <LocalSegment as Ord>::cmp compares text parts only as lower-cased strings: 1.0+10000000000 orders below 1.0+4294967296 (numeric parts must compare by value)" % producers[0], h.where())
        elif producers:
            # what the comparator calls "numeric text" is: non-empty and ASCII digits only
            for g_ in cmp_scope:
                if g_.kind == "closure" or g_.d.get("ret") != "bool" or g_.path == h.path: continue
                preds = [_ps.closure_pred_name(F, g_, t[2][1]) for bi, t in g_.calls() if (mir.callee(t) or "").endswith("::all") and len(t[2]) > 1]
                anyp = [1 for bi, t in g_.calls() if (mir.callee(t) or "").endswith("::any")]
                empt = any((mir.callee(t) or "").endswith("::is_empty") for bi, t in g_.calls())
                if preds == ["is_ascii_digit"] and not anyp and empt: rep.ok("R11.7", "%s = !is_empty && all(is_ascii_digit)" % g_.path.rsplit("::", 1)[-1], nontrivial_key="numtext" + g_.path)
                elif preds or anyp: rep.bad("R11.7", "numeric-text-test:" + g_.path.rsplit("::", 1)[-1], "the comparator's test for a numeric text part is not `non-empty and all ASCII digits` (all-predicates %s, any-predicates %d, is_empty %s)" % (preds, len(anyp), empt), g_.where())
            rep.ok("R11.7", "digit runs kept as text (%d site(s)) meet a comparator that tests for digits (its table is R11.3)" % len(producers), nontrivial_key="bignum")
        else:
            rep.ok("R11.7", "the parser never stores an all-digit local part as text", nontrivial_key="bignum-none")
    eq_via_cmp(F, rep, "R11.4", PEP, f)
    # ---- R11.8 the greatest PEP 440 tag on a commit is chosen with this order, on the versions as parsed ------------------------------
    fm_ = [x for x in F.find("GitUtils::find_max_version_tag") if x.kind == "assoc"]
    if rep.anchor("R11.8", "GitUtils::find_max_version_tag", fm_):
        import c10 as _c10
        cg_ = mir.CallGraph(F)
        if f.path in cg_.closure([fm_[0].path], generic=False): rep.ok("R11.8", "the tag choice reaches <PEP440 as Ord>::cmp", nontrivial_key="maxbypep")
        else: rep.bad("R11.8", "max-by-other-order", "the comparator used to choose the greatest tag does not reach <PEP440 as Ord>::cmp", fm_[0].where())
        _c10.tag_choice_rule(F, rep, cg_, fm_[0], "R11.8", "PEP440", "__none__")
    # derived PartialEq on LocalSegment is structural; check that PEP440 equality does not use it for `local` outside cmp
    # ---- R11.5 spelling funnel: every spelling must reach the comparator at all - the parser adds no accept/reject
    # decision of its own (leading zeros, separators, labels) and loses no number (shared rules with C09)
    import parsers
    fs = F.find("<impl std::str::FromStr for crate::version::pep440::core::PEP440>::from_str")
    if rep.anchor("R11.5", "<PEP440 as FromStr>::from_str", fs):
        parsers.analyse_from_str(F, fs[0], rep, "R11.5", "crate::version::pep440::parser::")
    rep.extra["abstract_assignments_evaluated"] = evals
    # ---- R11.6 dependency: text local segments enter the comparison key through LocalSegment::try_new_str, i.e. through the
    # pep440_local_str sanitiser preset; a length cap there makes long segments that differ late compare equal
    nstr = 0
    for p_, g_ in F.fns.items():
        if not (p_.startswith("crate::version::pep440::parser::") or p_.startswith("crate::version::pep440::core::")) or "::tests" in p_: continue
        for bi, si, st in g_.stmts():
            if st[0] == "=" and st[2][0] == "agg" and st[2][1].get("k") == "adt" and (st[2][1].get("adt") or "").endswith("LocalSegment") and st[2][1].get("variant") == "Str":
                nstr += 1
                rep.bad("R11.6", "local-text-unsanitised:" + p_.replace("crate::", "").rsplit("::", 1)[-1], "a text local part is built with LocalSegment::Str(..) directly instead of LocalSegment::try_new_str: it skips the sanitiser that strips leading zeros of digit runs and unifies spelling, so two spellings of one version get different comparison keys", "%s bb%d line %s" % (g_.where(), bi, g_.blocks[bi]["line"]))
    if not nstr: rep.ok("R11.6", "the PEP 440 parser and normaliser build text local parts only through LocalSegment::try_new_str", nontrivial_key="viasan")
    core.borrow(F, rep, "c09", "C09", "R11.5", ("R09.5:label-",), "every spelling of a pre-release label the grammar accepts reaches the same label (case, alternative names)")
    core.borrow(F, rep, "c07", "C07", "R11.6", ("preset-config:pep440_local_str",), "the local-segment sanitiser preset does not shorten segments")
    return core.finish(rep, explanation=EXPL, assumptions=ASSUME, trusted=TRUST)

def release_rule(F, rep, c, relkey):
    callee = c.atoms.get(relkey)
    h = F.fn(callee) if callee else None
    if h is None:
        rep.bad("R11.1", "release-order", "release numbers are not compared by a local zero-padding comparison (%s)" % callee, c.fn.where()); return
    rep.fn_seen(h)
    try:
        sl = cmpterm.slice_lex(F, h)
    except cmpterm.Mismatch as e:
        rep.bad("R11.1", "release-order:" + h.path.rsplit("::", 1)[-1], "release comparison deviates from the zero-padded left-to-right comparison: %s" % e, h.where()); return
    except cmpterm.Unrecognised as e:
        rep.undecided("R11.1", "unrecognised-shape:" + h.path.rsplit("::", 1)[-1], "release comparison: %s" % e, h.where()); return
    probs = []
    b = sl["bound"]
    if not (b and b[0] == "padded"): probs.append("elements are not read as get(i).copied().unwrap_or(pad) on both sides")
    else:
        if b[1] != 0 or b[2] != 0: probs.append("padding value is %r/%r, expected 0" % (b[1], b[2]))
        rng = b[3]
        ok_rng = rng[0] == "range_item" and rng[1] == ("const", 0) and rng[2][0] == "max" and all(x[0] == "len" for x in rng[2][1]) and len({x[1] for x in rng[2][1]}) == 2
        if not ok_rng: probs.append("loop does not run over 0..max(len left, len right): %s" % (rng,))
    if "Ord for u32" not in sl["elem"]: probs.append("elements compared with %s" % sl["elem"])
    if not sl["in_loop_return"]: probs.append("a non-Equal element comparison is not returned")
    if sl["const_returns"] != ["Equal"]: probs.append("after the loop it returns %s, expected Equal" % sl["const_returns"])
    if probs: rep.bad("R11.1", "release-order:" + h.path.rsplit("::", 1)[-1], "release comparison is not 'numerically, padded with zeros': " + "; ".join(probs), h.where())
    else: rep.ok("R11.1", "%s = PaddedLex(u32::cmp over 0..max(len), pad 0, Equal at the end)" % h.path.rsplit("::", 1)[-1], sample=str(sl), nontrivial_key="paddedlex")

EXPL = ("<PEP440 as Ord>::cmp is flattened into six lexicographic stages (epoch, release, pre, post, dev, local) and each stage's decision table is compared with the reference key of the statement on all abstract "
        "assignments (Option discriminants x comparison outcomes): pre None>Some with label a<b<rc then number, post None<Some, dev None>Some, local None<Some, implicit numbers read as unwrap_or(0) on both sides, "
        "every atom oriented self-before-other. The release loop is recognised as PaddedLex(u32, pad 0 over 0..max(len)); local lists use the std slice order over <LocalSegment as Ord>::cmp, whose table "
        "(numeric below alphabetic, numeric by value, alphabetic lower-cased) is checked; the 9-entry label table is checked to be a strict total order; eq is cmp == Equal. "
        "Spelling independence is decided only in its structural part (all spellings funnel into one struct, see C09 rules); equality of differently spelled inputs as values is not decided here.")
ASSUME = ["u32::cmp, String::cmp, <[T] as Ord>::cmp and Ordering::then_with have their std semantics"]
TRUST = ["rustc MIR", "zfacts", "rules/cmpterm.py, c11.py, c10.py"]
