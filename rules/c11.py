"""C11 - PEP 440 comparison is a spelling-independent total order on a fixed key.
R11.1 cmp term; R11.2 label table; R11.3 local segment table; R11.4 eq/partial_cmp through cmp; R11.5 spelling funnel."""
import core, mir, cmpterm
from c10 import ord_impl, check_stages, field_stage, option_stage, table_is_total_order, eq_via_cmp, ORD, OPT

PEP = "crate::version::pep440::core::PEP440"
LABEL = "crate::version::zerv::core::PreReleaseLabel"
LOCAL = "crate::version::pep440::utils::LocalSegment"

def num(x):
    return "Ord<u32>::cmp(unwrap_or(self.%s,0),unwrap_or(other.%s,0))" % (x, x)

def check(F, rep, tier):
    f = ord_impl(F, PEP)
    if not rep.anchor("R11.1", "<PEP440 as Ord>::cmp", f):
        return core.finish(rep, explanation=EXPL)
    rep.fn_seen(f, *F.children(f.path))
    evals = 0
    lab = "Ord<PreReleaseLabel>::cmp(self.pre_label#Some.0,other.pre_label#Some.0)"
    loc = "Ord<Vec<T, A>>::cmp(self.local#Some.0,other.local#Some.0)"
    rel = "compare_release_versions(self.release,other.release)"
    def pre_ss(a):
        return a[lab] if a[lab] != "Equal" else a[num("pre_number")]
    specs = [field_stage("epoch", "u32"),
             ("release", {rel: ORD}, lambda a: a[rel]),
             option_stage("pre", "self.pre_label", "other.pre_label", "Equal", "Greater", "Less", ss_fn=pre_ss, extra={lab: ORD, num("pre_number"): ORD}),
             option_stage("post", "self.post_label", "other.post_label", "Equal", "Less", "Greater", ss_key=num("post_number")),
             option_stage("dev", "self.dev_label", "other.dev_label", "Equal", "Greater", "Less", ss_key=num("dev_number")),
             option_stage("local", "self.local", "other.local", "Equal", "Less", "Greater", ss_key=loc)]
    try:
        c = cmpterm.Comparator(F, f)
        evals += check_stages(rep, "R11.1", c, specs, "PEP440::cmp") or 0
        release_rule(F, rep, c, rel)
        # local lists: std Vec/slice order over LocalSegment::cmp
        k = [x for x in c.atoms if "local#Some.0" in x]
        if k:
            callee = c.atoms[k[0]]
            if F.fn(callee) is None and ("Vec<T, A>" in callee or "Ord for [" in callee or "slice" in callee):
                rep.ok("R11.1", "local segment lists compared by the std slice order (element-wise, shorter prefix lower)", nontrivial_key="localslice")
            else:
                rep.bad("R11.1", "local-list-order", "local segment lists are compared by %s" % callee, f.where())
    except cmpterm.Unrecognised as e:
        rep.undecided("R11.1", "unrecognised-shape:PEP440::cmp", str(e), f.where())
    # ---- R11.2 label order a < b < rc ---------------------------------------------------------------
    g = ord_impl(F, LABEL)
    if rep.anchor("R11.2", "<PreReleaseLabel as Ord>::cmp", g):
        rep.fn_seen(g)
        try:
            cl = cmpterm.Comparator(F, g)
            dom = ("Alpha", "Beta", "Rc"); rank = {"Alpha": 0, "Beta": 1, "Rc": 2}
            def spec(a):
                d = rank[a["self"]] - rank[a["other"]]
                return "Less" if d < 0 else ("Greater" if d > 0 else "Equal")
            evals += check_stages(rep, "R11.2", cl, [("label", {"self": dom, "other": dom}, spec)], "PreReleaseLabel::cmp") or 0
            tab = {(x, y): cl.eval_stage(cl.stages[0], {"self": x, "other": y}) for x in dom for y in dom}
            pr = table_is_total_order(tab, dom)
            if pr: rep.bad("R11.2", "label-not-total-order", "the 9-entry label table is not a strict total order: %s" % pr[:3], g.where())
            else: rep.ok("R11.2", "label table is antisymmetric, reflexive and transitive (9 entries)", nontrivial_key="total")
        except cmpterm.Unrecognised as e:
            rep.undecided("R11.2", "unrecognised-shape:PreReleaseLabel::cmp", str(e), g.where())
    # ---- R11.3 local segment order ---------------------------------------------------------------------
    h = ord_impl(F, LOCAL)
    if rep.anchor("R11.3", "<LocalSegment as Ord>::cmp", h):
        rep.fn_seen(h)
        try:
            cs = cmpterm.Comparator(F, h)
            ku = "Ord<u32>::cmp(self#UInt.0,other#UInt.0)"
            ks = "Ord<String>::cmp(to_lowercase(self#Str.0),to_lowercase(other#Str.0))"
            def spec(a):
                s, o = a["self"], a["other"]
                if s == "UInt" and o == "UInt": return a[ku]
                if s == "Str" and o == "Str": return a[ks]
                return "Less" if s == "UInt" else "Greater"
            evals += check_stages(rep, "R11.3", cs, [("segment", {"self": ("Str", "UInt"), "other": ("Str", "UInt"), ku: ORD, ks: ORD}, spec)], "LocalSegment::cmp") or 0
        except cmpterm.Unrecognised as e:
            rep.undecided("R11.3", "unrecognised-shape:LocalSegment::cmp", str(e), h.where())
    eq_via_cmp(F, rep, "R11.4", PEP, f)
    # derived PartialEq on LocalSegment is structural; check that PEP440 equality does not use it for `local` outside cmp
    # ---- R11.5 spelling funnel: every spelling must reach the comparator at all - the parser adds no accept/reject
    # decision of its own (leading zeros, separators, labels) and loses no number (shared rules with C09)
    import parsers
    fs = F.find("<impl std::str::FromStr for crate::version::pep440::core::PEP440>::from_str")
    if rep.anchor("R11.5", "<PEP440 as FromStr>::from_str", fs):
        parsers.analyse_from_str(F, fs[0], rep, "R11.5", "crate::version::pep440::parser::")
    rep.extra["abstract_assignments_evaluated"] = evals
    # ---- R11.6 dependency: text local segments enter the comparison key through LocalSegment::try_new_str, i.e. through the
    # pep440_local_str sanitiser preset; a length cap there makes long segments that differ late compare equal
    core.borrow(F, rep, "c07", "C07", "R11.6", ("preset-config:pep440_local_str",), "the local-segment sanitiser preset does not shorten segments")
    return core.finish(rep, explanation=EXPL, assumptions=ASSUME, trusted=TRUST)

def release_rule(F, rep, c, relkey):
    callee = c.atoms.get(relkey)
    h = F.fn(callee) if callee else None
    if h is None:
        rep.bad("R11.1", "release-order", "release numbers are not compared by a local zero-padding comparison (%s)" % callee, c.fn.where()); return
    rep.fn_seen(h)
    try:
        sl = cmpterm.slice_lex(F, h)
    except cmpterm.Mismatch as e:
        rep.bad("R11.1", "release-order:" + h.path.rsplit("::", 1)[-1], "release comparison deviates from the zero-padded left-to-right comparison: %s" % e, h.where()); return
    except cmpterm.Unrecognised as e:
        rep.undecided("R11.1", "unrecognised-shape:" + h.path.rsplit("::", 1)[-1], "release comparison: %s" % e, h.where()); return
    probs = []
    b = sl["bound"]
    if not (b and b[0] == "padded"): probs.append("elements are not read as get(i).copied().unwrap_or(pad) on both sides")
    else:
        if b[1] != 0 or b[2] != 0: probs.append("padding value is %r/%r, expected 0" % (b[1], b[2]))
        rng = b[3]
        ok_rng = rng[0] == "range_item" and rng[1] == ("const", 0) and rng[2][0] == "max" and all(x[0] == "len" for x in rng[2][1]) and len({x[1] for x in rng[2][1]}) == 2
        if not ok_rng: probs.append("loop does not run over 0..max(len left, len right): %s" % (rng,))
    if "Ord for u32" not in sl["elem"]: probs.append("elements compared with %s" % sl["elem"])
    if not sl["in_loop_return"]: probs.append("a non-Equal element comparison is not returned")
    if sl["const_returns"] != ["Equal"]: probs.append("after the loop it returns %s, expected Equal" % sl["const_returns"])
    if probs: rep.bad("R11.1", "release-order:" + h.path.rsplit("::", 1)[-1], "release comparison is not 'numerically, padded with zeros': " + "; ".join(probs), h.where())
    else: rep.ok("R11.1", "%s = PaddedLex(u32::cmp over 0..max(len), pad 0, Equal at the end)" % h.path.rsplit("::", 1)[-1], sample=str(sl), nontrivial_key="paddedlex")

EXPL = ("<PEP440 as Ord>::cmp is flattened into six lexicographic stages (epoch, release, pre, post, dev, local) and each stage's decision table is compared with the reference key of the statement on all abstract "
        "assignments (Option discriminants x comparison outcomes): pre None>Some with label a<b<rc then number, post None<Some, dev None>Some, local None<Some, implicit numbers read as unwrap_or(0) on both sides, "
        "every atom oriented self-before-other. The release loop is recognised as PaddedLex(u32, pad 0 over 0..max(len)); local lists use the std slice order over <LocalSegment as Ord>::cmp, whose table "
        "(numeric below alphabetic, numeric by value, alphabetic lower-cased) is checked; the 9-entry label table is checked to be a strict total order; eq is cmp == Equal. "
        "Spelling independence is decided only in its structural part (all spellings funnel into one struct, see C09 rules); equality of differently spelled inputs as values is not decided here.")
ASSUME = ["u32::cmp, String::cmp, <[T] as Ord>::cmp and Ordering::then_with have their std semantics"]
TRUST = ["rustc MIR", "zfacts", "rules/cmpterm.py, c11.py, c10.py"]
