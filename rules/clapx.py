"""Extracts clap option tables from the MIR of derive-generated `augment_args` / `augment_subcommands`."""
import mir

def _enum_variant(fn, op):
    for o in mir.trace_op(fn, op, transparent=()):
        if o.kind == "agg":
            rv = mir.rv_at(fn, *o.data)
            if rv[1].get("k") == "adt": return rv[1]["variant"]
        if o.kind == "const" and o.data.get("k") == "variant": return o.data["v"]
    return None

def const_str_array(F, fn, op, depth=0):
    """values of a [&str; N] / &[&str] operand: inline array aggregate, promoted, or named const"""
    out = []
    for o in mir.trace_op(fn, op, transparent=()):
        if o.kind == "agg":
            rv = mir.rv_at(o.fn, *o.data)
            for a in rv[2]:
                v = mir.const_arg(o.fn, a)
                if isinstance(v, str): out.append(v)
                else:
                    sub = const_str_array(F, o.fn, a, depth + 1)
                    if sub is None: return None
                    out += sub
        elif o.kind == "const":
            c = o.data
            body = None
            if c.get("k") == "promoted": body = F.fn("%s::promoted[%d]" % (c["of"], c["idx"]))
            elif c.get("named"): body = F.fn(c["named"])
            elif c.get("k") == "str": out.append(c["v"]); continue
            if body is None or depth > 4: return None
            sub = const_str_array(F, body, ["cp", [0]], depth + 1)
            if sub is None: return None
            out += sub
        else:
            return None
    return out

class Opt:
    def __init__(self, ident): 
        self.id = ident; self.short = None; self.long = None; self.action = None; self.values = None
        self.is_global = False; self.default = None; self.num_args = None; self.default_missing = None
        self.value_ty = None; self.owner = None; self.extra = []
    def positional(self): return self.short is None and self.long is None
    def takes_value(self): return self.action not in ("SetTrue", "SetFalse", "Count", "Help", "Version", "HelpShort", "HelpLong")
    def __repr__(self):
        return "Opt(%s -%s --%s %s vals=%s global=%s nargs=%s dm=%s ty=%s)" % (self.id, self.short, self.long, self.action, self.values, self.is_global, self.num_args, self.default_missing, self.value_ty)

def args_of(F, path, rep=None, seen=None):
    """[Opt] defined by <T as clap::Args>::augment_args (flattened structs included)"""
    if seen is None: seen = set()
    if path in seen: return []
    seen.add(path)
    f = F.fn(path)
    if f is None: return None
    if rep is not None: rep.fn_seen(f)
    opts = []
    for bi, t in f.calls():
        c = mir.callee(t) or ""
        if c == "clap::Command::arg":
            names, final = mir.chain(f, t[2][1], stop=("clap::Arg::new",), maxlen=60)
            if not names or not names[-1][0].endswith("clap::Arg::new"): 
                opts.append(Opt("?unrecognised@bb%d" % bi)); continue
            o = Opt(mir.const_arg(f, names[-1][2][2][0])); o.owner = path
            for n, b2, t2 in reversed(names[:-1]):
                m = n.rsplit("::", 1)[-1]
                a = t2[2][1] if len(t2[2]) > 1 else None
                if m == "short": o.short = mir.const_arg(f, a)
                elif m == "long": o.long = mir.const_arg(f, a)
                elif m == "action": o.action = _enum_variant(f, a)
                elif m == "global": o.is_global = mir.const_arg(f, a)
                elif m == "default_value": o.default = mir.const_arg(f, a)
                elif m == "default_missing_value": o.default_missing = mir.const_arg(f, a)
                elif m == "num_args":
                    o.num_args = t2[1].get("targs")
                    o.extra.append(("num_args", [mir.show(x) for x in []]))
                elif m == "value_parser":
                    ty = (t2[1].get("targs") or [""])[0]
                    if ty.startswith("[&str"):
                        o.values = const_str_array(F, f, a)
                    else:
                        # inferred parser: find the _infer_ValueParser_for::<T> feeding it
                        for o2 in mir.trace_op(f, a, transparent=()):
                            if o2.kind == "call":
                                tt = f.blocks[o2.data]["t"]
                                targ = (tt[1].get("targs") or [""])[0]
                                o.value_ty = targ.replace("&", "").replace("clap::builder::_infer_ValueParser_for<", "").rstrip(">")
                elif m in ("value_name", "help", "long_help", "required", "help_heading", "hide", "conflicts_with", "overrides_with", "requires", "alias", "visible_alias"): 
                    if m in ("alias", "visible_alias"): o.extra.append((m, mir.const_arg(f, a)))
                else:
                    o.extra.append((m, None))
            opts.append(o)
        elif c.endswith("as clap::Args>::augment_args"):
            inner = c
            if c.startswith("<std::boxed::Box<T>"):
                ty = (t[1].get("targs") or [""])[0]
                inner = "<%s as clap::Args>::augment_args" % ty.replace("std::boxed::Box<", "")[:-1]
            sub = args_of(F, inner, rep, seen)
            if sub is None: opts.append(Opt("?missing:" + inner))
            else: opts += sub
    return opts

def subcommands(F, rep=None):
    """{name: [Opt]} from <Commands as Subcommand>::augment_subcommands plus global options of Cli"""
    f = None
    for p, g in F.fns.items():
        if p.endswith("as clap::Subcommand>::augment_subcommands") and "cli::parser" in p: f = g
    if f is None: return None, None
    if rep is not None: rep.fn_seen(f)
    subs = {}
    for bi, t in f.calls():
        c = mir.callee(t) or ""
        if c == "clap::Command::subcommand":
            names, final = mir.chain(f, t[2][1], stop=("clap::Command::new",), maxlen=40)
            nm = None; opts = []
            for n, b2, t2 in names:
                if n.endswith("clap::Command::new"): nm = mir.const_arg(f, t2[2][0])
                elif n.endswith("as clap::Args>::augment_args"):
                    inner = n
                    if n.startswith("<std::boxed::Box<T>"):
                        ty = (t2[1].get("targs") or [""])[0]
                        inner = "<%s as clap::Args>::augment_args" % ty.replace("std::boxed::Box<", "")[:-1]
                    opts = args_of(F, inner, rep) or []
            subs[nm] = opts
    cli = None
    for p in F.fns:
        if p.endswith("cli::parser::Cli as clap::Args>::augment_args"): cli = p
    top = args_of(F, cli, rep) if cli else []
    return subs, top
