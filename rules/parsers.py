"""Rules shared by C08 / C09 (and reused by C07, C13): the version parsers."""
import core, mir, rx

NAME = "regex::Captures::<'h>::name"
TRYB = "as std::ops::Try>::branch"
PARSE = "core::str::<impl str>::parse"
INT_TYPES = ("u8", "u16", "u32", "u64", "u128", "usize", "i8", "i16", "i32", "i64", "i128", "isize")

def module_fns(F, f, module):
    """from_str plus every local function/closure of `module` in its call closure"""
    cg = mir.CallGraph(F)
    reach = cg.closure([f.path], generic=False)
    out = [F.fns[p] for p in sorted(reach) if p in F.fns and (p.startswith(module) or p.startswith(f.path))]
    return out

def parser_scope(F, f, module):
    """from_str with the module's helper functions spliced in (so `parse_core_component(&caps, "major")?` is judged like the
    inline code it replaces), plus every closure built in that body, each with its own local calls spliced in."""
    okf = lambda F_, caller, cp, g: g is not None and g.kind != "closure" and (cp.startswith(module) or cp.startswith(f.path.rsplit("::", 1)[0]))
    root = mir.inlined(F, f, depth=4, ok=okf)
    out = [root]; seen = set()
    work = [root]
    while work:
        g = work.pop()
        for c in mir.closures_in(F, g):
            if c.path in seen: continue
            seen.add(c.path)
            ci = mir.inlined(F, c, depth=3, ok=okf)
            out.append(ci); work.append(ci)
    return out

def analyse_from_str(F, f, rep, R, module):
    info = {"pattern": None, "checked_groups": set(), "groups_read": {}, "parse_sites": []}
    scope = parser_scope(F, f, module)
    f0 = f; f = scope[0]
    # ---- anchor: the regex ------------------------------------------------------
    statics = rx.statics_used(f)
    pats = []
    for s in statics:
        p, where = rx.regex_of_static(F, s)
        if p is not None: pats.append((s, p))
    if len(pats) != 1:
        rep.bad(R + ".1", "anchor-missing:regex", "expected exactly one LazyLock<Regex> static used by from_str, found %d" % len(pats), f.where())
    else:
        info["static"], info["pattern"] = pats[0]
    # ---- R.2 input integrity --------------------------------------------------------
    caps = [(bi, t) for bi, t in f.calls() if mir.call_matches(t, ("regex::Regex::captures", "regex::Regex::is_match", "regex::Regex::find", "regex::Regex::captures_iter"))]
    if not caps:
        rep.bad(R + ".2", "anchor-missing:captures", "from_str does not call Regex::captures", f.where())
    for bi, t in caps:
        os = mir.trace_op(f, t[2][1], transparent=())
        good = len(os) == 1 and os[0].kind == "param" and os[0].data == 1 and not os[0].path
        if good:
            rep.ok(R + ".2", "haystack of %s is the unmodified parameter" % mir.callee(t), sample=repr(os), nontrivial_key="hay%d" % bi)
        else:
            rep.bad(R + ".2", "haystack-modified", "the string matched against the regex is not the unmodified input: %r" % os, "%s bb%d line %s" % (f.where(), bi, f.blocks[bi]["line"]))
    # ---- R.3 rejection sites --------------------------------------------------------
    rep.fn_seen(*module_fns(F, f0, module))
    fns = scope
    n_nomatch = 0
    info["numeric_sites"] = []
    for g in fns:
        for bi, t in g.calls():
            if not mir.call_matches(t, (TRYB,)): continue
            site = "%s bb%d line %s" % (g.where(), bi, g.blocks[bi]["line"])
            via_params = []
            sl = back_slice(F, g, t[2][0], params=via_params)
            cs = sorted({mir.callee(t2) or "?" for _, _, t2 in sl})
            parses = [(h, b2, t2) for h, b2, t2 in sl if mir.call_matches(t2, (PARSE,))]
            caps = [x for x in sl if mir.call_matches(x[2], ("regex::Regex::captures",))]
            names = set()
            for h, b2, t2 in sl:
                if mir.call_matches(t2, (NAME,)) and len(t2[2]) > 1:
                    v = mir.const_arg(h, t2[2][1])
                    names.add(v if isinstance(v, str) else "?")
            unknown = [c for c in cs if not any(pl in c for pl in PLUMBING) and not (c in F.fns)]
            short = "/".join(sorted(c.rsplit("::", 1)[-1] for c in cs))[:80]
            if unknown:
                rep.bad(R + ".3", "extra-rejection:" + short, "an Err exit of the parser depends on %s, which is neither the regex match nor a numeric parse of a capture group" % unknown, site)
                continue
            if caps and not parses:
                n_nomatch += 1
                rep.ok(R + ".3", "rejection: no match", sample=cs, nontrivial_key="nomatch%s%d" % (g.path, bi))
                continue
            tys = {(t2[1].get("targs") or ["?"])[0] for _, _, t2 in parses}
            if parses and names and "?" not in names and tys <= set(INT_TYPES) and not caps:
                rep.ok(R + ".3", "rejection: numeric parse (%s) of group(s) %s" % ("/".join(sorted(tys)), sorted(names)), sample=cs, nontrivial_key="num" + ",".join(sorted(names)))
                info["numeric_sites"].append({"fn": g, "bi": bi, "groups": sorted(names), "types": sorted(tys), "site": site})
                for nm in names: info["parse_sites"].append((nm, sorted(tys)[0], site))
                continue
            if parses and tys <= set(INT_TYPES) and not caps and via_params and (not names or "?" in names):
                # `|group| parse_number(group.as_str())?`: the text comes in through a parameter, the group is named by the callers
                rep.undecided(R + ".3", "rejection-through-parameter:" + short, "a numeric-parse rejection whose text enters through parameter(s) %s: the capture group is named at the call sites" % sorted(set(via_params))[:3], site)
                continue
            rep.bad(R + ".3", "extra-rejection:" + short,
                    "an Err exit of the parser that is neither 'no regex match' nor 'numeric parse failure of a capture group' (calls in its slice: %s)" % cs, site)
        # direct Err construction
        for bi, si, s in g.stmts():
            if s[0] == "=" and s[2][0] == "agg" and s[2][1].get("variant") == "Err" and s[2][1].get("adt", "").endswith("result::Result") and g.d.get("ret", "").startswith("std::result::Result<"):
                # allowed only as the Err arm of a numeric parse result (`match text.parse() { Err(_) => Err(..) }`)
                from_parse = False; no_match = False
                for d, pol, dd in mir.guards_of(g, bi):
                    if d[0] == "discr" and "ParseIntError" in str(d[2]) and isinstance(pol, tuple) and (("Err" in pol[1]) if pol[0] == "in" else ("Ok" in pol[1])): from_parse = True
                    # `let Some(caps) = REGEX.captures(s) else { return Err(..) }`: the None arm of the match itself
                    if d[0] == "discr" and "Option<regex::Captures" in str(d[2]) and isinstance(pol, tuple) and (("None" in pol[1]) if pol[0] == "in" else ("Some" in pol[1])):
                        if any(o.kind == "call" and mir.call_matches(o.fn.blocks[o.data]["t"], ("regex::Regex::captures",)) for o in mir.trace_place(g, d[1], transparent=())): no_match = True
                if no_match:
                    n_nomatch += 1
                    rep.ok(R + ".3", "rejection: no match (Err built on the None arm of Regex::captures)", nontrivial_key="nomatch-direct%s%d" % (g.path, bi))
                elif from_parse:
                    rep.ok(R + ".3", "Err built on the failure arm of a numeric parse", nontrivial_key="derr%s%d" % (g.path, bi))
                else:
                    rep.bad(R + ".3", "extra-rejection:direct-Err:%s" % g.path.rsplit("::", 1)[-1],
                            "the parser constructs Err under a condition that is neither 'no regex match' nor a numeric parse failure (guards: %s): an accept/reject decision outside the regex" % [str(x[0][:2])[:50] for x in mir.guards_of(g, bi)], "%s bb%d" % (g.where(), bi))
    rep.floor(R + ".3", "no-match rejection site", n_nomatch, 1)
    # ---- which groups does the code read -------------------------------------------------
    for g in fns:
        for bi, t in g.calls():
            if mir.call_matches(t, (NAME,)) and len(t[2]) > 1:
                os = mir.trace_op(g, t[2][1])
                for o in os:
                    if o.kind == "const" and o.data.get("k") == "str":
                        info["groups_read"].setdefault(o.data["v"], []).append((g, bi))
    # ---- R.4 no constant fallback on numeric parse ----------------------------------------
    constant_fallbacks(F, rep, R + ".4", fns)
    info["fns"] = fns
    return info

PLUMBING = ("Option::<T>::map", "Option::<std::result::Result<T, E>>::transpose", "Option::<T>::or_else", "Option::<T>::and_then",
            "Option::<T>::ok_or", "Result::<T, E>::map_err", "regex::Match::<'h>::as_str", "core::str::<impl str>::split",
            "Iterator::map", "Iterator::collect", "Option::<T>::unwrap", "Option::<T>::expect", "ops::Deref>::deref",
            "regex::Regex::captures", NAME, PARSE, "IntoIterator>::into_iter", "ops::function::Fn", "FnMut", "FnOnce", "Result::<T, E>::map",
            "Option::<T>::is_some", "Option::<T>::as_ref", "std::fmt::format", "std::hint::must_use", "std::fmt::Arguments::<'a>::new",
            "core::fmt::rt::Argument::<'_>::new_", "ToString>::to_string", "std::fmt::Arguments::<'a>::from_str",
            TRYB, "FromResidual", "from_residual", "as std::iter::Iterator>::next", "Vec::<T>::new", "Vec::<T, A>::push")
NO_DESCEND = ("map_err", "ok_or_else", "ok_or", "unwrap_or_else")

def back_slice(F, fn, op, depth=0, seen=None, params=None):
    """call sites (fn, bi, terminator) contributing to the value of `op`: follows every argument backwards,
    descends into closures passed as arguments (except error-constructing closures) and into local closures that are called."""
    if seen is None: seen = set()
    out = []
    if depth > 12: return out
    for o in mir.trace_op(fn, op, transparent=()):
        if o.kind == "param" and params is not None and (fn.kind == "closure" and o.data != 1 or depth > 0 and fn.kind != "closure"):
            params.append((fn.path, o.data))         # the value enters through a parameter: its producer is at some call site not followed here
        if o.kind == "call":
            k = (o.fn.path, o.data)
            if k in seen: continue
            seen.add(k)
            t = o.fn.blocks[o.data]["t"]
            out.append((o.fn, o.data, t))
            cname = (t[1].get("decl") or "").rsplit("::", 1)[-1]
            for i, a in enumerate(t[2]):
                if i >= 1 and cname in NO_DESCEND: continue
                if i == 0 and mir.call_matches(t, (NAME,)): continue   # the Captures object itself
                out += back_slice(F, o.fn, a, depth + 1, seen, params)
            # a call of a local closure / function: include what its result depends on
            tgt = F.fn(mir.callee(t) or "")
            if tgt is not None and (tgt.path, "ret") not in seen:
                seen.add((tgt.path, "ret"))
                out += back_slice(F, tgt, ["cp", [0]], depth + 1, seen, params)
        elif o.kind == "upvar":
            r = mir.resolve_upvar(F, o)
            if r is not None and (o.fn.path, "up", str(o.data)) not in seen:
                seen.add((o.fn.path, "up", str(o.data)))
                out += back_slice(F, r[0], r[1], depth + 1, seen, params)
        elif o.kind == "agg":
            rv = mir.rv_at(o.fn, *o.data)
            if rv[1].get("k") == "closure":
                c = F.fn(rv[1]["path"])
                if c is not None and (c.path, "ret") not in seen:
                    seen.add((c.path, "ret"))
                    out += back_slice(F, c, ["cp", [0]], depth + 1, seen, params)
            else:
                for a in rv[2]:
                    out += back_slice(F, o.fn, a, depth + 1, seen, params)
    return out

def group_relations(groups):
    """groups: rxlang 'groups' list -> (ancestors(g), implied(h, g), exclusive(a, b))"""
    by = {g["name"]: g for g in groups}
    def anc(g):
        out = []; cur = by.get(g, {}).get("parent")
        while cur:
            out.append(cur); cur = by.get(cur, {}).get("parent")
        return out
    def mand_up(h):
        """ancestors (and 'ROOT') that force h to participate"""
        out = set(); cur = h
        while cur in by and by[cur]["mandatory"]:
            parent = by[cur]["parent"]
            out.add(parent or "ROOT")
            if not parent: break
            cur = parent
        return out
    def implied(h, g):
        scope = set(anc(g)) | {g, "ROOT"}
        return h in scope or bool(mand_up(h) & scope)
    def exclusive(a, b):
        pa = {x[0]: x[1] for x in by[a]["alt_path"]}
        pb = {x[0]: x[1] for x in by[b]["alt_path"]}
        return any(k in pb and pb[k] != v for k, v in pa.items())
    return anc, implied, exclusive

def checked_groups(F, info, groups, rep, R):
    """Groups whose text is parsed as an integer with the failure propagated on EVERY path on which the group matched:
    only for those may the character classes be intersected with ASCII digits when computing the effective language."""
    if not groups: return set()
    anc, implied, exclusive = group_relations(groups)
    names_known = {g["name"] for g in groups}
    out = set()
    for ns in info["numeric_sites"]:
        g = ns["fn"]; bi = ns["bi"]; G = ns["groups"]
        if g.kind == "closure" or any(x not in names_known for x in G): continue
        if any(not exclusive(a, b) for i, a in enumerate(G) for b in G[i + 1:]): continue
        ok = True; why = []
        for desc, pol, d in mir.guards_of(g, bi):
            h = guard_group(g, desc, pol)
            if h == "TRY": continue
            if h is None or h not in names_known or not all(implied(h, x) for x in G):
                ok = False; why.append(str(desc[:2]))
        if ok:
            out |= set(G)
            rep.ok(R + ".1", "groups %s are integer-parsed with the error propagated on every path where they match (guards implied by the regex structure)" % G, nontrivial_key="checked" + ",".join(G))
    return out

def guard_group(fn, desc, pol):
    """a dominating condition that is `captures.name(h)` is Some -> h; a `?` continue edge -> 'TRY'; else None"""
    if desc[0] == "discr":
        ty = desc[2]
        if ty.startswith("std::ops::ControlFlow<"): return "TRY"
        if ty.startswith("std::option::Option<") and isinstance(pol, tuple) and pol == ("in", frozenset({"Some"})):
            for o in mir.trace_place(fn, desc[1], transparent=()):
                if o.kind == "call":
                    t = fn.blocks[o.data]["t"]
                    if mir.call_matches(t, (NAME,)):
                        v = mir.const_arg(fn, t[2][1])
                        return v if isinstance(v, str) else None
        return None
    if desc[0] == "call" and desc[1] and "Option::<T>::is_some" in desc[1] and pol is True:
        t = desc[2]
        for o in mir.trace_op(fn, t[2][0], transparent=()):
            if o.kind == "call":
                t2 = fn.blocks[o.data]["t"]
                if mir.call_matches(t2, (NAME,)):
                    v = mir.const_arg(fn, t2[2][1])
                    return v if isinstance(v, str) else None
    return None

def depth_ok(c):
    return len(c.blocks) <= 40

def _variant_ctors(F, g):
    """{enum: {variants constructed}} in g and its closures (aggregates and constructor fn items)"""
    out = {}
    for h in [g] + F.children(g.path):
        for bi, si, s in h.stmts():
            if s[0] == "=" and s[2][0] == "agg" and s[2][1].get("k") == "adt":
                out.setdefault(s[2][1]["adt"], set()).add(s[2][1].get("variant"))
        for bi, t in h.calls():
            for a in t[2]:
                if a[0] == "c" and a[1].get("k") == "fn" and "::" in a[1]["path"]:
                    en, v = a[1]["path"].rsplit("::", 1)
                    if en in F.adts: out.setdefault(en, set()).add(v)
            # constructor functions of the enum: a local fn whose own body builds exactly one variant (new_uint, try_new_str)
            c = F.fn(mir.callee(t) or "")
            if c is not None and c.kind != "closure" and depth_ok(c):
                vs = {(s[2][1]["adt"], s[2][1].get("variant")) for b2, s2, s in c.stmts() if s[0] == "=" and s[2][0] == "agg" and s[2][1].get("k") == "adt" and s[2][1].get("is_enum") and s[2][1]["adt"].startswith("crate::")}
                if len(vs) == 1:
                    en, v = next(iter(vs)); out.setdefault(en, set()).add(v)
    return out

def _classifier_context(F, g, depth=0):
    """True when the Option produced in g is consumed by a number-or-text classification: g itself (or its enclosing function)
    constructs both the UInt and a text variant of one enum, or g is a helper returning the Option and every caller does."""
    def both(h):
        return any("UInt" in vs and (vs & {"Str", "String", "Text"}) for vs in _variant_ctors(F, h).values())
    top = g
    while top.kind == "closure" and top.parent and F.fn(top.parent) is not None: top = F.fn(top.parent)
    if both(top): return True
    orig = F.fn(top.path) or top
    if depth >= 2 or not (orig.d.get("ret") or "").startswith("std::option::Option<"): return False
    cg = mir.CallGraph(F)
    callers = {f.path for f, b in cg.sites.get(orig.path, ())} | {p for p, a in cg.addr.items() if orig.path in a}
    callers = [F.fn(p) for p in callers if F.fn(p) is not None]
    return bool(callers) and all(_classifier_context(F, c, depth + 1) for c in callers)

def constant_fallbacks(F, rep, rule, fns):
    n = 0
    for g in fns:
        for bi, t in g.calls():
            full = t[1].get("full") or ""
            if "std::num::ParseIntError" not in full and "std::num::ParseFloatError" not in full: continue
            if not full.startswith("std::result::Result::<"): continue
            meth = (t[1].get("decl") or full).rsplit("::", 1)[-1].split("<")[0]
            site = "%s bb%d line %s" % (g.where(), bi, g.blocks[bi]["line"])
            owner = g.path.replace("crate::", "")
            ordn = sum(1 for b2, t2 in g.calls() if b2 < bi and (t2[1].get("full") or "") == full)
            key = "%s:%s#%d" % (owner, meth, ordn)
            if meth in ("map_err", "is_ok", "is_err", "map", "and_then", "as_ref"):
                continue
            n += 1
            if meth == "unwrap_or":
                v = mir.const_arg(g, t[2][1])
                os = mir.trace_op(g, t[2][1])
                if all(o.kind == "const" for o in os):
                    rep.bad(rule, "const-fallback:" + key, "numeric parse failure (overflow is reachable: digit runs are unbounded) is replaced by the constant %r - infinitely many inputs collapse to one value" % (v,), site)
                else:
                    rep.ok(rule, "unwrap_or with a computed value", sample=site)
            elif meth == "unwrap_or_default":
                rep.bad(rule, "const-fallback:" + key, "numeric parse failure replaced by Default::default()", site)
            elif meth == "ok":
                # accepted only when immediately turned back into an error
                dest = t[3][0]
                uses = [(b2, t2) for b2, t2 in g.calls() if any(a[0] in ("cp", "mv") and a[1][0] == dest for a in t2[2])]
                if uses and all(mir.call_matches(t2, ("Option::<T>::ok_or",)) for _, t2 in uses):
                    rep.ok(rule, ".ok() re-wrapped by ok_or", sample=site)
                elif _classifier_context(F, g):
                    rep.ok(rule, ".ok() inside a number-or-text classification: a failed parse keeps the identifier as text", sample=site, nontrivial_key="classifier:" + key)
                else:
                    rep.bad(rule, "discarded-error:" + key, "ParseIntError discarded with .ok(): an out-of-range number silently becomes 'absent'", site)
            elif meth == "unwrap_or_else":
                # accepted when the fallback closure computes its result from the input text
                verdict = None
                for o in mir.trace_op(g, t[2][1]):
                    if o.kind == "agg":
                        rv = mir.rv_at(g, *o.data)
                        if rv[1].get("k") == "closure":
                            c = F.fn(rv[1]["path"])
                            if c is not None:
                                verdict = closure_uses_input(c)
                if verdict is True:
                    rep.ok(rule, "unwrap_or_else whose closure derives its value from the input text", sample=site, nontrivial_key=key)
                elif verdict is False:
                    rep.bad(rule, "const-fallback:" + key, "numeric parse failure is replaced by a value that does not depend on the input (closure returns constants only)", site)
                else:
                    rep.undecided(rule, "unrecognised-shape:" + key, "unwrap_or_else on a numeric parse result with a fallback that is not a local closure", site)
            elif meth in ("unwrap", "expect"):
                rep.ok(rule, "numeric parse result unwrapped (panic discipline is C13's)", sample=site)
            else:
                rep.undecided(rule, "unrecognised-shape:" + key, "numeric parse result consumed by %s: not a recognised propagation idiom" % meth, site)
        # match / if-let on a Result<_, ParseIntError>
        for bi, si, s in g.stmts():
            if s[0] == "=" and s[2][0] == "discr" and s[2][2].startswith("std::result::Result<") and "ParseIntError" in s[2][2]:
                n += 1
                verdict, why = audit_err_arm(F, g, bi, s)
                key = "%s:match" % g.path.replace("crate::", "")
                site = "%s bb%d line %s" % (g.where(), bi, g.blocks[bi]["line"])
                if verdict is True: rep.ok(rule, "match on a numeric parse: the Err arm %s" % why, sample=site, nontrivial_key=key + str(bi))
                elif verdict is False: rep.bad(rule, "const-fallback:" + key, "numeric parse failure (overflow is reachable: digit runs are unbounded) is replaced by a value that does not depend on the input: %s" % why, site)
                else: rep.undecided(rule, key, "match on a numeric parse Result whose Err arm is not understood: %s" % why, site)
    return n

def audit_err_arm(F, g, bi, s):
    """(True, why) when the Err arm of a `match text.parse()` re-uses the parsed text or propagates an error;
    (False, why) when it only produces constants; (None, why) otherwise."""
    t = g.blocks[bi]["t"]
    if t[0] != "switch": return None, "discriminant not switched in the same block"
    err_idx = next((v for v, nme in s[2][3] if nme == "Err"), 1)
    tgt = {v: b for v, b in t[2]}
    e_blk = tgt.get(err_idx, t[3] if all(v != err_idx for v, b in t[2]) else None)
    ok_blks = [b for v, b in t[2] if v != err_idx] + ([t[3]] if err_idx in tgt else [])
    if e_blk is None: return None, "no Err edge"
    dom = mir.dominators(g)
    arm = [b for b in mir.reachable(g, e_blk) if e_blk in dom.get(b, ()) and not g.blocks[b]["cleanup"]]
    # the text that was parsed
    src_keys = set()
    for o in mir.trace_place(g, s[2][1], transparent=()):
        if o.kind == "call":
            tp = o.fn.blocks[o.data]["t"]
            if mir.call_matches(tp, (PARSE,)) and tp[2]:
                src_keys |= {o2.key() for o2 in mir.trace_op(g, tp[2][0])}
    uses_input = False; propagates = False; consts = 0
    for b in arm:
        blk = g.blocks[b]
        ops = []
        for st in blk["s"]:
            if st[0] != "=": continue
            rv = st[2]
            if rv[0] == "agg":
                if isinstance(rv[1], dict) and rv[1].get("variant") == "Err" and "Result" in str(rv[1].get("adt")): propagates = True
                ops += list(rv[2])
            elif rv[0] in ("use", "cast", "un"): ops.append(rv[1] if rv[0] == "use" else rv[2])
            elif rv[0] == "ref": ops.append(["cp", rv[2]])
        tt = blk["t"]
        if tt[0] == "call":
            c = mir.callee(tt) or ""
            if "FromResidual" in c or c.endswith("from_residual"): propagates = True
            ops += list(tt[2])
        for o in ops:
            if not isinstance(o, list) or not o: continue
            if o[0] == "c":
                if o[1].get("k") in ("int", "str", "bool", "char"): consts += 1
                continue
            if o[0] in ("cp", "mv") and src_keys and any(x.key() in src_keys for x in mir.trace_op(g, o)): uses_input = True
    if uses_input: return True, "re-uses the text that failed to parse"
    if propagates: return True, "returns / propagates an error"
    if consts and not uses_input: return False, "only constants are produced on the Err arm (blocks %s)" % sorted(arm)[:4]
    return None, "Err arm has no recognisable effect"

def language_verdict(rep, rule, res, subject, oracles, pair, info, gname):
    pats = res["patterns"]
    for name, p in pats.items():
        if not p.get("ok"):
            if name.startswith("subject"):
                rep.bad(rule, "regex-does-not-compile", "the parser's regex does not compile: %s" % p.get("error")); return
            raise core.CheckBroken("oracle %s does not compile: %s" % (name, p.get("error")))
    cmpd = {(c["a"], c["b"]): c for c in res["compare"]}
    oc = cmpd[pair]
    if not oc["equal"]:
        raise core.CheckBroken("the two independent oracles for %s disagree: %s / %s" % (gname, oc["a_not_b"], oc["b_not_a"]))
    rep.ok(rule, "oracles %s == %s (product %d pairs)" % (pair[0], pair[1], oc["product_pairs"]), nontrivial_key="oracles")
    rep.extra.setdefault("automata", {})[rule] = {
        "dfa_states": {n: p.get("dfa_states") for n, p in pats.items()},
        "product_pairs": {"%s~%s" % (c["a"], c["b"]): c["product_pairs"] for c in res["compare"]},
        "checked_groups": sorted(info["checked_groups"]),
    }
    rep.extra["states"] = sum(p.get("dfa_states") or 0 for p in pats.values())
    rep.extra["transitions"] = sum((p.get("dfa_states") or 0) * 257 for p in pats.values())
    c = cmpd[(subject, oracles[0])]
    if c["a_not_b"] is not None:
        w = c["a_not_b"]["text"]
        rep.bad(rule, "accepts-non-grammar:" + w, "the parser accepts %r, which is not %s (shortest witness over all strings; effective language with groups %s restricted to ASCII digits)" % (w, gname, sorted(info["checked_groups"])), info.get("static"), detail=c)
    else:
        rep.ok(rule, "L(parser) subset of L(%s): product of %d state pairs, no witness" % (gname, c["product_pairs"]), nontrivial_key="sub")
    if c["b_not_a"] is not None:
        w = c["b_not_a"]["text"]
        rep.bad(rule, "rejects-grammar:" + w, "the parser rejects %r, which is valid %s (shortest witness)" % (w, gname), info.get("static"), detail=c)
    else:
        rep.ok(rule, "L(%s) subset of L(parser)" % gname, nontrivial_key="sup")
    for o in oracles[1:]:
        c2 = cmpd.get((subject, o))
        if c2 and (c2["equal"] != c["equal"]):
            raise core.CheckBroken("verdicts against equivalent oracles differ")
    rep.samples.append({"rule": rule, "instance": "regex-level (before the Rust code's own rejections) shortest witnesses", "detail": {k: cmpd.get(("subject_regex", oracles[0]), {}).get(k) for k in ("a_not_b", "b_not_a", "product_pairs")}})

def closure_pred_name(F, fn, op):
    """name of the char/u8 predicate a closure operand applies to its parameter (e.g. 'is_ascii_digit'), else None"""
    if op[0] == "c" and op[1].get("k") == "fn":
        return (op[1].get("resolved") or op[1]["path"]).rsplit("::", 1)[-1]      # `.all(u8::is_ascii_digit)`
    for o in mir.trace_op(fn, op):
        if o.kind == "agg":
            rv = mir.rv_at(o.fn, *o.data)
            if rv[1].get("k") == "closure":
                c = F.fn(rv[1]["path"])
                if c is None: return None
                rets = mir.trace_place(c, [0], transparent=())
                if len(rets) == 1 and rets[0].kind == "call":
                    t = c.blocks[rets[0].data]["t"]
                    os = mir.trace_op(c, t[2][0], transparent=()) if t[2] else []
                    if len(os) == 1 and os[0].kind == "param" and os[0].data == 2:
                        return (mir.callee(t) or "").rsplit("::", 1)[-1]
    return None

def const_of_expr(F, x):
    if x[0] == "const": return x[1]
    if x[0] == "promoted":
        v = mir.promoted_value(F, {"k": "promoted", "of": x[1], "idx": x[2]})
        if v is not None and v[0] == "const": return v[1]
    return None

def path_facts(F, fn, path, depth=0):
    """alternatives (list of lists) of atomic call facts known on `path`: (method, consts, truth, closure_pred).
    A call of a local bool helper is replaced by the facts of each of its paths returning that truth value."""
    sp = mir.SymPath(fn, path)
    if not sp.feasible(): return []
    alts = [[]]
    for d, truth, b in sp.facts():
        if isinstance(truth, bool) and d[0] == "bin":
            alts = [a + [("cmp:" + str(d[1]), (mir.show(d[2])[:80], mir.show(d[3])[:80]), truth, None)] for a in alts]
            continue
        if not isinstance(truth, bool) or d[0] != "call": continue
        t = fn.blocks[d[3]]["t"] if len(d) > 3 and isinstance(d[3], int) else None
        name = str(d[1]).rsplit("::", 1)[-1]
        g = F.fn(str(d[1]))
        if g is not None and g.d.get("ret") == "bool" and depth < 3 and not mir.has_loop(g):
            sub = []
            for p2 in mir.enum_paths(g, limit=2000):
                if g.blocks[p2[-1]]["t"][0] != "ret": continue
                r = mir.SymPath(g, p2).ret()
                neg = False
                while r[0] == "un" and r[1] == "Not": r = r[2]; neg = not neg
                if r[0] == "const":
                    if (bool(r[1]) != neg) == truth: sub += path_facts(F, g, p2, depth + 1)
                elif r[0] == "call":
                    want = truth != neg
                    extra = (str(r[1]).rsplit("::", 1)[-1], tuple(c for c in (const_of_expr(F, x) for x in r[2]) if c is not None), want, None)
                    for a in path_facts(F, g, p2, depth + 1): sub.append(a + [extra])
                else:
                    sub.append([("unknown-helper-return", (), truth, None)])
            alts = [a + s2 for a in alts for s2 in (sub or [[("unknown-helper", (), truth, None)]])]
            continue
        consts = tuple(c for c in (const_of_expr(F, x) for x in d[2]) if c is not None)
        pred = None
        if t is not None and name in ("all", "any") and len(t[2]) > 1: pred = closure_pred_name(F, fn, t[2][1])
        alts = [a + [(name, consts, truth, pred)] for a in alts]
    return alts

MAX_DIGITS = {"u8": 2, "u16": 4, "u32": 9, "u64": 19, "u128": 38, "usize": 19}

def _expr_calls(F, e, out, depth=0):
    """names of all calls in a symbolic expression, including the bodies of closures it mentions"""
    if not isinstance(e, (tuple, list)) or depth > 12: return
    if isinstance(e, tuple) and e and e[0] == "call" and isinstance(e[1], str): out.add(e[1])
    if isinstance(e, tuple) and e and e[0] in ("closure", "fn") and isinstance(e[1], str):
        c = F.fn(e[1])
        for h in ([c] + F.children(e[1]) if c is not None else []):
            for b2, t2 in h.calls(): out.add(mir.callee(t2) or "?")
    for x in e:
        if isinstance(x, (tuple, list)): _expr_calls(F, x, out, depth + 1)

def _lossy_value(F, g, bi, paths, payload):
    """The number stored in UInt is computed with saturating / wrapping arithmetic from a digit string that may be longer than
    the payload type can hold: such text is accepted and silently stored as a different number."""
    cap = MAX_DIGITS.get(payload)
    per_path = []          # (lossy calls, upper bound on the digit count or None) for every feasible path to the construction
    for p in paths:
        sp = mir.SymPath(g, p)
        if not sp.feasible(): continue
        vals = []
        for s in g.blocks[bi]["s"]:
            if s[0] == "=" and s[2][0] == "agg" and s[2][1].get("variant") == "UInt" and s[2][2]: vals.append(sp.op(s[2][2][0]))
        names = set()
        for v in vals: _expr_calls(F, v, names)
        hit = sorted(n.rsplit("::", 1)[-1] for n in names if any(x in n for x in ("::saturating_", "::wrapping_", "::overflowing_", "::unchecked_")))
        bound = None
        for d, truth, b in sp.facts():
            if isinstance(truth, bool) and d[0] == "bin" and d[3][0] == "const" and isinstance(d[3][1], int) and "len(" in mir.show(d[2]):
                k = d[3][1]
                if d[1] == "Gt" and not truth: bound = k if bound is None else min(bound, k)
                elif d[1] == "Ge" and not truth: bound = k - 1 if bound is None else min(bound, k - 1)
                elif d[1] == "Le" and truth: bound = k if bound is None else min(bound, k)
                elif d[1] == "Lt" and truth: bound = k - 1 if bound is None else min(bound, k - 1)
                elif d[1] == "Eq" and truth: bound = k if bound is None else min(bound, k)
        per_path.append((hit, bound))
    if not per_path or cap is None: return None
    # a length bound on the path that keeps the value in range makes saturating arithmetic exact
    for hit, bound in per_path:
        if hit and (bound is None or bound > cap):
            return "the stored number is computed with %s and the digit string may have %s digits (a %s holds every %s-digit number, not every longer one): out-of-range text is accepted and stored as a different number" % (
                hit, ("up to %d" % bound) if bound is not None else "any number of", payload, cap)
    # the other direction: a digit-count limit (on every path) below the longest representable number turns numbers the type can
    # hold into text (they then order and convert as text)
    if all(bound is not None for hit, bound in per_path):
        widest = max(bound for hit, bound in per_path)
        if widest < cap + 1:
            return "only digit strings of up to %d digits are classified as numbers, but a %s holds numbers of %d digits: those are treated as text (ordering, labels and conversion change for them)" % (widest, payload, cap + 1)
    return None

INT_BITS = {"u8": 8, "u16": 16, "u32": 32, "u64": 64, "usize": 64, "u128": 128, "i8": 8, "i16": 16, "i32": 32, "i64": 64, "isize": 64, "i128": 128}

def narrowing_casts(F, rep, rule, prefixes, what, sign=False, floor=5):
    """No integer `as` cast to a narrower type in the given modules: such a cast keeps the low bits of an out-of-range value
    (a number silently becomes another number) where a checked conversion would reject it.  A cast whose source is compared
    with something on every path to it may be range-checked: that is left undecided, not reported."""
    n = 0; seen_fns = 0
    for p, g in F.fns.items():
        if not any(p.startswith(x) for x in prefixes) or "::tests" in p or "test_utils" in p or "::_::" in p: continue
        seen_fns += 1
        for bi, si, s in g.stmts():
            if s[0] != "=" or s[2][0] != "cast" or s[2][1] != "IntToInt" or len(s[2]) < 5: continue
            src, dst = s[2][3], s[2][4]
            if src not in INT_BITS or dst not in INT_BITS: continue
            # with sign=True an unsigned -> signed cast of the same width counts too (u64 -> i64 turns values >= 2^63 negative)
            wraps = sign and src.startswith("u") and dst.startswith("i") and INT_BITS[dst] == INT_BITS[src] and not (src == "usize" or dst == "isize")
            if INT_BITS[dst] >= INT_BITS[src] and not wraps: continue
            if g.blocks[bi].get("exp"): continue          # inside a macro expansion (derive, format_args)
            n += 1
            site = "%s bb%d line %s" % (g.where(), bi, g.blocks[bi]["line"])
            key = "%s:%s->%s" % (p.replace("crate::", ""), src, dst)
            srcs = {o.key() for o in mir.trace_op(g, s[2][2])}
            checked = False
            for d, pol, dd in mir.guards_of(g, bi):
                if d[0] in ("bin", "cmp") or (d[0] == "call" and any(x in str(d[1]) for x in ("::le", "::lt", "::ge", "::gt", "try_from", "contains"))):
                    checked = True
            if checked: rep.undecided(rule, "guarded-narrowing-cast:" + key, "a %s value is cast to %s under a comparison the rule does not evaluate" % (src, dst), site)
            else: rep.bad(rule, "narrowing-cast:" + key, "%s: a %s value is cast to %s with `as` and no range check on the way: a value beyond %s keeps only its low bits (a number is silently replaced by another number)" % (what, src, dst, dst), site)
    if n == 0:
        rep.ok(rule, "no narrowing integer `as` cast in %d functions of %s" % (seen_fns, [x.replace("crate::", "") for x in prefixes]), nontrivial_key="nocast" + ",".join(prefixes))
    rep.floor(rule, "functions searched for narrowing casts", seen_fns, floor)

def numeric_classification(F, rep, rule, module, enums, floor):
    """Every construction of <enum>::UInt from parsed text happens only when the text is all ASCII digits and canonical
    (equal to "0" or not starting with '0'), so that printing the number gives the text back."""
    n = 0
    sites = []
    # the parser's functions and every crate-local function they reach (a constructor such as `From<&str>` may live
    # beside the type rather than in the parser module)
    cg = mir.CallGraph(F)
    roots = [p for p in F.fns if p.startswith(module)]
    scope_fns = {p for p in cg.closure(roots, generic=False) if p in F.fns}
    scope_fns |= {p for p in F.fns if any(p.startswith(q + "::{closure") for q in scope_fns)}
    for p, g in F.fns.items():
        if p not in scope_fns: continue
        for bi, si, s in g.stmts():
            if s[0] != "=" or s[2][0] != "agg": continue
            kd = s[2][1]
            if kd.get("k") != "adt" or kd.get("variant") not in ("UInt",) or kd["adt"].rsplit("::", 1)[-1] not in enums: continue
            # a plain constructor outside the parser (payload handed in by the caller) classifies nothing itself
            if not p.startswith(module) and s[2][2] and all(o.kind == "param" for o in mir.trace_op(g, s[2][2][0])): continue
            sites.append((g, bi, kd["adt"].rsplit("::", 1)[-1]))
        for bi, t in g.calls():
            for a in t[2]:
                if a[0] == "c" and a[1].get("k") == "fn" and a[1]["path"].rsplit("::", 1)[-1] in ("UInt", "new_uint") and any(e in a[1]["path"] for e in enums):
                    sites.append((g, bi, [e for e in enums if e in a[1]["path"]][0]))
    for g0, bi0, ename in sites:
        n += 1
        site = "%s bb%d line %s" % (g0.where(), bi0, g0.blocks[bi0]["line"])
        key = "%s:%s#%d" % (g0.path.replace("crate::", ""), ename, n)
        # a construction inside a nested closure (e.g. `.map(|n| UInt(n.into()))`) is governed by the conditions
        # under which that closure is created in its parent
        g, bi = g0, bi0
        def live_paths(fn_, b_):
            """feasible paths to the site; for `opt.map(UInt)` only those on which the receiver is not a known None / Err"""
            out = []
            for p in mir.enum_paths(fn_, limit=5000, stop_blocks=[b_]):
                if p[-1] != b_: continue
                t_ = fn_.blocks[b_]["t"]
                if t_[0] == "call" and (mir.callee(t_) or "").rsplit("::", 1)[-1] == "map" and t_[2]:
                    recv = mir.SymPath(fn_, p).op(t_[2][0])
                    if recv[0] == "agg" and str(recv[1]).rsplit("::", 1)[-1] in ("None", "Err"): continue
                out.append(p)
            return out
        has_all = lambda fn_, b_: any(any(m == "all" for m, c, tr, pr in f_) for p in live_paths(fn_, b_) for f_ in path_facts(F, fn_, p))
        try:
            for _ in range(3):
                if has_all(g, bi): break
                # ... or by a local helper the function calls (`match numeric_identifier(part) { Some(v) => UInt(v), .. }`)
                inl = mir.inlined(F, g, depth=3)
                same = bi < len(inl.blocks) and inl.blocks[bi]["t"][0] == g.blocks[bi]["t"][0] and inl.blocks[bi].get("from") is None
                if same and has_all(inl, bi): g = inl; break
                par = F.fn(g.parent) if g.kind == "closure" and g.parent else None
                if par is None: break
                made = [b2 for b2, s2, st in par.stmts() if st[0] == "=" and st[2][0] == "agg" and st[2][1].get("k") == "closure" and st[2][1]["path"] == g.path]
                if not made: break
                g, bi = par, made[0]
        except mir.TooManyPaths:
            pass
        # the integer type parsed must be the variant's payload type (a narrower parse turns large numbers into text)
        adt = [a for pth, a in F.adts.items() if pth.rsplit("::", 1)[-1] == ename]
        payload = None
        if adt:
            for v in adt[0]["variants"]:
                if v["name"] == "UInt" and v["fields"]: payload = v["fields"][0]["ty"]
        scope = [g0] + ([F.fn(g0.parent)] if g0.kind == "closure" and g0.parent and F.fn(g0.parent) is not None else []) + F.children(g0.path)
        ptys = {(t2[1].get("targs") or ["?"])[0] for h in scope for b2, t2 in h.calls() if mir.call_matches(t2, (PARSE,))}
        ptys = {x for x in ptys if x in INT_TYPES}
        if payload in INT_TYPES and ptys and ptys != {payload}:
            rep.bad(rule, "narrowing-parse:" + key.rsplit("#", 1)[0], "numeric text is parsed as %s but stored in a %s field: values beyond the narrower type change classification (number vs text) or are lost" % (sorted(ptys), payload), site)
        elif payload in INT_TYPES and ptys:
            rep.ok(rule, "numeric text parsed as %s = payload type of %s::UInt" % (payload, ename), nontrivial_key=key + "ty")
        try:
            paths = live_paths(g, bi)
        except mir.TooManyPaths:
            rep.undecided(rule, "unrecognised-shape:" + key, "too many paths", site); continue
        bad = None; nalt = 0; unsure = None
        for p in paths:
            for facts_ in path_facts(F, g, p):
                nalt += 1
                digits = any(m in ("all",) and tr and pr == "is_ascii_digit" for m, c, tr, pr in facts_)
                other_pred = [pr for m, c, tr, pr in facts_ if m in ("all", "any") and pr != "is_ascii_digit"]
                canonical = any((m == "eq" and "0" in c and tr) or (m == "starts_with" and "0" in c and not tr) for m, c, tr, pr in facts_)
                # the same test spelled on bytes: a single byte, or first byte != b'0'
                canonical = canonical or any((m in ("cmp:Gt",) and "len(" in c[0] and c[1] == "1" and not tr) or (m == "cmp:Eq" and c[0].startswith("index(") and c[1] == "48" and not tr)
                                             or (m == "cmp:Ne" and c[0].startswith("index(") and c[1] == "48" and tr) for m, c, tr, pr in facts_)
                cmps = [m for m, c, tr, pr in facts_ if m.startswith("cmp:") or m.startswith("unknown-helper")]
                if ename == "LocalSegment": canonical = True      # PEP 440 local numbers are normalised, not reproduced
                if not digits and (other_pred or not cmps): bad = "not guarded by all(is_ascii_digit): %s" % [(m, tr, pr) for m, c, tr, pr in facts_]
                elif not digits: unsure = "the digit test is not in a shape the rule reads: %s" % [(m, c, tr) for m, c, tr, pr in facts_]
                elif not canonical and not cmps: bad = "digit strings with leading zeros are classified as numbers (printing would drop the zeros): %s" % [(m, c, tr) for m, c, tr, pr in facts_]
                elif not canonical: unsure = "the leading-zero test is not in a shape the rule reads: %s" % [(m, c, tr) for m, c, tr, pr in facts_]
        lossy = _lossy_value(F, g, bi, paths, payload)
        if lossy: rep.bad(rule, ("lossy-arithmetic:" if "computed with" in lossy else "length-bound:") + key.rsplit("#", 1)[0], lossy, site)
        if bad is None and unsure is not None:
            rep.undecided(rule, "unrecognised-shape:" + key.rsplit("#", 1)[0], unsure, site)
        elif bad is None and nalt:
            rep.ok(rule, "numeric classification only for canonical ASCII digit strings (%d path alternatives)" % nalt, sample=site, nontrivial_key=key)
        else:
            rep.bad(rule, "numeric-classification:" + key.rsplit("#", 1)[0], "a numeric identifier is built from text that is %s" % (bad or "unreachable?"), site)
    rep.floor(rule, "numeric identifier constructions in the parser", n, floor)

def closure_uses_input(c):
    """True iff the closure's return value has an origin that is a captured variable / call on one
    (i.e. depends on the surrounding input), False iff every leaf origin is a constant."""
    leaves = []
    def walk(fn, op_or_place, is_place, depth):
        os = mir.trace_place(fn, op_or_place) if is_place else mir.trace_op(fn, op_or_place)
        for o in os:
            if o.kind in ("upvar",) or (o.kind == "param" and o.data >= 2 and False):
                leaves.append("input")
            elif o.kind == "const": leaves.append("const")
            elif o.kind == "call" and depth < 6:
                t = fn.blocks[o.data]["t"]
                if not t[2]: leaves.append("const")
                for a in t[2]: walk(fn, a, False, depth + 1)
            elif o.kind == "agg" and depth < 6:
                rv = mir.rv_at(fn, *o.data)
                if not rv[2]: leaves.append("const")
                for a in rv[2]: walk(fn, a, False, depth + 1)
            elif o.kind == "param": leaves.append("errparam")
            else: leaves.append("unknown")
    walk(c, [0], True, 0)
    if "input" in leaves: return True
    if leaves and all(l in ("const", "errparam") for l in leaves): return False
    return None

def closure_is_ascii_digit(c):
    """closure body is exactly `is_ascii_digit(param)` (possibly negated twice..): returns bool of a predicate call on its parameter"""
    rets = mir.trace_place(c, [0], transparent=())
    if len(rets) != 1 or rets[0].kind != "call": return False
    t = c.blocks[rets[0].data]["t"]
    if not mir.call_matches(t, ("char::methods::<impl char>::is_ascii_digit",)): return False
    os = mir.trace_op(c, t[2][0], transparent=())
    return len(os) == 1 and os[0].kind == "param" and os[0].data == 2

def semver_separators(F, rep, groups):
    rule = "R08.6"
    disp = F.find("<impl std::fmt::Display for crate::version::semver::core::SemVer>::fmt")
    if not rep.anchor(rule, "<SemVer as Display>::fmt", disp): return
    d = disp[0]
    rep.fn_seen(d)
    calls = [(bi, t) for bi, t in d.calls() if mir.callee(t) and mir.callee(t).startswith("crate::")]
    seps = None
    for bi, t in calls:
        consts = [mir.const_arg(d, a) for a in t[2]]
        strs = [c for c in consts if isinstance(c, str)]
        if len(strs) >= 2:
            seps = strs[-2:]
            callee_fn = F.fn(mir.callee(t))
    if seps is None:
        rep.undecided(rule, "unrecognised-shape:display", "Display for SemVer does not pass constant separators to a local formatter", d.where()); return
    want = {"prerelease": seps[0], "buildmetadata": seps[1]}
    for g, sep in want.items():
        lit = groups.get(g, {}).get("preceding_literal")
        if lit == sep:
            rep.ok(rule, "Display separator %r == literal before regex group %s" % (sep, g), nontrivial_key=g)
        else:
            rep.bad(rule, "separator-mismatch:" + g, "Display prints %r before the %s part but the parser's regex expects %r" % (sep, g, lit), d.where())
    for g in ("minor", "patch"):
        lit = groups.get(g, {}).get("preceding_literal")
        if lit != ".": rep.bad(rule, "separator-mismatch:" + g, "regex literal before %s is %r, expected '.'" % (g, lit))
        else: rep.ok(rule, "regex literal before %s is '.'" % g)
    # the formatter's own pieces: "{}.{}.{}" and join(".")
    cg = mir.CallGraph(F)
    reach = [F.fns[p] for p in cg.closure([d.path], generic=False) if p in F.fns and p.startswith("crate::version::semver::display")]
    rep.fn_seen(*reach)
    tmpl = []; joins = []
    for g in reach:
        for bi, pieces in mir.fmt_templates(g):
            tmpl.append((g.path, pieces))
        for bi, t in g.calls():
            if (mir.callee(t) or "").endswith("]>::join"):
                joins.append((g.path, [mir.const_arg(g, a) for a in t[2][1:]]))
    def pushed_literals(g):
        """string / char constants appended with push / push_str in g (the other way of writing a separator)"""
        out = []
        for bi, t in g.calls():
            c = mir.callee(t) or ""
            if (c.endswith("String::push") or c.endswith("String::push_str")) and len(t[2]) > 1:
                v = mir.const_arg(g, t[2][1])
                if isinstance(v, str): out.append(v)
        return out
    rel = [p for _, p in tmpl if sum(1 for x in p if isinstance(x, tuple)) == 3]
    if rel and all([x for x in p if isinstance(x, str)] == [".", "."] for p in rel):
        rep.ok(rule, "release template is {}.{}.{}", sample=str(rel[0]), nontrivial_key="rel")
    elif rel:
        rep.bad(rule, "release-template", "the major.minor.patch template is not three arguments joined by '.': %r" % (rel,), d.where())
    else:
        frv = [g for g in reach if g.path.endswith("format_release_version")]
        lits = pushed_literals(frv[0]) if frv else None
        if lits == [".", "."]: rep.ok(rule, "release built by pushing '.' between the three numbers", nontrivial_key="rel")
        elif lits: rep.bad(rule, "release-template", "major.minor.patch is assembled with the literals %r, expected '.' twice" % (lits,), d.where())
        else: rep.undecided(rule, "release-template-shape", "how major.minor.patch is assembled is not recognised", d.where())
    joins = [j for j in joins if j[1]]
    if joins and all(j[1] == ["."] for j in joins):
        rep.ok(rule, "identifier lists joined by '.' (%d sites)" % len(joins), nontrivial_key="join")
    elif joins:
        rep.bad(rule, "join-separator", "pre-release / build identifiers are not joined by '.': %r" % joins, d.where())
    else:
        lists = [g for g in reach if g.path.endswith("format_pre_release_identifiers") or g.path.endswith("format_build_metadata")]
        lits = [x for g in lists for x in pushed_literals(g)]
        if lits and set(lits) == {"."}: rep.ok(rule, "identifier lists built by pushing '.' between items", nontrivial_key="join")
        elif lits: rep.bad(rule, "join-separator", "pre-release / build identifiers are separated by %r, expected '.'" % sorted(set(lits)), d.where())
        else: rep.undecided(rule, "join-separator-shape", "how the identifier lists are joined is not recognised", d.where())

def check_parity(F, rep, rule, tyname, anchor):
    """run_check_command decides validity of format X only by <X as FromStr>::from_str on the unmodified args.version"""
    fs = F.find("cli::check::run_check_command")
    fs = [f for f in fs if f.kind == "fn"]
    if not rep.anchor(rule, "cli::check::run_check_command", fs): return
    f = fs[0]
    rep.fn_seen(f)
    sites = [(bi, t) for bi, t in f.calls() if mir.callee(t) and mir.callee(t).endswith(anchor)]
    rep.floor(rule, "calls of %s::from_str in run_check_command" % tyname, len(sites), 2)
    for bi, t in sites:
        os = mir.trace_op(f, t[2][0])
        good = len(os) == 1 and os[0].kind == "param" and os[0].data == 1 and os[0].fields() == ["version"]
        site = "%s bb%d line %s" % (f.where(), bi, f.blocks[bi]["line"])
        if good:
            rep.ok(rule, "check parses args.version unmodified with %s::from_str" % tyname, sample=repr(os), nontrivial_key="chk%d" % bi)
        else:
            rep.bad(rule, "check-input-modified:%s" % tyname, "check does not hand the unmodified version argument to the parser: %r" % os, site)
    # every Err exit of run_check_command is decided by a parser result (or is the unknown-format arm)
    from_str_blocks = {bi for bi, t in f.calls() if (mir.callee(t) or "").endswith(">::from_str")}
    def from_parser(op, depth=0):
        if depth > 6: return False
        for o in mir.trace_op(f, op, transparent=()):
            if o.kind == "call":
                if o.data in from_str_blocks: return True
                t2 = f.blocks[o.data]["t"]
                if t2[2] and from_parser(t2[2][0], depth + 1): return True
        return False
    exits = []
    for bi, si, st in f.stmts():
        if st[0] == "=" and st[1] == [0] and st[2][0] == "agg" and st[2][1].get("variant") == "Err": exits.append(bi)
    for bi, t in f.calls():
        if "from_residual" in (mir.callee(t) or "") and t[3] == [0]: exits.append(bi)
    for bi in exits:
        gs = mir.guards_of(f, bi)
        dep = False; only_format = bool(gs); under_ok = False
        for desc, pol, d in gs:
            if desc[0] == "discr":
                if from_parser(["cp", desc[1]]):
                    # on the Ok arm of the parser's own Result the parser has ACCEPTED: an Err exit there is check's own verdict
                    if isinstance(pol, tuple) and ((str(desc[2]).startswith("std::result::Result<") and ((pol[0] == "in" and set(pol[1]) == {"Ok"}) or (pol[0] == "not" and set(pol[1]) == {"Err"})))
                                                   or (str(desc[2]).startswith("std::ops::ControlFlow<") and ((pol[0] == "in" and set(pol[1]) == {"Continue"}) or (pol[0] == "not" and set(pol[1]) == {"Break"})))):
                        under_ok = True
                    else: dep = True
                elif not any("format" in o.path_str() for o in mir.trace_place(f, desc[1])): only_format = False
            elif desc[0] == "call":
                cc = desc[1] or ""
                if (cc.endswith("::is_err") or cc.endswith("::is_ok")) and from_parser(desc[2][2][0]): dep = True
                elif cc.endswith("::is_empty") and desc[2][2]:
                    # `verdicts.is_empty()` where every push into `verdicts` happens on the Ok arm of a parser result: "no parser accepted"
                    import panics as _pn
                    rk = _pn.okey(f, desc[2][2][0])
                    pushes = [(b2, t2) for b2, t2 in f.calls() if (mir.callee(t2) or "").endswith("Vec::<T, A>::push") and _pn.okey(f, t2[2][0]) == rk]
                    def ok_arm(b2):
                        return any(d2[0] == "discr" and from_parser(["cp", d2[1]]) and isinstance(p2, tuple) and (("Ok" in p2[1]) if p2[0] == "in" else ("Err" in p2[1])) for d2, p2, dd2 in mir.guards_of(f, b2))
                    if pushes and all(ok_arm(b2) for b2, t2 in pushes): dep = True
                    else: only_format = False
                elif "PartialEq" in cc or cc.endswith("::eq"):
                    if not any("format" in o.path_str() for a in desc[2][2] for o in mir.trace_op(f, a)): only_format = False
                else: only_format = False
            else: only_format = False
        site = "%s bb%d line %s" % (f.where(), bi, f.blocks[bi]["line"])
        if under_ok and not dep:
            rep.bad(rule, "check-rejects-accepted:%s" % tyname, "run_check_command returns an error on a path where the format parser has accepted the version (guards: %s): `zerv check --format` and the parser disagree (e.g. on v1.2.3, whose printed form differs from the input)" % [str(g[0][:2])[:60] for g in gs], site)
        elif dep: rep.ok(rule, "Err exit decided by a parser result", sample=site, nontrivial_key="err%d" % bi)
        elif only_format: rep.ok(rule, "Err exit of the format dispatch (unknown format)", sample=site, nontrivial_key="fmt%d" % bi)
        else: rep.bad(rule, "check-own-verdict:%s" % tyname, "run_check_command rejects on a condition that does not come from the format parser (guards: %s): check and the parser can disagree" % [str(g[0][:2])[:60] for g in gs], site)
    # the 'normalized' note is decided by exact equality of the input with the printed form
    fv = [x for x in F.find("cli::check::format_validation") if x.kind == "fn"]
    if fv:
        v = fv[0]; rep.fn_seen(v)
        cmpc = [(bi, t) for bi, t in v.calls() if len(t[2]) == 2 and any(o.kind == "param" and o.data == 1 for o in mir.trace_op(v, t[2][0])) and any(o.kind == "call" and "to_string" in (mir.callee(v.blocks[o.data]["t"]) or "") for o in mir.trace_op(v, t[2][1]))]
        for bi, t in cmpc:
            cc = mir.callee(t) or ""
            if "PartialEq" in cc and cc.endswith("::eq"): rep.ok(rule, "normal-form note decided by exact equality with the printed form", nontrivial_key="fv%d" % bi)
            else: rep.bad(rule, "check-normal-form-compare", "check compares the input with the printed normal form using %s instead of exact equality: a non-normal spelling can be reported as normal" % cc, "%s bb%d" % (v.where(), bi))
        if not cmpc: rep.undecided(rule, "unrecognised-shape:format_validation", "format_validation does not compare the input with parsed.to_string()", v.where())
    # no other parser for this format: any other local callee whose name mentions the type's module and 'parse'
    for bi, t in f.calls():
        c = mir.callee(t) or ""
        if c.startswith("crate::version::") and not c.endswith("from_str") and "Display" not in c and "fmt" not in c.rsplit("::", 1)[-1]:
            rep.bad(rule, "check-other-parser:" + c, "run_check_command consults %s besides the format parsers" % c, "%s bb%d" % (f.where(), bi))
