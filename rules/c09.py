"""C09 - the PEP 440 parser accepts exactly PEP 440 and prints the normal form.
R09.1 language equality vs Appendix B (ASCII folding); R09.2 haystack; R09.3 rejection sites;
R09.4 no discarded ParseIntError; R09.5 label table total on the regex alternatives;
R09.6 every Ok passes normalize, normalize's table; R09.7 normal-form separator table; R09.8 check parity."""
import re
import core, mir, rx, spec, parsers

ANCHOR = "<impl std::str::FromStr for crate::version::pep440::core::PEP440>::from_str"
MODULE = "crate::version::pep440::parser::"

def check(F, rep, tier):
    fs = F.find(ANCHOR)
    if not rep.anchor("R09", "<PEP440 as FromStr>::from_str", fs):
        return core.finish(rep, explanation=EXPL)
    f = fs[0]
    rep.fn_seen(f)
    info = parsers.analyse_from_str(F, f, rep, "R09", MODULE)
    groups = {}
    if info.get("pattern") is not None:
        pre = rx.run({"subject_regex": {"pat": info["pattern"], "unicode": True, "ascii_groups": []}}, [])
        sp = pre["patterns"]["subject_regex"]
        if not sp.get("ok"):
            rep.bad("R09.1", "regex-does-not-compile", "PEP440_REGEX does not compile: %s" % sp.get("error"), info.get("static"))
            return core.finish(rep, explanation=EXPL, assumptions=ASSUME, trusted=TRUST)
        info["checked_groups"] = parsers.checked_groups(F, info, sp["groups"], rep, "R09")
        pats = {
            "subject_regex": {"pat": info["pattern"], "unicode": True, "ascii_groups": []},
            "subject_effective": {"pat": info["pattern"], "unicode": True, "ascii_groups": sorted(info["checked_groups"])},
            "oracle_appendix_b": {"pat": spec.PEP440_APPENDIX_B, "unicode": False},
            "oracle_prose": {"pat": spec.pep440_prose(), "unicode": False},
        }
        res = rx.run(pats, [["oracle_appendix_b", "oracle_prose"], ["subject_effective", "oracle_appendix_b"],
                            ["subject_effective", "oracle_prose"], ["subject_regex", "oracle_appendix_b"]])
        parsers.language_verdict(rep, "R09.1", res, "subject_effective", ["oracle_appendix_b", "oracle_prose"],
                                 ("oracle_appendix_b", "oracle_prose"), info, "PEP 440 Appendix B (ASCII case folding)")
        groups = {g["name"]: g for g in sp.get("groups", [])}
        for g in sorted(info["groups_read"]):
            if g not in groups:
                rep.bad("R09.3", "group-missing:" + g, "from_str reads capture group %r which the regex does not define" % g, f.where())
            else:
                rep.ok("R09.3", "group %s read by the code exists in the regex" % g)
        label_table(F, rep, groups, f)
    normalize_rules(F, rep, f)
    normal_form(F, rep)
    parsers.numeric_classification(F, rep, "R09.4b", MODULE, ("LocalSegment",), floor=0)
    parsers.check_parity(F, rep, "R09.8", "PEP440", ANCHOR)
    # a numeric local part beyond u32 is kept as text through LocalSegment::try_new_str, whose normal form (no leading zeros) is the
    # sanitiser's zero-stripping: the normal-form clause depends on it
    if any((mir.callee(t) or "").endswith("LocalSegment::try_new_str") for g in F.fns.values() if g.path.startswith(MODULE) for bi, t in g.calls()):
        core.borrow(F, rep, "c16", "C16", "R09.7", ("zeros-not-stripped", "zero-strip"), "text local segments are normalised by the sanitiser's leading-zero removal")
    return core.finish(rep, explanation=EXPL, assumptions=ASSUME, trusted=TRUST)

# ---------------------------------------------------------------------------
def label_table(F, rep, groups, f):
    rule = "R09.5"
    g = groups.get("pre_l")
    if not rep.anchor(rule, "regex group pre_l", g): return
    alts = g.get("alternatives")
    if not alts:
        rep.undecided(rule, "unrecognised-shape:pre_l", "the pre_l group is not an alternation of words", None); return
    # which function maps the label text
    sites = info_label_sites(F, f)
    if not sites:
        rep.bad(rule, "anchor-missing:label-mapper", "from_str does not map the pre_l capture through a PreReleaseLabel function", f.where()); return
    mapper = sites[0]
    rep.fn_seen(mapper)
    # resolve through wrappers (from_str_or_alpha -> try_from_str(..).unwrap_or(Alpha))
    table_fn = mapper; fallback = None; lowered = False
    calls = [(bi, t) for bi, t in mapper.calls() if (mir.callee(t) or "") in F.fns]
    if len(calls) == 1 and not mir.string_table(mapper)[0]:
        table_fn = F.fn(mir.callee(calls[0][1]))
        fallback = [mir.callee(t) for bi, t in mapper.calls() if "unwrap_or" in (mir.callee(t) or "")]
    rep.fn_seen(table_fn)
    table, default = mir.string_table(table_fn)
    lowered = any(mir.call_matches(t, ("to_lowercase", "to_ascii_lowercase")) for _, t in table_fn.calls())
    rep.floor(rule, "keys of the label table", len(table), 8)
    want = spec.PEP440_PRE_LABEL_MAP
    for a in alts:
        w = a["word"]
        res = table.get(w)
        if res is None:
            rep.bad(rule, "label-not-in-table:" + w, "the regex accepts pre-release spelling %r but %s has no row for it (it would fall to the fallback %s)" % (w, table_fn.path, fallback or sorted(default)), table_fn.where())
        elif not any(want.get(w, "?") in r for r in res) or len(res) != 1:
            rep.bad(rule, "label-mapped-wrong:" + w, "spelling %r maps to %s, PEP 440 says %s" % (w, sorted(res), want.get(w)), table_fn.where())
        else:
            rep.ok(rule, "%r -> %s" % (w, want[w]), sample=sorted(res)[0], nontrivial_key=w)
        if a.get("non_ascii"):
            rep.bad(rule, "label-non-ascii:" + w, "the regex accepts non-ASCII look-alikes in spelling %r: %s" % (w, a.get("sets")), None)
    for w in want:
        if w not in [a["word"] for a in alts]:
            rep.bad(rule, "spelling-missing:" + w, "PEP 440 spelling %r is not an alternative of pre_l" % w, None)
    # upper-case input: the regex is case-insensitive, so the table must be too
    # ... on every path: each text the table compares comes out of the lowering call, never straight from the parameter
    raw = set()
    if lowered:
        for bi, t in table_fn.calls():
            c_ = mir.callee(t) or ""
            if not (c_.endswith("PartialEq>::eq") or c_.endswith("PartialEq<str>>::eq") or c_.endswith("::eq")) or len(t[2]) < 2: continue
            if not any(isinstance(mir.const_arg(table_fn, a_), str) for a_ in t[2]): continue
            for a_ in t[2]:
                if isinstance(mir.const_arg(table_fn, a_), str): continue
                def roots(op, depth=0):
                    out = set()
                    for o in mir.trace_op(table_fn, op, transparent=()):
                        if o.kind == "call" and depth < 8:
                            t2 = o.fn.blocks[o.data]["t"]; nm = (mir.callee(t2) or "").rsplit("::", 1)[-1]
                            if nm in ("to_lowercase", "to_ascii_lowercase"): out.add("lowered")
                            elif t2[2]: out |= roots(t2[2][0], depth + 1)
                            else: out.add("call:" + nm)
                        elif o.kind == "param": out.add("param")
                        else: out.add(o.kind)
                    return out
                raw |= roots(a_)
    if lowered and "param" in raw:
        rep.bad(rule, "label-case-partial", "%s lower-cases the label on some paths only (the compared text can be the parameter as given): the regex matches labels case-insensitively, so a spelling such as rC or bETA misses the table and falls to the fallback %s" % (table_fn.path.rsplit("::", 1)[-1], fallback or sorted(default)), table_fn.where())
    elif lowered: rep.ok(rule, "label text is lower-cased before the table lookup", nontrivial_key="lower")
    else: rep.bad(rule, "label-case", "the regex matches labels case-insensitively but the label table is consulted without lower-casing", table_fn.where())
    for gname in ("post_l", "dev_l"):
        gg = groups.get(gname)
        if gg is None:
            rep.bad(rule, "group-missing:" + gname, "regex group %s missing" % gname, None)

def info_label_sites(F, f):
    out = []
    for bi, t in f.calls():
        c = mir.callee(t) or ""
        if "PreReleaseLabel" in c and c in F.fns:
            # argument must come from the pre_l capture
            sl = parsers.back_slice(F, f, t[2][0])
            names = [mir.const_arg(h, t2[2][1]) for h, b2, t2 in sl if mir.call_matches(t2, (parsers.NAME,))]
            # the capture may be bound by `if let Some(m) = captures.name("pre_l")`: trace the place
            if not names:
                for o in mir.trace_op(f, t[2][0], transparent=("regex::Match::<'h>::as_str",)):
                    if o.kind == "call" and mir.call_matches(f.blocks[o.data]["t"], (parsers.NAME,)):
                        names.append(mir.const_arg(f, f.blocks[o.data]["t"][2][1]))
            if "pre_l" in names: out.append(F.fn(c))
    return out

# ---------------------------------------------------------------------------
def normalize_rules(F, rep, f):
    rule = "R09.6"
    # every Ok(_) returned by from_str is the result of PEP440::normalize
    n = 0
    for bi, si, s in f.stmts():
        if s[0] == "=" and s[1] == [0] and s[2][0] == "agg" and s[2][1].get("variant") == "Ok":
            n += 1
            os = mir.trace_op(f, s[2][2][0], transparent=())
            good = os and all(o.kind == "call" and (mir.callee(f.blocks[o.data]["t"]) or "").endswith("PEP440::normalize") for o in os)
            site = "%s bb%d line %s" % (f.where(), bi, f.blocks[bi]["line"])
            if good: rep.ok(rule, "Ok(..) payload is normalize(..)", sample=repr(os), nontrivial_key="ok%d" % bi)
            else: rep.bad(rule, "ok-without-normalize", "from_str returns Ok without passing the value through normalize(): %r" % os, site)
    rep.floor(rule, "Ok returns of from_str", n, 1)
    norm = F.find("pep440::core::PEP440::normalize")
    norm = [x for x in norm if x.path.endswith("::normalize")]
    if not rep.anchor(rule, "PEP440::normalize", norm): return
    nf = norm[0]
    cg = mir.CallGraph(F)
    reach = [F.fns[p] for p in cg.closure([nf.path], generic=False) if p in F.fns and p.startswith("crate::version::pep440::core::")]
    rep.fn_seen(*reach)
    # implicit numbers: rows (X_label is Some) & (X_number is None) -> X_number = Some(0)
    rows = {}
    lower = False; numerify = False
    for g in reach:
        try:
            paths = mir.enum_paths(g, limit=5000)
        except mir.TooManyPaths:
            rep.undecided(rule, "unrecognised-shape:" + g.path, "too many paths in %s" % g.path, g.where()); continue
        for p in paths:
            sp = mir.SymPath(g, p)
            for place, val, raw in sp.writes:
                fields = [e[2] for e in raw[1:] if not isinstance(e, str) and e[0] == "f"]
                if raw[0] == 1 and len(fields) == 1 and fields[0].endswith("_number"):
                    if not sp.feasible(): continue
                    conds = set()
                    for d, truth, b in sp.facts():
                        # presence facts, whichever way they are tested: x.is_some() / x.is_none() / match on the Option (also inside a tuple)
                        if isinstance(truth, bool) and d[0] == "call" and isinstance(d[1], str) and (d[1].endswith("::is_some") or d[1].endswith("::is_none")):
                            present = truth if d[1].endswith("::is_some") else not truth
                            conds.add((mir.show(d[2][0]).replace("&", ""), present))
                        elif not isinstance(truth, bool) and d[0] == "discr":
                            rel, vals = truth
                            txt = mir.show(d[1])
                            m_ = re.search(r"p1\.[a-z_]+", txt)
                            st_ = g.blocks[b]["s"][-1] if g.blocks[b]["s"] else None
                            if m_ and st_ and st_[0] == "=" and st_[2][0] == "discr" and "Option<" in str(st_[2][2]):
                                present = (rel == "eq" and tuple(vals) == (1,)) or (rel == "ne" and 0 in vals and 1 not in vals)
                                conds.add((m_.group(0), present))
                    rows.setdefault(fields[0], set()).add((mir.show(val), frozenset(conds)))
        for bi, t in g.calls():
            if mir.call_matches(t, ("to_lowercase", "to_ascii_lowercase")): lower = True
            if mir.call_matches(t, (parsers.PARSE,)) and (t[1].get("targs") or [""])[0] == "u32": numerify = True
    for x in ("pre", "post", "dev"):
        key = x + "_number"
        got = rows.get(key)
        want_cond = {("p1.%s_label" % x, True), ("p1.%s_number" % x, False)}
        if not got:
            rep.bad(rule, "implicit-number-missing:" + x, "normalize does not fill the implicit %s number" % x, nf.where())
            continue
        good = all(v == "Option::Some(0)" and want_cond <= set(c) for v, c in got)
        if good: rep.ok(rule, "%s: label present & number absent -> Some(0)" % x, sample=sorted(str(sorted(c)) for v, c in got)[0], nontrivial_key=key)
        else: rep.bad(rule, "implicit-number-wrong:" + x, "normalize writes %s under conditions %s (expected Some(0) when the label is present and the number absent)" % (key, [(v, sorted(c)) for v, c in got]), nf.where())
    for k in rows:
        if k not in ("pre_number", "post_number", "dev_number"):
            rep.bad(rule, "normalize-extra-write:" + k, "normalize writes an unexpected number field " + k, nf.where())
    if lower: rep.ok(rule, "local segments are lower-cased in normalize")
    else: rep.bad(rule, "local-not-lowercased", "normalize does not lower-case local segments", nf.where())
    if numerify: rep.ok(rule, "numeric local segments are re-parsed as u32 in normalize")
    else: rep.bad(rule, "local-not-numerified", "normalize does not normalise numeric local segments", nf.where())

# ---------------------------------------------------------------------------
NORMAL = {"pre_separator": "", "pre_number_separator": "", "post_separator": ".", "post_number_separator": "",
          "dev_separator": ".", "dev_number_separator": ""}

def normal_form(F, rep):
    rule = "R09.7"
    disp = F.find("<impl std::fmt::Display for crate::version::pep440::core::PEP440>::fmt")
    if not rep.anchor(rule, "<PEP440 as Display>::fmt", disp): return
    d = disp[0]
    rep.fn_seen(d)
    # the separators argument is PEP440Separators::normalized() and the local separator "+"
    fmt_call = None
    for bi, t in d.calls():
        c = mir.callee(t) or ""
        if c.startswith("crate::version::pep440::display::") and len(t[2]) >= 10:
            fmt_call = (bi, t)
    if fmt_call is None:
        rep.undecided(rule, "unrecognised-shape:display", "Display for PEP440 does not call a local formatter with separators", d.where()); return
    bi, t = fmt_call
    seps_ok = False
    for a in t[2]:
        for o in mir.trace_op(d, a, transparent=()):
            if o.kind == "call" and (mir.callee(d.blocks[o.data]["t"]) or "").endswith("::normalized"):
                seps_ok = True
                nfn = F.fn(mir.callee(d.blocks[o.data]["t"]))
    if not seps_ok:
        rep.bad(rule, "display-not-normalized", "Display does not use PEP440Separators::normalized()", d.where()); return
    rep.ok(rule, "Display uses PEP440Separators::normalized()", nontrivial_key="norm")
    rep.fn_seen(nfn)
    sp = mir.SymPath(nfn, mir.enum_paths(nfn)[0])
    r = sp.ret()
    got = {k: (v[1] if v[0] == "const" else mir.show(v)) for k, v in (r[2] if r[0] == "agg" else [])}
    for k, v in NORMAL.items():
        if got.get(k) == v: rep.ok(rule, "normalized().%s == %r" % (k, v), nontrivial_key=k)
        else: rep.bad(rule, "separator:" + k, "normal form requires %s = %r, code has %r" % (k, v, got.get(k)), nfn.where())
    lsep = mir.const_arg(d, t[2][-1])
    if lsep == "+": rep.ok(rule, "local separator '+'")
    else: rep.bad(rule, "separator:local", "local separator is %r, expected '+'" % (lsep,), d.where())
    # epoch printed only when > 0, followed by '!'
    er = [x for x in F.find("pep440::display::format_epoch_and_release") if x.kind == "fn"]
    if rep.anchor(rule, "format_epoch_and_release", er):
        e = er[0]; rep.fn_seen(e)
        tm = mir.fmt_templates(e)
        good = False
        for b2, pieces in tm:
            if [p for p in pieces if isinstance(p, str)] == ["!"] and pieces and isinstance(pieces[0], tuple):
                for desc, pol, dd in mir.guards_of(e, b2):
                    if desc[0] == "bin" and desc[1] == "Gt" and mir.const_of(desc[3]) == 0 and pol is True:
                        good = True
        if good: rep.ok(rule, "epoch printed as '{}!' only under epoch > 0", nontrivial_key="epoch")
        else: rep.bad(rule, "epoch-form", "epoch is not printed as N! exactly when N > 0 (templates %r)" % tm, e.where())
    # label spellings a|b|rc
    lf = [x for x in F.find("pep440::utils::pre_release_label_to_pep440_string") if x.kind == "fn"]
    if rep.anchor(rule, "pre_release_label_to_pep440_string", lf):
        l = lf[0]; rep.fn_seen(l)
        tab = {}
        for p in mir.enum_paths(l):
            sp = mir.SymPath(l, p)
            var = None
            for dsc, (rel, vals), b in sp.conds:
                if dsc[0] == "discr" and rel == "eq":
                    vm = {v: n for v, n in _variants(l, b)}
                    var = vm.get(vals[0])
            r = sp.ret()
            if var and r[0] == "const": tab[var] = r[1]
        want = {"Alpha": "a", "Beta": "b", "Rc": "rc"}
        for k, v in want.items():
            if tab.get(k) == v: rep.ok(rule, "label %s printed as %r" % (k, v), nontrivial_key="lab" + k)
            else: rep.bad(rule, "label-spelling:" + k, "normal form spells %s as %r, code prints %r" % (k, v, tab.get(k)), l.where())
    # join "." for release and local
    joins = []
    for g in [x for p, x in F.fns.items() if p.startswith("crate::version::pep440::display::")]:
        for b2, t2 in g.calls():
            if (mir.callee(t2) or "").endswith("]>::join") and len(t2[2]) > 1:
                joins.append((g.path.rsplit("::", 1)[-1] if "{" not in g.path else g.path, mir.const_arg(g, t2[2][1])))
    if joins and all(j[1] == "." for j in joins): rep.ok(rule, "release numbers and local segments joined by '.' (%d sites)" % len(joins))
    elif not joins: rep.undecided(rule, "join-separator", "release / local segments are not joined with slice::join in the display module: separator not extracted", d.where())
    else: rep.bad(rule, "join-separator", "release / local not joined by '.': %r" % joins, d.where())

def _variants(fn, switch_block):
    desc = mir.describe_discr(fn, switch_block)
    return desc[3] if desc[0] == "discr" else []

EXPL = ("Static decision of the structural clauses of C09. R09.1 decides L(parser) = L(PEP 440 Appendix B, ASCII case folding, no surrounding whitespace) over ALL strings by DFA product, "
        "against two independent oracles (Appendix B verbatim compiled byte-wise; a pattern composed from the prose normalisation rules with explicit two-letter classes), checked equivalent each run. "
        "R09.2-R09.8 are MIR rules: unmodified haystack; Err exits only for no-match or numeric parse failure of capture groups; no ParseIntError discarded or replaced by a constant; the label table "
        "is total on the regex's pre_l alternatives with the PEP 440 mapping and is consulted lower-cased; every Ok passes normalize(), whose implicit-number table and local normalisation are extracted by path enumeration; "
        "Display uses the normalised separator table ('' '' '.' '' '.' '', '+', 'N!' only when N>0, a|b|rc, '.' joins); check uses the same parser on the unmodified argument. "
        "Not decided: idempotence and 'normal form compares equal to the original' as value laws.")
ASSUME = ["regex::Regex semantics as documented; ^...$ with captures() accepts exactly L(pattern)",
          "u32::from_str accepts exactly in-range ASCII digit runs (optional +)"]
TRUST = ["rustc nightly MIR + trait resolution", "zfacts exporter", "regex-syntax / regex-automata", "rules/c09.py, parsers.py, spec.py, mir.py"]
