"""C15 - template variables agree with the rendered version; functions keep contracts (structural clauses).
R15.1 semver/pep440 built like the formatters; R15.2 part accessors share Display's helpers; R15.3 docker separators;
R15.4 scalar wiring; R15.5 function registry and sanitize presets; R15.6 length-bounding shapes."""
import re
import core, mir, panics

FZ = "crate::cli::utils::template::context::ZervTemplateContext::from_zerv"
SFROM = "<impl std::convert::From<crate::version::zerv::core::Zerv> for crate::version::semver::core::SemVer>::from"
PFROM = "<impl std::convert::From<crate::version::zerv::core::Zerv> for crate::version::pep440::core::PEP440>::from"
SCALARS = ["major", "minor", "patch", "epoch", "post", "dev", "distance", "dirty", "bumped_branch", "bumped_commit_hash", "bumped_timestamp", "last_commit_hash", "last_timestamp", "custom"]
DERIVED = {"bumped_commit_hash_short": "get_bumped_commit_hash_short", "last_commit_hash_short": "get_last_commit_hash_short"}

def check(F, rep, tier):
    f = F.fn(FZ)
    if not rep.anchor("R15.1", "ZervTemplateContext::from_zerv", f):
        return core.finish(rep, explanation=EXPL)
    rep.fn_seen(f)
    sfrom = F.find(SFROM); pfrom = F.find(PFROM)
    # the aggregate
    agg = None
    for bi, si, st in f.stmts():
        if st[0] == "=" and st[2][0] == "agg" and st[2][1].get("adt", "").endswith("context::ZervTemplateContext"): agg = (bi, st)
    if agg is None:
        rep.undecided("R15.1", "unrecognised-shape:context", "from_zerv does not build a ZervTemplateContext literal", f.where())
        return core.finish(rep, explanation=EXPL)
    bi, st = agg
    fields = dict(zip(st[2][1]["fields"], st[2][2]))
    def conv_origin(op, target):
        """value = to_string(&X) where X = <T as From<Zerv>>::from(clone(param zerv))"""
        for o in mir.trace_op(f, op, transparent=()):
            if o.kind != "call": return "not a call: %r" % o
            t = f.blocks[o.data]["t"]
            if "ToString" not in (t[1].get("full") or ""): return "built by %s" % mir.callee(t)
            for o2 in mir.trace_op(f, t[2][0], transparent=()):
                if o2.kind != "call" or (mir.callee(f.blocks[o2.data]["t"]) or "") != target: return "stringifies %r, expected %s" % (o2, target.rsplit("for ", 1)[-1])
                t2 = f.blocks[o2.data]["t"]
                src = mir.trace_op(f, t2[2][0], transparent=("Clone>::clone",))
                if not all(x.kind == "param" and x.data == 1 and not x.fields() for x in src): return "converted from a modified object: %r" % src
                # the clone is of the parameter itself, with nothing written to it in between
        return None
    for name, tgt in (("semver", sfrom), ("pep440", pfrom)):
        if not rep.anchor("R15.1", name + " From<Zerv>", tgt): continue
        err = conv_origin(fields[name], tgt[0].path) if name in fields else "field missing"
        if err is None: rep.ok("R15.1", "{{ %s }} = to_string(From<Zerv>::from(zerv.clone())) - the same conversion the formatter uses" % name, nontrivial_key=name)
        else: rep.bad("R15.1", "context-%s-differs" % name, "{{ %s }} is not the formatter's conversion of the unmodified object: %s" % (name, err), f.where())
    fb = F.fn("crate::cli::utils::output_formatter::OutputFormatter::format_base_output")
    if rep.anchor("R15.1", "OutputFormatter::format_base_output", fb):
        rep.fn_seen(fb)
        cs = {mir.callee(t) for b2, t in fb.calls()}
        if sfrom and pfrom and {sfrom[0].path, pfrom[0].path} <= cs: rep.ok("R15.1", "format_base_output uses the same two From<Zerv> impls", nontrivial_key="fbo")
        else: rep.bad("R15.1", "formatter-other-conversion", "format_base_output does not call both From<Zerv> impls", fb.where())
    # no mutation of the clone between clone and conversion: the only writes through locals derived from param 1 are none
    # ---- R15.2 part accessors use Display's helpers ---------------------------------------------------------
    pairs = [("crate::version::semver::core::SemVer::to_base_part", "format_release_version"), ("crate::version::semver::core::SemVer::to_pre_release_part", "format_pre_release_identifiers"),
             ("crate::version::semver::core::SemVer::to_build_part", "format_build_metadata"), ("crate::version::pep440::core::PEP440::to_base_part", "format_epoch_and_release"),
             ("crate::version::pep440::core::PEP440::to_pre_release_part", "format_pre_release_section"), ("crate::version::pep440::core::PEP440::to_build_part", "format_local_segments")]
    cg = mir.CallGraph(F)
    disp = {"semver": cg.closure([p for p in F.fns if p.endswith("<impl std::fmt::Display for crate::version::semver::core::SemVer>::fmt")], generic=False),
            "pep440": cg.closure([p for p in F.fns if p.endswith("<impl std::fmt::Display for crate::version::pep440::core::PEP440>::fmt")], generic=False)}
    for acc, helper in pairs:
        g = F.fn(acc)
        if not rep.anchor("R15.2", acc, g): continue
        rep.fn_seen(g)
        fam = "semver" if "semver" in acc else "pep440"
        reach = cg.closure([g.path], generic=False)
        hp = [p for p in reach if p.rsplit("::", 1)[-1] == helper and fam in p]
        if hp and hp[0] in disp[fam]: rep.ok("R15.2", "%s uses %s, which Display also reaches" % (acc.rsplit("::", 2)[-2] + "::" + acc.rsplit("::", 1)[-1], helper), nontrivial_key=acc)
        else: rep.bad("R15.2", "part-helper:" + acc.rsplit("::", 2)[-2] + "::" + acc.rsplit("::", 1)[-1], "%s does not go through %s (the helper Display uses): the parts would not recompose to the printed version" % (acc, helper), g.where())
        # the accessor hands the helper's text through unchanged (no trimming / re-formatting on the way out)
        def leaf_calls(fn, op, depth=0):
            out = []
            if depth > 6: return out
            for o in mir.trace_op(fn, op, transparent=()):
                if o.kind == "call":
                    t = fn.blocks[o.data]["t"]; c = mir.callee(t) or ""
                    if c.endswith("Option::<T>::map") or c.endswith("Option::<T>::as_ref"):
                        if c.endswith("::map"):
                            for o2 in mir.trace_op(fn, t[2][1], transparent=()):
                                if o2.kind == "agg" and mir.rv_at(fn, *o2.data)[1].get("k") == "closure":
                                    c2 = F.fn(mir.rv_at(fn, *o2.data)[1]["path"])
                                    if c2 is not None: out += leaf_calls(c2, ["cp", [0]], depth + 1)
                        continue
                    # presence plumbing: `Some(s).filter(|s| !s.is_empty())`, `x?` on an Option - the text itself is not touched
                    if c.endswith("Option::<T>::filter") or c.endswith("as std::ops::Try>::branch") or "FromResidual" in c or c.endswith("Option::<T>::then_some") or c.endswith("bool::then") or c.endswith("bool::then_some"):
                        if c.endswith("::filter") or c.endswith("Try>::branch"):
                            out += leaf_calls(fn, t[2][0], depth + 1)
                        elif c.endswith("then_some") and len(t[2]) > 1: out += leaf_calls(fn, t[2][1], depth + 1)
                        continue
                    out.append(c)
                elif o.kind == "agg":
                    for a in mir.rv_at(fn, *o.data)[2]: out += leaf_calls(fn, a, depth + 1)
            return out
        leaves = leaf_calls(g, ["cp", [0]])
        extra = [c for c in leaves if c.rsplit("::", 1)[-1] != helper]
        if leaves and not extra: rep.ok("R15.2", "%s returns %s's text unchanged" % (acc.rsplit("::", 1)[-1], helper), nontrivial_key=acc + "raw")
        else: rep.bad("R15.2", "part-postprocessed:" + acc.rsplit("::", 2)[-2] + "::" + acc.rsplit("::", 1)[-1], "%s post-processes the helper's text with %s before returning it: the parts no longer recompose to the printed version" % (acc, [c.rsplit("::", 1)[-1] for c in extra] or "nothing recognisable"), g.where())
    pp = F.fn("crate::version::pep440::core::PEP440::to_pre_release_part")
    if pp is not None:
        norm = any((mir.callee(t) or "").endswith("PEP440Separators::<'a>::normalized") or (mir.callee(t) or "").endswith("::normalized") for b2, t in pp.calls())
        if norm: rep.ok("R15.2", "PEP 440 pre_release_part uses the normalised separators", nontrivial_key="ppnorm")
        else: rep.bad("R15.2", "part-separators", "PEP440::to_pre_release_part does not use PEP440Separators::normalized()", pp.where())
    # which accessor feeds which context field
    wiring = {"semver_obj": {"base_part": "SemVer::to_base_part", "pre_release_part": "SemVer::to_pre_release_part", "build_part": "SemVer::to_build_part", "docker": "SemVer::to_docker_format"},
              "pep440_obj": {"base_part": "PEP440::to_base_part", "pre_release_part": "PEP440::to_pre_release_part", "build_part": "PEP440::to_build_part"}}
    for obj, want in wiring.items():
        for o in mir.trace_op(f, fields[obj], transparent=()) if obj in fields else []:
            if o.kind != "agg": rep.undecided("R15.2", "unrecognised-shape:" + obj, "%s is not a literal" % obj, f.where()); continue
            rv = mir.rv_at(f, *o.data)
            for fname, op in zip(rv[1]["fields"], rv[2]):
                cs = [(mir.callee(f.blocks[x.data]["t"]) or "") for x in mir.trace_op(f, op, transparent=()) if x.kind == "call"]
                if cs and all(c.endswith(want.get(fname, "?")) for c in cs): rep.ok("R15.2", "%s.%s <- %s" % (obj, fname, want[fname]), nontrivial_key=obj + fname)
                else: rep.bad("R15.2", "obj-wiring:%s.%s" % (obj, fname), "%s.%s is filled by %s, expected %s" % (obj, fname, cs, want.get(fname)), f.where())
    # ---- R15.3 docker -------------------------------------------------------------------------------------------
    dk = F.fn("crate::version::semver::display::format_docker_version")
    if rep.anchor("R15.3", "format_docker_version", dk):
        rep.fn_seen(dk)
        ok = False
        for b2, t in dk.calls():
            if (mir.callee(t) or "").endswith("format_semver_with_separators"):
                seps = [mir.const_arg(dk, a) for a in t[2][-2:]]
                passthru = all(all(o.kind == "param" and o.data == i + 1 for o in mir.trace_op(dk, a)) for i, a in enumerate(t[2][:5]))
                ok = seps == ["-", "-"] and passthru
        if ok: rep.ok("R15.3", "docker = format_semver_with_separators(same fields, '-', '-')", nontrivial_key="docker")
        else: rep.bad("R15.3", "docker-form", "the docker form is not the SemVer string with both separators '-'", dk.where())
        # and nothing is done to that string afterwards (lower-casing, trimming, replacing)
        rets = mir.trace_place(dk, [0], transparent=())
        post = [mir.callee(o.fn.blocks[o.data]["t"]) or "?" for o in rets if o.kind == "call" and not (mir.callee(o.fn.blocks[o.data]["t"]) or "").endswith("format_semver_with_separators")]
        if rets and not post: rep.ok("R15.3", "the docker form is returned as formatted", nontrivial_key="dockerraw")
        elif post: rep.bad("R15.3", "docker-postprocessed", "the docker form is post-processed with %s: it is no longer the SemVer string with '+' replaced by '-'" % [c.rsplit("::", 1)[-1] for c in post], dk.where())
    # ---- R15.8 an absent (null) argument is the empty string for the template functions -----------------------------------------
    tabs = []
    for p_, g_ in sorted(F.fns.items()):
        if not p_.startswith("crate::cli::utils::template::functions::") or "::tests::" in p_: continue
        gi_ = mir.inlined(F, g_, depth=2, ok=lambda F_, c_, cp, h: h is not None and h.kind != "closure" and cp.startswith("crate::cli::utils::template::functions::")) if g_.kind != "closure" else g_
        try: sps = mir.sym_paths(gi_, limit=4000)
        except mir.TooManyPaths: continue
        tab = {}
        for sp in sps:
            vars_ = None
            for d, truth, b in sp.facts():
                if isinstance(truth, tuple) and d[0] == "discr":
                    st_ = gi_.blocks[b]["s"][-1] if gi_.blocks[b]["s"] else None
                    if st_ and st_[0] == "=" and st_[2][0] == "discr" and ("serde_json::Value" in str(st_[2][2]) or "tera::Value" in str(st_[2][2])) and "Option<" not in str(st_[2][2]):
                        names = {v_: n_ for v_, n_ in st_[2][3]}
                        if truth[0] == "eq": cur = {names.get(v_) for v_ in truth[1]}
                        else: cur = {n_ for v_, n_ in names.items() if v_ not in truth[1]}       # the `_ =>` / `other =>` arm
                        vars_ = cur if vars_ is None else (vars_ & cur)
            if vars_ and gi_.d.get("ret", "").endswith("String"):
                for var in vars_: tab.setdefault(var, set()).add(mir.show(sp.ret())[:60])
        if tab: tabs.append((g_, tab))
    for g_, tab in tabs:
        if "String" in tab or "Null" in tab:
            nul = tab.get("Null")
            if nul and all(x in ("new()", "to_string('')", "from('')", "default()") or x.endswith("String::new()") for x in nul): rep.ok("R15.8", "a null (absent) template argument becomes the empty string", sample=str(sorted(nul)), nontrivial_key="null" + g_.path)
            elif nul: rep.bad("R15.8", "null-not-empty", "a null (absent) template argument is turned into %s instead of the empty string: prefix_if / sanitize / prefix see text where there is none" % sorted(nul), g_.where())
            else: rep.bad("R15.8", "null-not-empty", "the Value -> text conversion of the template functions has no arm that maps Null to the empty string (arms: %s)" % sorted(tab), g_.where())
    # ---- R15.4 scalar wiring -----------------------------------------------------------------------------------------
    n = 0
    for name in SCALARS:
        if name not in fields: rep.bad("R15.4", "scalar-missing:" + name, "template variable %s is not in the context" % name, f.where()); continue
        srcs = mir.trace_op(f, fields[name], transparent=mir.TRANSPARENT)
        fl = {x.fields()[-1] if x.fields() else "?" for x in srcs}
        base_ok = all(x.kind == "param" and x.data == 1 and x.fields()[:1] == ["vars"] for x in srcs)
        n += 1
        if fl == {name} and base_ok: rep.ok("R15.4", "{{ %s }} <- zerv.vars.%s" % (name, name), nontrivial_key=name)
        else: rep.bad("R15.4", "scalar-wiring:" + name, "template variable %s is filled from %s" % (name, sorted(fl)), f.where())
    for name, getter in DERIVED.items():
        cs = [(mir.callee(f.blocks[x.data]["t"]) or "") for x in mir.trace_op(f, fields.get(name, ["c", {}]), transparent=()) if x.kind == "call"] if name in fields else []
        if cs and all(c.endswith(getter) for c in cs): rep.ok("R15.4", "{{ %s }} <- vars.%s()" % (name, getter), nontrivial_key=name)
        else: rep.bad("R15.4", "scalar-wiring:" + name, "template variable %s is filled by %s, expected %s" % (name, cs, getter), f.where())
    rep.floor("R15.4", "scalar template variables wired", n, 14)
    # ---- R15.5 registry ----------------------------------------------------------------------------------------------------
    rf = F.fn("crate::cli::utils::template::functions::register_functions")
    if rep.anchor("R15.5", "register_functions", rf):
        rep.fn_seen(rf)
        reg = {}
        for b2, t in rf.calls():
            if (mir.callee(t) or "").endswith("Tera::register_function"):
                nm = mir.const_arg(rf, t[2][1])
                fnitem = None
                for o in mir.trace_op(rf, t[2][2], transparent=("Box::<T>::new",)):
                    if o.kind == "const" and o.data.get("k") == "fn": fnitem = o.data["path"].rsplit("::", 1)[-1]
                    if o.kind == "call":
                        for a in rf.blocks[o.data]["t"][2]:
                            if a[0] == "c" and a[1].get("k") == "fn": fnitem = a[1]["path"].rsplit("::", 1)[-1]
                reg[nm] = fnitem
        want = {"sanitize": "sanitize_function", "hash": "hash_function", "hash_int": "hash_int_function", "prefix": "prefix_function", "prefix_if": "prefix_if_function", "format_timestamp": "format_timestamp_function"}
        if reg == want: rep.ok("R15.5", "the six documented functions are registered under their names", sample=reg, nontrivial_key="registry")
        else: rep.bad("R15.5", "function-registry", "registered template functions are %s, documented are %s" % (reg, want), rf.where())
    sf = F.fn("crate::cli::utils::template::functions::sanitize_function")
    if rep.anchor("R15.5", "sanitize_function", sf):
        rep.fn_seen(sf)
        # sanitize_with_preset(..) / argument-reading helpers are seen through; the Sanitizer constructors stay calls
        sf = mir.inlined(F, sf, depth=3, ok=lambda F_, caller, cp, g: g is not None and g.kind != "closure" and cp.startswith("crate::cli::utils::template::functions::"))
        tab = {}
        try:
            for p_ in mir.enum_paths(sf, limit=20000):
                if sf.blocks[p_[-1]]["t"][0] != "ret": continue
                sp = mir.SymPath(sf, p_)
                key = None
                for cnd in sp.conds:
                    se = mir.str_eq_cond(cnd)
                    if se and se[2]: key = se[1]
                ctors = [str(nme).rsplit("::", 1)[-1] for b3, nme, a3, t3 in sp.calls if str(nme).startswith("crate::utils::sanitize::Sanitizer::") and str(nme).rsplit("::", 1)[-1] in ("semver_str", "pep440_local_str", "uint", "str", "key")]
                if key is not None and ctors: tab.setdefault(key, set()).update(ctors)
        except mir.TooManyPaths:
            tab = {}
        tab = {k: (next(iter(v)) if len(v) == 1 else sorted(v)) for k, v in tab.items()}
        want = {"semver_str": "semver_str", "semver": "semver_str", "dotted": "semver_str", "pep440_local_str": "pep440_local_str", "pep440": "pep440_local_str", "lower_dotted": "pep440_local_str", "uint": "uint"}
        got = {k: v for k, v in tab.items()}
        okp = got == want
        if okp: rep.ok("R15.5", "sanitize presets dispatch to the renderers' own Sanitizer constructors", sample=got, nontrivial_key="presets")
        else: rep.bad("R15.5", "sanitize-presets", "sanitize(preset=..) dispatch is %s" % got, sf.where())
    # custom parameters: the default preset is used only when NONE of the four optional arguments is present
    if sf is not None:
        probs = []; n_def = 0; undecided = 0
        try:
            for p_ in mir.enum_paths(sf, limit=20000):
                if sf.blocks[p_[-1]]["t"][0] != "ret": continue
                sp = mir.SymPath(sf, p_)
                ctors = [str(nme).rsplit("::", 1)[-1] for b3, nme, a3, t3 in sp.calls if str(nme).startswith("crate::utils::sanitize::Sanitizer::") and str(nme).rsplit("::", 1)[-1] != "sanitize"]
                preset_given = None
                absent = set(); other = []
                # prune infeasible paths: the same Option tested as Some by is_some() and as not-Some by a discriminant (or twice differently)
                state = {}; feasible = True
                for d, (rel, vals), b in sp.conds:
                    tr = not ((rel == "eq" and 0 in vals) or (rel == "ne" and 0 not in vals))
                    subj = None; some = None
                    if d[0] == "call" and str(d[1]).endswith("::is_some"): subj = mir.show(d[2][0]); some = tr
                    elif d[0] == "call" and str(d[1]).endswith("::is_none"): subj = mir.show(d[2][0]); some = not tr
                    elif d[0] == "discr" and "Option" in str(mir.describe_discr(sf, b)[2] if mir.describe_discr(sf, b)[0] == "discr" else ""):
                        subj = mir.show(d[1]); some = (rel == "eq" and 1 in vals) or (rel == "ne" and 0 in vals and 1 not in vals)
                    elif d[0] == "const" and isinstance(d[1], (bool, int)):
                        # a constant-folded bool local (has_custom_params = true) whose switch takes the other edge
                        if bool(d[1]) != tr: feasible = False; break
                        continue
                    if subj is not None:
                        if subj in state and state[subj] != some: feasible = False; break
                        state[subj] = some
                    # plain bool locals tested twice
                    if d[0] not in ("call", "discr"):
                        k2 = "bool:" + mir.show(d)
                        if k2 in state and state[k2] != tr: feasible = False; break
                        state[k2] = tr
                if not feasible: continue
                for d, (rel, vals), b in sp.conds:
                    truth = not ((rel == "eq" and 0 in vals) or (rel == "ne" and 0 not in vals))
                    if d[0] == "discr" and "preset" in mir.show(d[1]): preset_given = (rel == "eq" and 1 in vals) or (rel == "ne" and 0 in vals)
                    if d[0] == "call":
                        nm = str(d[1]).rsplit("::", 1)[-1]; txt = mir.show(d)
                        for arg in ("separator", "keep_zeros", "max_length", "lowercase"):
                            if ("'%s'" % arg) in txt or arg in txt:
                                if nm == "is_some" and not truth: absent.add(arg)
                                elif nm == "is_none" and truth: absent.add(arg)
                                elif nm not in ("is_some", "is_none"): other.append((arg, nm))
                    if d[0] == "discr":
                        txt = mir.show(d[1])
                        for arg in ("separator", "keep_zeros", "max_length", "lowercase"):
                            if arg in txt and state.get(txt) is False: absent.add(arg)
                if ctors == ["semver_str"] and not any(mir.str_eq_cond(c) and mir.str_eq_cond(c)[2] for c in sp.conds):
                    n_def += 1
                    if not absent and not other: undecided += 1      # presence not tested by any idiom this rule knows: no verdict
                    elif absent != {"separator", "keep_zeros", "max_length", "lowercase"}:
                        probs.append("default preset reached with only %s known absent (tests on the others: %s)" % (sorted(absent), other))
        except mir.TooManyPaths:
            probs.append("too many paths")
        if probs: rep.bad("R15.5", "custom-params-detection", "sanitize(): %s - an explicitly given argument (e.g. lowercase=false) must select the custom sanitiser" % probs[:1], sf.where())
        elif n_def and undecided == n_def: rep.ok("R15.5", "presence of the optional sanitize() arguments is not tested by is_some/is_none/match on the default-preset paths: rule not evaluated (%d paths)" % n_def)
        elif n_def: rep.ok("R15.5", "the default preset is used only when separator, keep_zeros, max_length and lowercase are all absent (%d paths)" % n_def, nontrivial_key="customdetect")
        else: rep.bad("R15.5", "below-floor:default-preset-paths", "no default-preset path found in sanitize_function", sf.where())
    # ---- R15.7 format_timestamp is UTC ------------------------------------------------------------------------------------
    import c14
    ft = F.fn("crate::cli::utils::template::functions::format_timestamp_function")
    if rep.anchor("R15.7", "format_timestamp_function", ft):
        rep.fn_seen(ft)
        texts = list(ft.locals) + [t[1].get("full") or "" for b2, t in ft.calls()]
        hits = sorted({h for tx in texts for h in c14.bad_zone(tx)})
        utc = any("chrono::DateTime<chrono::Utc>" in tx or "chrono::Utc" in tx for tx in texts)
        from_ts = any((mir.callee(t) or "").endswith("::from_timestamp") for g_ in [ft] + mir.closures_in(F, ft) for b2, t in g_.calls())
        texts += [t[1].get("full") or "" for g_ in mir.closures_in(F, ft) for b2, t in g_.calls()]
        utc = utc or any("chrono::DateTime<chrono::Utc>" in tx or "chrono::Utc" in tx for tx in texts)
        hits = sorted(set(hits) | {h for tx in texts for h in c14.bad_zone(tx)})
        if hits: rep.bad("R15.7", "format-timestamp-zone", "format_timestamp uses non-UTC time zone machinery: %s" % hits, ft.where())
        elif utc and from_ts: rep.ok("R15.7", "format_timestamp formats DateTime::<Utc>::from_timestamp(value)", nontrivial_key="ftutc")
        else: rep.bad("R15.7", "format-timestamp-shape", "format_timestamp does not build a UTC DateTime with from_timestamp", ft.where())
    # ---- R15.6 length bounding -----------------------------------------------------------------------------------------------
    ctx = panics.Ctx(F, cg)
    for nm in ("hash_function", "hash_int_function"):
        g = F.fn("crate::cli::utils::template::functions::" + nm)
        if not rep.anchor("R15.6", nm, g): continue
        rep.fn_seen(g)
        g = mir.inlined(F, g, depth=3)        # get_length_arg / truncate_to_length style helpers are seen through
        sl = [(b2, t) for b2, t in g.calls() if "Index<std::ops::RangeTo<usize>>" in (t[1].get("full") or "")]
        if not sl:
            other = [mir.callee(t) for b2, t in g.calls() if any((mir.callee(t) or "").endswith(x) for x in ("Iterator::take", "String::truncate", "str>::get", "::split_at", "::split_at_checked"))]
            if other: rep.undecided("R15.6", "length-bound-other:" + nm, "%s bounds its result with %s, a form this rule does not evaluate" % (nm, other), g.where())
            else: rep.bad("R15.6", "no-length-bound:" + nm, "%s does not cut its result to `length`" % nm, g.where())
            continue
        for b2, t in sl:
            # s[..length] on the len > length edge, with `length` the template argument
            rng = None
            for o in mir.trace_op(g, t[2][1], transparent=()):
                if o.kind == "agg": rng = mir.rv_at(g, *o.data)
            lenk = panics.okey(g, rng[2][0]) if rng else "?"
            guard = any(d[0] == "bin" and d[1] == "Gt" and pol is True and panics.okey(g, d[3]) == lenk and panics.describe_len(g, d[2])[0] == "len" for d, pol, dd in mir.guards_of(g, b2))
            if not guard and rng:
                # &s[..s.len().min(length)]
                e_ = panics.describe_len(g, rng[2][0])
                if e_[0] == "min" and any(x[0] == "len" for x in e_[1]) and len(e_[1]) == 2: guard = True
            from_arg = any("length" in str(mir.const_arg(g, t2[2][1])) for b3, t2 in g.calls() if (mir.callee(t2) or "").endswith("HashMap::<K, V, S, A>::get"))
            if guard and from_arg: rep.ok("R15.6", "%s returns s[..length] exactly when len > length" % nm, nontrivial_key=nm)
            else: rep.bad("R15.6", "length-bound-shape:" + nm, "%s: the cut to `length` is not `if len > length { &s[..length] } else { &s }` (guard %s)" % (nm, guard), g.where())
    pf = F.fn("crate::cli::utils::template::functions::prefix_function")
    if rep.anchor("R15.6", "prefix_function", pf):
        rep.fn_seen(pf)
        take = [t for b2, t in pf.calls() if (mir.callee(t) or "").endswith("Iterator::take")]
        chars = any((mir.callee(t) or "").endswith("str>::chars") for b2, t in pf.calls())
        byte_slice = any("Index<std::ops::RangeTo<usize>>" in (t[1].get("full") or "") for b2, t in pf.calls())
        # `match input.char_indices().nth(length) { Some((cut, _)) => input[..cut], None => input }`: the cut is the byte offset of the
        # first character beyond `length` characters - the same bound, spelled with a slice
        if byte_slice:
            ctx2 = panics.Ctx(F, cg)
            sl_ok = []
            for b2, t in pf.calls():
                if "Index<std::ops::RangeTo<usize>>" not in (t[1].get("full") or ""): continue
                ok_, why_ = panics.slice_ok(F, pf, b2, t, t[1].get("full") or "")
                from_len = any((mir.callee(pf.blocks[int(d_)]["t"]) or "").endswith("Iterator::nth") and any(str(mir.const_arg(pf, a2)) == "length" for b3, t3 in pf.calls() if (mir.callee(t3) or "").endswith("::get") for a2 in t3[2][1:])
                               for k_, d_ in mir.deep_origins(pf, t[2][1], stop=()) if k_ == "call" and d_.isdigit() and pf.blocks[int(d_)]["t"][0] == "call")
                sl_ok.append(ok_ and "char_indices" in why_ and from_len)
            if sl_ok and all(sl_ok):
                rep.ok("R15.6", "prefix returns input[..offset of character number `length`]: at most `length` characters", nontrivial_key="prefix")
                byte_slice = None
        if byte_slice is None: pass
        elif take and chars and not byte_slice: rep.ok("R15.6", "prefix returns chars().take(length): at most `length` characters", nontrivial_key="prefix")
        elif byte_slice: rep.bad("R15.6", "prefix-bytes", "prefix() bounds bytes, not characters (and can split a multi-byte character)", pf.where())
        else: rep.bad("R15.6", "prefix-shape", "prefix() does not bound its result with chars().take(length)", pf.where())
    pif = F.fn("crate::cli::utils::template::functions::prefix_if_function")
    if rep.anchor("R15.6", "prefix_if_function", pif):
        rep.fn_seen(pif)
        ok = False
        for b2, pieces in mir.fmt_templates(pif):
            if len([p for p in pieces if isinstance(p, tuple)]) == 2 and not any(isinstance(p, str) and p for p in pieces):
                if any(d[0] == "call" and (d[1] or "").endswith("::is_empty") and pol is False for d, pol, dd in mir.guards_of(pif, b2)): ok = True
        if not ok:
            # `match value.as_str() { "" => .., v => format!("{prefix}{v}") }`: the two-argument template on the arm where the value is not ""
            for b2, pieces in mir.fmt_templates(pif):
                if len([p for p in pieces if isinstance(p, tuple)]) == 2 and not any(isinstance(p, str) and p for p in pieces):
                    for d, pol, dd in mir.guards_of(pif, b2):
                        if d[0] == "call" and "PartialEq" in (d[1] or "") and pol is False:
                            cs = [mir.const_arg(pif, a) for a in d[2][2]]
                            if "" in cs: ok = True
        if ok: rep.ok("R15.6", "prefix_if adds the prefix exactly when the value is non-empty", nontrivial_key="prefix_if")
        elif not mir.fmt_templates(pif): rep.undecided("R15.6", "prefix-if-shape", "prefix_if does not build its result with a format template", pif.where())
        else: rep.bad("R15.6", "prefix-if-shape", "prefix_if does not build `prefix + value` under !value.is_empty()", pif.where())
    # ---- R15.9 the `length` a template gives is the length used (0 included) ------------------------------------------------------------
    nlen = 0
    for nm in ("hash_function", "hash_int_function", "prefix_function"):
        g0 = F.fn("crate::cli::utils::template::functions::" + nm)
        if g0 is None: continue
        g = mir.inlined(F, g0, depth=3, keep=("get_string_value",))
        def from_length(op, g=g):
            for k, d in mir.deep_origins(g, op, stop=()):
                if k == "call" and d.isdigit() and g.blocks[int(d)]["t"][0] == "call":
                    t2 = g.blocks[int(d)]["t"]
                    if (mir.callee(t2) or "").endswith("::get") and any(mir.const_arg(g, a) == "length" for a in t2[2][1:]): return True
            return False
        found = False; filt = None
        for bi, si, st in g.stmts():
            if st[0] != "=" or st[2][0] not in ("cast", "use"): continue
            op = st[2][2] if st[2][0] == "cast" else st[2][1]
            if op[0] not in ("cp", "mv") or not from_length(op): continue
            found = True
            for d, pol, dd in mir.guards_of(g, bi):
                # a comparison of the given length with a constant decides whether it is used at all
                if d[0] == "bin" and d[1] in ("Gt", "Ge", "Lt", "Le", "Eq", "Ne") and len(d) > 3 and any(isinstance(x, (list, tuple)) and x[0] in ("cp", "mv") and from_length(x) for x in d[2:4]) \
                        and any(isinstance(x, (list, tuple)) and x[0] == "c" for x in d[2:4]):
                    filt = "%s bb%d line %s (%s)" % (g.where(), bi, g.blocks[bi]["line"], d[1])
        for bi, t in g.calls():
            c = mir.callee(t) or ""
            if any(c.endswith(x) for x in ("Option::<T>::filter", "::max", "::clamp")) and t[2] and from_length(t[2][0]):
                filt = "%s bb%d line %s (%s)" % (g.where(), bi, g.blocks[bi]["line"], c.rsplit("::", 1)[-1])
        # a `length` of the wrong type is not "no length": `args.get("length").and_then(as_u64).unwrap_or(default)` puts the default in
        # place of length="3", -1 or 2.5, and the result is then longer than what was asked for
        conflated = None
        for bi, t in g.calls():
            c = (mir.callee(t) or "").rsplit("::", 1)[-1]
            if c not in ("unwrap_or", "unwrap_or_default", "unwrap_or_else", "map_or", "map_or_else") or not t[2] or not from_length(t[2][0]): continue
            # the receiver itself must be the converted argument (`..get("length").and_then(as_u64)`), not something computed from the length
            direct = {(mir.callee(o.fn.blocks[o.data]["t"]) or "").rsplit("::", 1)[-1] for o in mir.trace_op(g, t[2][0], transparent=()) if o.kind == "call"}
            if not direct or not direct <= {"and_then", "as_u64", "as_i64", "as_f64", "map", "ok", "and", "filter_map"}: continue
            conv = {(mir.callee(g.blocks[int(d)]["t"]) or "").rsplit("::", 1)[-1] for k, d in mir.deep_origins(g, t[2][0], stop=()) if k == "call" and d.isdigit() and g.blocks[int(d)]["t"][0] == "call"}
            conv |= {(mir.callee(t3) or "").rsplit("::", 1)[-1] for c_ in mir.closures_in(F, g) for b3, t3 in c_.calls()}
            if conv & {"as_u64", "as_i64", "as_f64", "as_str", "parse"}: conflated = "%s bb%d line %s (%s after %s)" % (g.where(), bi, g.blocks[bi]["line"], c, sorted(conv & {"as_u64", "as_i64", "as_f64", "as_str", "parse", "and_then"}))
        if conflated: rep.bad("R15.9", "length-type-ignored:" + nm, "%s replaces a `length` argument of the wrong type by its default (%s): hash(value=x, length=\"3\") returns 7 characters" % (nm, conflated), g0.where())
        if not found: rep.undecided("R15.9", "length-lookup:" + nm, "%s: the `length` argument lookup is not recognised" % nm, g0.where()); continue
        nlen += 1
        if filt: rep.bad("R15.9", "length-filtered:" + nm, "%s uses its `length` argument only when it passes a comparison (%s): some explicit lengths (e.g. 0) are silently replaced by the default, so the result is longer than asked" % (nm, filt), g0.where())
        else: rep.ok("R15.9", "%s uses the given `length` whatever its value" % nm, nontrivial_key="len" + nm)
    rep.floor("R15.9", "template functions taking a length", nlen, 3)
    # ---- R15.10 the template context has a fixed set of top-level names: user data cannot shadow a built-in variable ---------------
    ser = [f for p_, f in F.fns.items() if p_.endswith("::serialize") and "Serialize for crate::cli::utils::template::context::ZervTemplateContext>" in p_]
    if rep.anchor("R15.10", "<ZervTemplateContext as Serialize>::serialize", ser):
        names = [mir.callee(t) or "" for bi, t in ser[0].calls()]
        dyn = sorted({n.rsplit("::", 2)[-2] + "::" + n.rsplit("::", 1)[-1] for n in names if "FlatMap" in n or "SerializeMap" in n or n.endswith("::serialize_map") or n.endswith("::serialize_entry") or n.endswith("::collect_map")})
        fixed = [n for n in names if n.endswith("SerializeStruct::serialize_field") or "SerializeStruct" in n]
        if dyn: rep.bad("R15.10", "context-dynamic-keys", "the template context is serialised with run-time keys at its top level (%s): a custom variable named like a built-in one (semver, pep440, major, dirty, ...) replaces it in every template" % dyn[:4], ser[0].where())
        elif fixed: rep.ok("R15.10", "the template context is a struct with a fixed set of field names (%d serialize_field calls)" % len(fixed), nontrivial_key="ctxfixed")
        else: rep.undecided("R15.10", "context-serialize-shape", "the context's Serialize impl is neither serialize_struct nor map based", ser[0].where())
    # (called directly, not borrowed: C17 -> C06 -> C16 -> C15 would close a borrow cycle)
    import parsers as _ps
    _ps.narrowing_casts(F, rep, "R15.7", ("crate::cli::utils::template::functions::format_timestamp_function",), "the timestamp format_timestamp hands to chrono", sign=True, floor=1)
    # ---- R15.11 sanitize(..) equals the sanitiser contract: the value is sanitised as given (the rule lives with C16's wrapper rules) ----
    import c16 as _c16
    _c16.template_value_rule(F, rep, "R15.11")
    # ---- R15.12 the context a template sees is built from the object of that render: no state kept between renders in the template module ----
    core.borrow(F, rep, "c14", "C14", "R15.12", ("R14.5:mutable-static:cli::utils::template", "R14.5:thread:cli::utils::template"), "no static / thread-local state in the template module (a cached context shows the values of an earlier render)")
    return core.finish(rep, explanation=EXPL, assumptions=ASSUME, trusted=TRUST)

EXPL = ("Sibling agreement between the template context and the formatters, decided on the MIR of ZervTemplateContext::from_zerv: {{ semver }} / {{ pep440 }} are to_string of the same From<Zerv> conversions of the unmodified object that "
        "format_base_output uses; the part accessors call the very helpers Display reaches (and the normalised PEP 440 separators) and are wired to the context fields of the same name; docker is the SemVer formatter with '-' twice; "
        "the 14 scalar variables are wired name-to-name from zerv.vars and the two short hashes from their getters; the six documented functions are registered under their names and sanitize presets dispatch to the renderers' Sanitizer "
        "constructors; hash / hash_int cut with s[..length] exactly on the len > length edge, prefix takes `length` characters, prefix_if concatenates under !is_empty. Not decided: recomposition as an equality on values; format_timestamp vs the calendar.")
ASSUME = []
TRUST = ["rustc MIR", "zfacts", "rules/c15.py"]
