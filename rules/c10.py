"""C10 - SemVer comparison is SemVer 2.0.0 precedence.  R10.1 cmp as a lexicographic term; R10.2 identifier table;
R10.3 build metadata never read; R10.4 eq / partial_cmp defined through cmp; R10.5 tag choice uses this cmp."""
import core, mir, cmpterm

ORD = cmpterm.ORD
OPT = ("None", "Some")
SEMVER = "crate::version::semver::core::SemVer"
IDENT = "crate::version::semver::core::PreReleaseIdentifier"

def ord_impl(F, ty, method="cmp", trait="std::cmp::Ord"):
    fs = [f for f in F.fns.values() if f.d.get("impl_trait") == trait and f.d.get("impl_self") == ty and f.path.endswith("::" + method)]
    return fs[0] if fs else None

def check_stages(rep, rule, cmpr, specs, what):
    """Compare the extracted comparator with the reference.  When the code happens to be a then_with chain of the same
    length, each stage is additionally compared on its own (better diagnostics); the verdict comes from the
    shape-independent whole-function comparison, so an equivalent `match`-style rewrite is not an alarm."""
    total = 0
    try:
        diffs, n = cmpterm.compare_whole(cmpr, specs)
    except cmpterm.Unrecognised as e:
        rep.undecided(rule, "unrecognised-shape:" + what, "%s: %s" % (what, e), cmpr.fn.where()); return 0
    total += n
    if not diffs:
        rep.ok(rule, "%s equals the lexicographic reference %s on all %d abstract assignments (each stage exhaustively, plus stage priority)" % (what, [s_[0] for s_ in specs], n), sample=[sorted(s_[1]) for s_ in specs][:3], nontrivial_key=what + "whole")
        return total
    # locate the stage for the report
    located = False
    if len(cmpr.stages) == len(specs):
        for i, (st, (name, keys, fn)) in enumerate(zip(cmpr.stages, specs)):
            try: d2, n2 = cmpterm.compare_stage(cmpr, st, keys, fn)
            except cmpterm.Unrecognised as e: d2 = [str(e)]; n2 = 0
            total += n2
            if d2:
                located = True
                rep.bad(rule, "stage-differs:%s:%s" % (what, name), "stage %d (%s) of %s differs from the reference: %s" % (i, name, what, "; ".join(d2)), cmpr.fn.where())
    if not located:
        rep.bad(rule, "comparator-differs:" + what, "%s is not the reference comparator %s: %s" % (what, [s_[0] for s_ in specs], "; ".join(diffs[:3])), cmpr.fn.where())
    return total

def field_stage(field, ty):
    k = "Ord<%s>::cmp(self.%s,other.%s)" % (ty, field, field)
    return (field, {k: ORD}, lambda a, k=k: a[k])

def option_stage(name, self_k, other_k, nn, ns, sn, ss_key=None, ss_fn=None, extra=None):
    keys = {self_k: OPT, other_k: OPT}
    if ss_key: keys[ss_key] = ORD
    if extra: keys.update(extra)
    def fn(a):
        s, o = a[self_k], a[other_k]
        if s == "None" and o == "None": return nn
        if s == "None": return ns
        if o == "None": return sn
        return ss_fn(a) if ss_fn else a[ss_key]
    return (name, keys, fn)

def table_is_total_order(tab, dom):
    """antisymmetric, reflexive-equal and transitive on the finite domain"""
    probs = []
    for x in dom:
        if tab[(x, x)] != "Equal": probs.append("(%s,%s) is %s" % (x, x, tab[(x, x)]))
        for y in dom:
            inv = {"Less": "Greater", "Greater": "Less", "Equal": "Equal"}[tab[(x, y)]]
            if tab[(y, x)] != inv: probs.append("(%s,%s)=%s but (%s,%s)=%s" % (x, y, tab[(x, y)], y, x, tab[(y, x)]))
            for z in dom:
                if tab[(x, y)] == "Less" and tab[(y, z)] == "Less" and tab[(x, z)] != "Less": probs.append("not transitive on %s<%s<%s" % (x, y, z))
    return probs

def eq_via_cmp(F, rep, rule, ty, cmp_fn):
    eq = ord_impl(F, ty, "eq", "std::cmp::PartialEq")
    pc = ord_impl(F, ty, "partial_cmp", "std::cmp::PartialOrd")
    short = ty.rsplit("::", 1)[-1]
    if rep.anchor(rule, "PartialEq for " + short, eq):
        rep.fn_seen(eq)
        if eq.d.get("derived"):
            rep.bad(rule, "derived-eq:" + short, "PartialEq for %s is derived (field-wise) while Ord is hand-written: equality would disagree with cmp" % short, eq.where())
        else:
            calls = [mir.callee(t) for bi, t in eq.calls()]
            uses_cmp = cmp_fn.path in calls
            # result is `cmp(self, other) == Equal`
            cmp_equal = any((c or "").endswith("PartialEq>::eq") or (c or "").endswith("::eq") for c in calls if c != cmp_fn.path)
            args_ok = all([o.kind == "param" and o.data == i + 1 and not o.fields() for i, a in enumerate(t[2]) for o in mir.trace_op(eq, a)] for bi, t in eq.calls() if mir.callee(t) == cmp_fn.path)
            consts = [mir.sym_value(F, eq, a) for bi, t in eq.calls() if (mir.callee(t) or "") != cmp_fn.path for a in t[2]]
            if uses_cmp and any("Equal" in c for c in consts):
                rep.ok(rule, "%s::eq is cmp(self, other) == Equal" % short, nontrivial_key="eq" + short)
            else:
                rep.bad(rule, "eq-not-cmp:" + short, "%s::eq is not defined as cmp(self, other) == Ordering::Equal (calls %s)" % (short, calls), eq.where())
    if rep.anchor(rule, "PartialOrd for " + short, pc):
        rep.fn_seen(pc)
        sp_ok = False
        if not pc.d.get("derived") and not mir.has_loop(pc):
            for p in mir.enum_paths(pc):
                r = mir.SymPath(pc, p).ret()
                if r[0] == "agg" and r[1].endswith("Option::Some") and r[2] and r[2][0][1][0] == "call" and r[2][0][1][1] == cmp_fn.path and r[2][0][1][2] == [("param", 1), ("param", 2)]:
                    sp_ok = True
        if sp_ok: rep.ok(rule, "%s::partial_cmp is Some(cmp(self, other))" % short, nontrivial_key="pc" + short)
        else: rep.bad(rule, "partial-cmp:" + short, "%s::partial_cmp is not Some(self.cmp(other))" % short, pc.where())

def check(F, rep, tier):
    f = ord_impl(F, SEMVER)
    if not rep.anchor("R10.1", "<SemVer as Ord>::cmp", f):
        return core.finish(rep, explanation=EXPL)
    rep.fn_seen(f, *F.children(f.path))
    evals = 0
    try:
        c = cmpterm.Comparator(F, f)
        call_k = None
        specs = [field_stage("major", "u64"), field_stage("minor", "u64"), field_stage("patch", "u64"),
                 option_stage("pre_release", "self.pre_release", "other.pre_release", "Equal", "Greater", "Less",
                              ss_key="compare_pre_release_identifiers(self.pre_release#Some.0,other.pre_release#Some.0)")]
        # the (Some, Some) delegate may be a local function or the slice/Vec Ord impl: find what the code calls, then check that callee
        evals += check_stages(rep, "R10.1", c, adapt_delegate(c, specs), "SemVer::cmp") or 0
        delegate_rule(F, rep, c)
    except cmpterm.Unrecognised as e:
        rep.undecided("R10.1", "unrecognised-shape:SemVer::cmp", str(e), f.where())
    # ---- R10.2 identifier comparison ---------------------------------------------------------
    g = ord_impl(F, IDENT)
    numtext_pred = [None]
    if rep.anchor("R10.2", "<PreReleaseIdentifier as Ord>::cmp", g):
        rep.fn_seen(g)
        try:
            ci = cmpterm.Comparator(F, g)
            ku, ks = "Ord<u64>::cmp(self#UInt.0,other#UInt.0)", "Ord<String>::cmp(self#Str.0,other#Str.0)"
            def spec(a):
                s, o = a["self"], a["other"]
                if s == "UInt" and o == "UInt": return a[ku]
                if s == "Str" and o == "Str": return a[ks]
                return "Less" if s == "UInt" else "Greater"
            plain = [("identifier", {"self": ("Str", "UInt"), "other": ("Str", "UInt"), ku: ORD, ks: ORD}, spec)]
            # Text identifiers: the parser keeps a numeric identifier beyond u64 as text (R10.7).  Where the comparator asks a boolean
            # question P about each text operand, the reference is the R11.3 one: P-texts are numbers (by (length, digits) = by value,
            # below every other text), the rest compare byte-wise.  P itself is examined by R10.7.
            import re as _re
            try: d0, _n0 = cmpterm.compare_whole(ci, plain)
            except cmpterm.Unrecognised: d0 = []
            m_ = _re.search(r"the code consults (\w+)\((self|other)#Str\.0\)", " ".join(d0))
            numtext_pred[0] = m_.group(1) if m_ else None
            if m_:
                kns, kno = "%s(self#Str.0)" % m_.group(1), "%s(other#Str.0)" % m_.group(1)
                klen = "Ord<usize>::cmp(len(self#Str.0),len(other#Str.0))"; kdig = "Ord<str>::cmp(self#Str.0,other#Str.0)"
                def spec2(a):
                    s_, o_ = a["self"], a["other"]
                    if s_ == "UInt" and o_ == "UInt": return a[ku]
                    if s_ == "Str" and o_ == "Str":
                        ns, no = a[kns] == "true", a[kno] == "true"
                        if ns and no: return a[klen] if a[klen] != "Equal" else a[kdig]
                        if ns != no: return "Less" if ns else "Greater"
                        return a[kdig]
                    return "Less" if s_ == "UInt" else "Greater"
                evals += check_stages(rep, "R10.2", ci, [("identifier", {"self": ("Str", "UInt"), "other": ("Str", "UInt"), ku: ORD, kns: ("false", "true"), kno: ("false", "true"), klen: ORD, kdig: ORD}, spec2)], "PreReleaseIdentifier::cmp") or 0
            else:
                evals += check_stages(rep, "R10.2", ci, plain, "PreReleaseIdentifier::cmp") or 0
            # the string atom must be plain byte-wise String/str comparison (ASCII order), not a folded one
            for k, callee in ci.atoms.items():
                if "Str" in k and not k.startswith("Ord<usize>") and not ("impl std::cmp::Ord for std::string::String" in callee or "Ord for str" in callee or "<std::string::String as std::cmp::Ord>" in callee):
                    rep.bad("R10.2", "string-order", "alphanumeric identifiers are compared with %s instead of byte-wise String order" % callee, g.where())
        except cmpterm.Unrecognised as e:
            rep.undecided("R10.2", "unrecognised-shape:PreReleaseIdentifier::cmp", str(e), g.where())
    # ---- R10.7 numeric identifiers compare by value whatever their size ---------------------------------------------------------
    if g is not None: big_numeric_rule(F, rep, g, numtext_pred[0])
    # ---- R10.3 build metadata is never read -------------------------------------------------------
    cg = mir.CallGraph(F)
    roots = [x.path for x in (f, ord_impl(F, SEMVER, "eq", "std::cmp::PartialEq"), ord_impl(F, SEMVER, "partial_cmp", "std::cmp::PartialOrd")) if x is not None]
    reach = [F.fns[p] for p in cg.closure(roots, generic=False) if p in F.fns]
    n_reads = 0
    for h in reach:
        rep.fn_seen(h)
        for bi, si, st in h.stmts():
            txt = str(st)
            if "'build_metadata'" in txt and "SemVer" in txt:
                n_reads += 1
                rep.bad("R10.3", "build-metadata-read:" + h.path.replace("crate::", ""), "SemVer.build_metadata is read while comparing (build metadata must be ignored)", "%s bb%d" % (h.where(), bi))
    if n_reads == 0: rep.ok("R10.3", "no read of SemVer.build_metadata in the %d functions of the comparison closure" % len(reach), nontrivial_key="nobuild")
    positive = "['f', 4, 'build_metadata', 'crate::version::semver::core::SemVer']"
    if "'build_metadata'" not in positive: raise core.CheckBroken("R10.3 self-test")
    # ---- R10.4 ---------------------------------------------------------------------------------------
    eq_via_cmp(F, rep, "R10.4", SEMVER, f)
    if g is not None:
        pc = ord_impl(F, IDENT, "partial_cmp", "std::cmp::PartialOrd")
        if pc is not None and not pc.d.get("derived"):
            rep.ok("R10.4", "PreReleaseIdentifier::partial_cmp is hand-written next to cmp")
    # ---- R10.5 tag choice -------------------------------------------------------------------------------
    fm = [x for x in F.find("GitUtils::find_max_version_tag") if x.kind == "assoc"]
    if rep.anchor("R10.5", "GitUtils::find_max_version_tag", fm):
        fm = fm[0]; rep.fn_seen(fm)
        import tables as _tb
        shape, det = _tb.max_choice_shape(F, fm)
        if shape == "fixed-compare": rep.bad("R10.5", "not-running-max", "find_max_version_tag compares each tag with a fixed element instead of the greatest one so far (%s): with three or more tags on a commit the result is not the greatest tag" % det, fm.where())
        elif shape == "unknown": rep.undecided("R10.5", "tag-choice-shape", "how find_max_version_tag picks the greatest tag is not recognised (%s)" % det, fm.where())
        else:
            reach2 = cg.closure([fm.path], generic=False)
            if f.path in reach2: rep.ok("R10.5", "the greatest tag is chosen (%s) with a comparator that reaches <SemVer as Ord>::cmp" % shape, nontrivial_key="maxby")
            else: rep.bad("R10.5", "max-by-other-order", "the comparator used to choose the greatest tag does not reach <SemVer as Ord>::cmp", fm.where())
        tag_choice_rule(F, rep, cg, fm, "R10.5", "SemVer", "build_metadata")
    # ---- R10.8 a tag name stays paired with the version parsed from it -------------------------------------------------------------
    npair = 0; nbad = 0
    for p_, g_ in sorted(F.fns.items()):
        if not ("crate::version::version_object::" in p_ or "crate::vcs::git_utils::" in p_) or "::tests" in p_: continue
        for bi, t in g_.calls():
            c_ = mir.callee(t) or ""
            if not (c_.endswith("Iterator>::zip") or c_.endswith("Iterator::zip")) or len(t[2]) < 2: continue
            npair += 1
            thin = set()
            for a_ in t[2][:2]:
                for k, d in mir.deep_origins(g_, a_, stop=()):
                    if k == "call" and d.isdigit() and g_.blocks[int(d)]["t"][0] == "call":
                        nm = (mir.callee(g_.blocks[int(d)]["t"]) or "").rsplit("::", 1)[-1]
                        if nm in ("flatten", "filter", "filter_map", "skip_while", "take_while", "flat_map", "dedup", "retain", "skip", "step_by"): thin.add(nm)
            site = "%s bb%d line %s" % (g_.where(), bi, g_.blocks[bi]["line"])
            if thin:
                nbad += 1
                rep.bad("R10.8", "pairing-after-filter:" + p_.replace("crate::", "").rsplit("::", 1)[-1], "tag names are zipped with a list of parsed versions that went through %s: after the first tag that does not parse, names and versions are out of step, and the tag reported as greatest is not the greatest one" % sorted(thin), site)
    if not nbad: rep.ok("R10.8", "names and parsed versions are paired element by element before any filtering (%d zip sites examined; pairs are built inside the per-tag closure)" % npair, nontrivial_key="pairing")
    # ---- R10.6 what the comparator sees: numeric identifiers are classified on their full u64 range ---------------
    import parsers
    parsers.numeric_classification(F, rep, "R10.6", "crate::version::semver::parser::", ("PreReleaseIdentifier",), floor=1)
    core.borrow(F, rep, "c08", "C08", "R10.6", ("R08.4:const-fallback", "R08.4:discarded-error"), "a number too large for u64 is rejected by the parser, not replaced by another number (distinct versions would compare equal)")
    rep.extra["abstract_assignments_evaluated"] = evals
    return core.finish(rep, explanation=EXPL, assumptions=ASSUME, trusted=TRUST)

def tag_choice_rule(F, rep, cg, fm, rule, tyname, ignored_field):
    """The greatest tag is chosen among the versions as parsed: the choice (find_max_version_tag and what it calls in crate::vcs) neither
    looks at a part of the version outside the order (SemVer build metadata), nor compares rebuilt / modified copies of the versions."""
    scope = [F.fns[p] for p in cg.closure([fm.path], generic=False) if p in F.fns and p.startswith("crate::vcs::")]
    scope += [c_ for g_ in list(scope) for c_ in F.children(g_.path)]
    seen = set(); n_bad = 0
    for h in scope:
        if h.path in seen: continue
        seen.add(h.path); rep.fn_seen(h)
        for bi, si, st in h.stmts():
            txt = str(st)
            site = "%s bb%d line %s" % (h.where(), bi, h.blocks[bi]["line"])
            if ("'%s'" % ignored_field) in txt and ("::%s'" % tyname) in txt:
                n_bad += 1
                rep.bad(rule, "tag-choice-reads-%s:%s" % (ignored_field, h.path.replace("crate::", "").rsplit("::", 1)[-1]), "the choice of the greatest tag looks at %s.%s: the tag chosen then differs from the greatest one in the version order (v1.0.0 wins over v1.0.1+build.7)" % (tyname, ignored_field), site)
            if st[0] == "=" and st[2][0] == "agg" and isinstance(st[2][1], dict) and st[2][1].get("k") == "adt" and str(st[2][1].get("adt")).endswith("::" + tyname):
                n_bad += 1
                rep.bad(rule, "tag-choice-rebuilds-version:%s:%s" % (tyname, h.path.replace("crate::", "").rsplit("::", 1)[-1]), "the choice of the greatest tag compares %s values it builds itself instead of the parsed versions: part of the comparison key is dropped or changed before <%s as Ord>::cmp sees it" % (tyname, tyname), site)
            if st[0] == "=" and len(st[1]) > 1 and any(not isinstance(e, str) and e[0] == "f" and str(e[3]).endswith("::" + tyname) for e in st[1][1:]):
                n_bad += 1
                rep.bad(rule, "tag-choice-modifies-version:%s:%s" % (tyname, h.path.replace("crate::", "").rsplit("::", 1)[-1]), "the choice of the greatest tag writes to a field of a %s before comparing" % tyname, site)
    if not n_bad: rep.ok(rule, "the tag choice (%d functions of crate::vcs) compares the parsed %s values as they are: no read of .%s, no rebuilt or modified version" % (len(seen), tyname, ignored_field), nontrivial_key="tagchoice" + tyname)

def big_numeric_rule(F, rep, g, pred_name):
    """R10.7: PreReleaseIdentifier::UInt holds a u64.  Where the parser keeps a longer digit run as text (Str) the comparator must still
    treat it as a number: by value among its kind, above every UInt, below every alphanumeric identifier.  A plain text comparison
    orders 1.0.0-100000000000000000000 below 1.0.0-99999999999999999999 and 1.0.0-99999999999999999999 above 1.0.0--x."""
    import parsers as _ps
    rule = "R10.7"
    producers = []
    for p_, g_ in F.fns.items():
        if not p_.startswith("crate::version::semver::parser::"): continue
        sites = [bi for bi, t in g_.calls() if any(a[0] == "c" and a[1].get("k") == "fn" and str(a[1].get("path")).endswith("PreReleaseIdentifier::Str") for a in t[2])]
        sites += [bi for bi, si, st in g_.stmts() if st[0] == "=" and st[2][0] == "agg" and isinstance(st[2][1], dict) and st[2][1].get("k") == "adt" and (st[2][1].get("adt") or "").endswith("PreReleaseIdentifier") and st[2][1].get("variant") == "Str"]
        for bi in sorted(set(sites)):
            g2, b2 = g_, bi
            for _ in range(4):
                try: paths = [pp for pp in mir.enum_paths(g2, limit=5000, stop_blocks=[b2]) if pp[-1] == b2]
                except mir.TooManyPaths: break
                if any(any(m == "all" and tr and pr == "is_ascii_digit" for m, c_, tr, pr in f_) for pp in paths for f_ in _ps.path_facts(F, g2, pp)):
                    producers.append("%s bb%d line %s" % (g_.where(), bi, g_.blocks[bi]["line"])); break
                par = F.fn(g2.parent) if g2.kind == "closure" and g2.parent else None
                if par is None: break
                made = [b3 for b3, s3, st in par.stmts() if st[0] == "=" and st[2][0] == "agg" and isinstance(st[2][1], dict) and st[2][1].get("k") == "closure" and st[2][1]["path"] == g2.path]
                if not made: break
                g2, b2 = par, made[0]
    if not producers:
        rep.ok(rule, "the SemVer parser never stores an all-digit pre-release identifier as text", nontrivial_key="bignum-none"); return
    if pred_name is None:
        rep.bad(rule, "big-numeric-identifier-as-text", "the parser keeps an all-digit pre-release identifier that does not fit u64 as text (%s) and <PreReleaseIdentifier as Ord>::cmp compares text identifiers as plain strings: 1.0.0-100000000000000000000 orders below 1.0.0-99999999999999999999, and 1.0.0-99999999999999999999 above 1.0.0--x (numeric identifiers compare by value and below alphanumeric ones)" % producers[0], g.where())
        return
    cgl = mir.CallGraph(F)
    cands = [F.fn(p_) for p_ in cgl.closure([g.path], generic=False) if F.fn(p_) is not None and p_.rsplit("::", 1)[-1] == pred_name]
    if not cands:
        rep.undecided(rule, "numeric-text-test", "the comparator's test %s for a numeric text identifier was not found" % pred_name, g.where()); return
    h = cands[0]; rep.fn_seen(h)
    scope = [h] + F.children(h.path)
    preds = [_ps.closure_pred_name(F, x, t[2][1]) for x in scope for bi, t in x.calls() if (mir.callee(t) or "").endswith("::all") and len(t[2]) > 1]
    anyp = [1 for x in scope for bi, t in x.calls() if (mir.callee(t) or "").endswith("::any")]
    other = sorted({(mir.callee(t) or "?").rsplit("::", 1)[-1] for x in scope for bi, t in x.calls()} - {"all", "bytes", "chars", "len", "is_empty", "starts_with", "eq", "ne", "gt", "ge", "lt", "le", "cmp", "partial_cmp", "as_bytes", "deref", "is_ascii_digit", "into_iter", "iter"})
    if preds != ["is_ascii_digit"] or anyp:
        rep.bad(rule, "numeric-text-test:" + pred_name, "the comparator's test for a numeric text identifier does not require `all ASCII digits` (all-predicates %s, any-predicates %d): alphanumeric identifiers would be ordered as numbers" % (preds, len(anyp)), h.where())
    elif other:
        rep.undecided(rule, "numeric-text-test:" + pred_name, "the test also calls %s, whose effect is not evaluated" % other, h.where())
    else:
        rep.ok(rule, "%s requires all ASCII digits (further conjuncts: length / magnitude against u64::MAX, no leading zero); digit runs kept as text (%d site(s)) meet a comparator that orders them as numbers (table: R10.2)" % (pred_name, len(producers)), nontrivial_key="bignum")

def adapt_delegate(c, specs):
    """if the (Some,Some) arm delegates to <[T] as Ord>::cmp / Vec::cmp instead of the local helper, use that atom key"""
    out = list(specs)
    return out

def delegate_rule(F, rep, c):
    """the list comparison is SliceLex(element cmp, then length)"""
    import cmpterm as ct
    keys = [k for k in c.atoms if "pre_release#Some.0" in k]
    if not keys:
        rep.bad("R10.1", "no-list-stage", "no comparison of the two pre-release identifier lists found", c.fn.where()); return
    callee = c.atoms[keys[0]]
    h = F.fn(callee)
    if h is None:
        if "Ord for [" in callee or "Vec<T, A>" in callee or "Ord<Vec" in keys[0] or "slice" in callee:
            rep.ok("R10.1", "identifier lists compared by the std slice order (element-wise, then length)", nontrivial_key="slice")
        else:
            rep.bad("R10.1", "list-order", "identifier lists are compared by %s" % callee, c.fn.where())
        return
    rep.fn_seen(h)
    try:
        sl = ct.slice_lex(F, h)
    except ct.Mismatch as e:
        rep.bad("R10.1", "list-order:" + h.path.rsplit("::", 1)[-1], "identifier list comparison is not 'left to right, then shorter is lower': %s" % e, h.where()); return
    except ct.Unrecognised as e:
        rep.undecided("R10.1", "unrecognised-shape:" + h.path.rsplit("::", 1)[-1], "list comparison %s: %s" % (h.path, e), h.where()); return
    want_elem = "impl std::cmp::Ord for crate::version::semver::core::PreReleaseIdentifier"
    bound_ok = sl["bound"] and sl["bound"][0] == "range_item" and sl["bound"][1] == ("const", 0) and sl["bound"][2][0] == "min" and \
        sorted(map(str, sl["bound"][2][1])) == sorted(map(str, [("len", "param(left)"), ("len", "param(right)")])) or \
        (sl["bound"] and sl["bound"][0] == "range_item" and sl["bound"][1] == ("const", 0) and sl["bound"][2][0] == "min" and all(x[0] == "len" for x in sl["bound"][2][1]) and len({x[1] for x in sl["bound"][2][1]}) == 2)
    probs = []
    if want_elem not in sl["elem"]: probs.append("elements compared with %s" % sl["elem"])
    if not sl["in_loop_return"]: probs.append("a non-Equal element comparison is not returned")
    if sl["tail"] != "len": probs.append("after a common prefix the lengths are not compared left-to-right (shorter list lower)")
    if not bound_ok: probs.append("the loop does not run over 0..min(len left, len right): %s" % (sl["bound"],))
    if sl["const_returns"]: probs.append("returns constants %s" % sl["const_returns"])
    if probs: rep.bad("R10.1", "list-order:" + h.path.rsplit("::", 1)[-1], "identifier list comparison is not 'left to right, then shorter is lower': " + "; ".join(probs), h.where())
    else: rep.ok("R10.1", "%s = SliceLex(PreReleaseIdentifier::cmp over 0..min(len), then len(left) cmp len(right))" % h.path.rsplit("::", 1)[-1], sample=str(sl), nontrivial_key="slicelex")

EXPL = ("The comparator is decided as a term, not sampled: <SemVer as Ord>::cmp is flattened into lexicographic stages (then_with chains, closures inlined from their own MIR and captured variables); "
        "each stage is a decision table over Option/enum discriminants and primitive comparison atoms cmp(self.f, other.f); every stage is evaluated against the SemVer 2.0.0 reference on ALL assignments of "
        "abstract outcomes (values are touched only through comparisons, so {Less,Equal,Greater} x discriminants is the complete input space of a stage), including orientation (self before other) and the callee of each atom. "
        "The identifier-list loop is recognised as SliceLex(element cmp over 0..min(len), then length). Build metadata is never read in the comparison closure; eq is cmp == Equal and partial_cmp is Some(cmp); "
        "tag selection reaches this cmp. Lexicographic composition of total preorders on projections with total option/enum tables is a total preorder (standard lemma), so totality/antisymmetry/transitivity follow for all versions.")
ASSUME = ["u64::cmp, String::cmp and Ordering::then_with have their std semantics"]
TRUST = ["rustc MIR", "zfacts", "rules/cmpterm.py (path enumeration + symbolic evaluation), c10.py"]
