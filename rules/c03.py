"""C03 - flow versions sort consistently with history (necessary conditions only; the order law itself is a value law).
R03.1 guards vanish at a clean tag; R03.2 patch bump => pre-release label; R03.3 bumped => printed; R03.4 post grows with distance."""
import itertools
import core, mir, flowtpl, tables, c04

def check(F, rep, tier):
    tab = c04.template_table(F, rep, "R03.1")
    if tab is None:
        return core.finish(rep, explanation=EXPL)
    guards = {}
    for (nm, mode, sub), (cond, content, holes, conds) in tab.items():
        guards[(nm, mode, sub)] = cond
        try:
            ok, cex = flowtpl.implies(cond, "dirty or distance")
        except Exception as e:
            rep.undecided("R03.1", "unrecognised-shape:cond:" + nm, "cannot parse guard %r: %s" % (cond, e), None); continue
        if ok: rep.ok("R03.1", "%s[%s%s]: `%s` implies `dirty or distance` (nothing is bumped at a clean tag)" % (nm, mode, "," + sub if sub else "", cond), nontrivial_key="%s%s%s" % (nm, mode, sub))
        else: rep.bad("R03.1", "bump-at-clean-tag:%s[%s]" % (nm, mode), "%s can bump at a clean checkout exactly at the tag: guard `%s` is true for %s" % (nm, cond, cex), None)
    rep.floor("R03.1", "bump guards examined", len(guards), 8)
    # ---- R03.2 ----------------------------------------------------------------------------------------
    gp = guards.get(("bump_patch", "*", "")); gl = guards.get(("bump_pre_release_label", "*", ""))
    if gp and gl:
        ok, cex = flowtpl.implies(gp, gl)
        if ok: rep.ok("R03.2", "a patch bump always comes with a pre-release label: `%s` implies `%s`" % (gp, gl), nontrivial_key="p=>l")
        else: rep.bad("R03.2", "patch-without-label", "patch can be bumped while no pre-release label is added (at %s): the result would be the NEXT release X.Y.(Z+1) itself, not below it" % cex, None)
    rf = F.fn("crate::cli::flow::pipeline::run_flow_pipeline")
    if rep.anchor("R03.2", "run_flow_pipeline", rf):
        rep.fn_seen(rf)
        dom = mir.dominators(rf)
        va = [bi for bi, t in rf.calls() if (mir.callee(t) or "").endswith("FlowArgs>::validate")]
        cb = [bi for bi, t in rf.calls() if (mir.callee(t) or "").endswith("create_bumped_version_args")]
        if va and cb and all(any(v in dom.get(c, ()) for v in va) for c in cb):
            # and its error is propagated (success edge)
            rep.ok("R03.2", "validate() (which defaults the label) dominates create_bumped_version_args", nontrivial_key="order")
        else: rep.bad("R03.2", "bumps-before-validate", "create_bumped_version_args is not dominated by FlowArgs::validate (label default / branch rules not applied yet)", rf.where())
    vl = [x for x in F.find("FlowArgs>::validate_pre_release_label") if x.kind == "assoc"]
    if rep.anchor("R03.2", "FlowArgs::validate_pre_release_label", vl):
        f = vl[0]; rep.fn_seen(f)
        good = False
        for bi, si, st in f.stmts():
            if st[0] == "=" and len(st[1]) > 1 and st[1][0] == 1:
                fl = [e[2] for e in st[1][1:] if not isinstance(e, str) and e[0] == "f"]
                if fl[-1:] == ["pre_release_label"]:
                    if any(d[0] == "call" and (d[1] or "").endswith("::is_none") and pol is True for d, pol, dd in mir.guards_of(f, bi)): good = True
        if not good:
            # `label.get_or_insert_with(|| default)` / `label = label.or(Some(default))`
            for bi, t in f.calls():
                c = mir.callee(t) or ""
                if c.endswith("Option::<T>::get_or_insert_with") or c.endswith("Option::<T>::get_or_insert") or c.endswith("Option::<T>::insert"):
                    if any(o.fields()[-1:] == ["pre_release_label"] for o in mir.trace_op(f, t[2][0])): good = True
            for bi, si, st in f.stmts():
                if st[0] == "=" and len(st[1]) > 1 and st[1][0] == 1 and [e[2] for e in st[1][1:] if not isinstance(e, str) and e[0] == "f"][-1:] == ["pre_release_label"] and st[2][0] == "use":
                    if any(o.kind == "call" and any((mir.callee(f.blocks[o.data]["t"]) or "").endswith(x) for x in ("Option::<T>::or", "Option::<T>::or_else")) for o in mir.trace_op(f, st[2][1], transparent=())): good = True
        if good: rep.ok("R03.2", "the label defaults to a value when neither flag nor rule gave one", nontrivial_key="default")
        else: rep.bad("R03.2", "no-label-default", "validate_pre_release_label no longer assigns a default label", f.where())
    lb = c04.bump_fn(F, "bump_pre_release_label")
    if lb is not None:
        # Some(..) exactly when the label is Some: Option::map over branch_config.pre_release_label
        if any((mir.callee(t) or "").endswith("Option::<T>::map") for bi, t in lb.calls()): rep.ok("R03.2", "bump_pre_release_label is Some whenever the label is set")
        else: rep.bad("R03.2", "label-bump-shape", "bump_pre_release_label does not map over the configured label", lb.where())
    # ---- R03.3 bumped => printed ---------------------------------------------------------------------------
    ts = tables.smart_tiers(F, rep, "R03.3")
    od = [x for x in F.find("FlowArgs>::override_dirty") if x.kind == "assoc"]
    odt = None
    if rep.anchor("R03.3", "FlowArgs::override_dirty", od):
        odt = override_dirty_table(F, od[0])
        if odt is None:
            # the path-condition reader does not know this spelling: fall back to the abstract evaluation (known dirty state / distance)
            full, _ = c04.override_dirty_full_table(F, od[0])
            if full is not None and all(k[0] is not None for k in full):
                odt = {(tag, fd, fnd, cd, ds == "pos"): v for (tag, fd, fnd, cd, ds), v in full.items() if cd is not None and ds is not None}
        if odt is None: rep.undecided("R03.3", "unrecognised-shape:override_dirty", "cannot extract the override_dirty decision table", od[0].where())
        else: rep.fn_seen(od[0])
    if ts is not None and odt is not None:
        printed = {"standard_base_schema": set(), "standard_base_prerelease_schema": {"pre"}, "standard_base_prerelease_post_schema": {"pre", "post"}, "standard_base_prerelease_post_dev_schema": {"pre", "post", "dev"}}
        n = 0; bad = []
        for mode in ("commit", "tag"):
            for dirty, distance, tag_pre, tag_post in itertools.product((False, True), repeat=4):
                for flag_dirty, flag_no_dirty in ((False, False), (True, False), (False, True)):
                    a = {"dirty": dirty, "distance": distance, "pre_release": tag_pre}
                    bumped = set()
                    if flowtpl.ev(flowtpl.parse_cond(guards[("bump_pre_release_label", "*", "")]), a): bumped.add("pre")
                    if flowtpl.ev(flowtpl.parse_cond(guards[("bump_post", mode, "")]), a): bumped.add("post")
                    if flowtpl.ev(flowtpl.parse_cond(guards[("bump_dev", mode, "")]), a): bumped.add("dev")
                    # the state the tier sees in the second pass
                    eff_dirty = odt.get((mode == "tag", flag_dirty, flag_no_dirty, dirty, distance))
                    if eff_dirty is None: continue
                    # --dirty / --no-dirty flags: the user's explicit override decides what `dirty` means for both passes
                    if flag_dirty and not dirty: continue
                    if flag_no_dirty and dirty: continue
                    pre = tag_pre or "pre" in bumped
                    post = tag_post or "post" in bumped
                    tier = ts[(eff_dirty or (dirty and not flag_no_dirty), distance, pre, post)][0]
                    n += 1
                    # what the order laws need to be visible: the pre-release label whenever it is bumped (else a patch bump
                    # would render as X.Y.(Z+1) itself), and in commit mode the post number (else more commits render equal).
                    # The dev timestamp is not needed for either law (tag mode renders equal distances equal by design).
                    required = {c for c in bumped if c == "pre" or (c == "post" and mode == "commit")}
                    missing = required - printed.get(tier, set())
                    if missing: bad.append(({"mode": mode, "dirty": dirty, "distance": distance, "tag_has_pre": tag_pre, "tag_has_post": tag_post, "--dirty": flag_dirty, "--no-dirty": flag_no_dirty}, sorted(missing), tier))
        if bad: rep.bad("R03.3", "bumped-not-printed", "a component that flow bumps is not part of the tier the smart schema selects, so two different states render the same version: %s" % bad[:2], None)
        else: rep.ok("R03.3", "every bumped component is printed by the selected tier in all %d (mode, dirty, distance, tag shape, flag) cases" % n, nontrivial_key="printed")
        rep.extra["tier_cases"] = n
    # ---- R03.4 ------------------------------------------------------------------------------------------------
    pc = tab.get(("bump_post", "commit", ""))
    if pc and pc[1].strip() == "{{ distance }}": rep.ok("R03.4", "commit mode bumps post by {{ distance }}", nontrivial_key="postdist")
    else: rep.bad("R03.4", "post-not-distance", "commit-mode post bump is %r, expected {{ distance }}" % (pc[1] if pc else None), None)
    pp = [x for x in F.find("<impl crate::version::zerv::core::Zerv>::process_post") if "bump::vars_secondary" in x.path]
    if rep.anchor("R03.4", "Zerv::process_post", pp):
        f = pp[0]; rep.fn_seen(f)
        f = mir.inlined(F, f, depth=2, keep=("checked_bump", "reset_lower_precedence_components"))      # a shared override-then-bump helper is seen through
        adds = any((mir.callee(t) or "").endswith("checked_bump") for bi, t in f.calls())
        src_old = any((mir.callee(t) or "").endswith("checked_bump") and any("post" in o.path_str() for o in mir.trace_op(f, t[2][0], transparent=mir.TRANSPARENT + ("Option::<T>::unwrap_or",))) for bi, t in f.calls())
        if adds and src_old: rep.ok("R03.4", "process_post ADDS the bump to the tag's post (old + amount)", nontrivial_key="adds")
        else: rep.bad("R03.4", "post-assigned", "process_post does not add the bump amount to the existing post value", f.where())
    # ---- R03.6 dependencies on the git layer and on the numeric width of the SemVer renderer ------------------------------------
    # strict growth with distance needs `distance` to count every commit in <tag>..HEAD; V > X.Y.Z for an uncommitted change needs
    # `dirty` to see every kind of change; exactly X.Y.Z at the tag needs the renderer to keep 64-bit core numbers.
    core.borrow(F, rep, "c02", "C02", "R03.6", ("argv:calculate_distance#0", "distance-range"), "distance counts all commits after the tag")
    core.borrow(F, rep, "c02", "C02", "R03.6", ("argv:is_dirty#0", "error-swallowed:is_dirty", "dirty-polarity"), "dirty sees staged, unstaged, untracked and submodule changes, and a failing `git status` is not read as clean")
    core.borrow(F, rep, "c02", "C02", "R03.6", ("not-first-hit", "walk-source", "no-membership-filter", "argv:get_commits_in_topo_order", "argv:get_all_tags_from_commit_hash", "max-by", "error-swallowed:get_latest_tag"), "the base tag is the highest valid tag on the nearest tagged ancestor")
    core.borrow(F, rep, "c02", "C02", "R03.6", ("wiring:distance", "wiring:dirty", "wiring:bumped_branch", "producer:distance", "producer:is_dirty", "producer:current_branch"), "distance, dirty and branch reach the version unchanged")
    core.borrow(F, rep, "c07", "C07", "R03.6", ("narrowing-parse:",), "SemVer rendering keeps 64-bit core numbers")
    core.borrow(F, rep, "c05", "C05", "R03.6", ("R05.13:tag-override-keeps-detected",), "a base tag given with --tag-version is the whole base version (a final tag stays final)")
    core.borrow(F, rep, "c04", "C04", "R03.6", ("R04.7:dirty-or-ahead",), "the dirty flag handed to the second pipeline run is the explicit flag, else tag mode and (dirty or ahead): an unknown dirty state at a clean tag does not bump")
    core.borrow(F, rep, "c18", "C18", "R03.6", ("R18.3:",), "the Python wrapper passes 0 as a value (distance=0 is the tag itself)")
    core.borrow(F, rep, "c02", "C02", "R03.6", ("R02.7:root-test",), "the facts are read from the repository the command runs in (worktrees, submodules)")
    core.borrow(F, rep, "c01", "C01", "R03.6", ("R01.1:non-ascii-class", "R01.1:char-class"), "branch names of any alphabet are reduced to ASCII identifiers, so the output is a version the order is defined on")
    return core.finish(rep, explanation=EXPL, assumptions=ASSUME, trusted=TRUST)

def override_dirty_table(F, f):
    """{(tag_mode, flag_dirty, flag_no_dirty, cur_dirty, ahead): bool}"""
    rows = []
    for p in mir.enum_paths(f, limit=5000):
        if f.blocks[p[-1]]["t"][0] != "ret": continue
        sp = mir.SymPath(f, p)
        conds = {}
        for d, (rel, vals), b in sp.conds:
            txt = mir.show(d)
            truth = not ((rel == "eq" and 0 in vals) or (rel == "ne" and 0 not in vals))
            if "no_dirty" in txt: k = "flag_no_dirty"
            elif "common.dirty" in txt or txt.endswith(".dirty"): k = "flag_dirty"
            elif "post_mode" in txt: k = "tag"
            elif txt.startswith("eq(") and "p2" in txt: k = "cur_dirty"
            elif "Gt(" in txt and "p3" in txt: k = "ahead"
            else: return None
            if k in conds and conds[k] != truth: conds = None; break
            conds[k] = truth
        if conds is None: continue
        r = sp.ret()
        if r[0] == "const": val = bool(r[1])
        elif "dirty" in mir.show(r): val = "flag_dirty"
        else: return None
        rows.append((conds, val))
    tab = {}
    for tag, fd, fnd, cd, ah in itertools.product((False, True), repeat=5):
        a = {"tag": tag, "flag_dirty": fd, "flag_no_dirty": fnd, "cur_dirty": cd, "ahead": ah}
        hits = {v for c, v in rows if all(a[k] == t for k, t in c.items())}
        if len(hits) != 1: return None
        v = hits.pop()
        tab[(tag, fd, fnd, cd, ah)] = a["flag_dirty"] if v == "flag_dirty" else v
    return tab

EXPL = ("The law X.Y.Z < V < X.Y.(Z+1) and strict growth with distance are relations between runtime values judged by a comparator; they are NOT decided. Decided are four necessary conditions whose truth is in the shape of the code: "
        "(R03.1) every flow bump guard, as reconstructed from the constant Tera templates, implies `dirty or distance` by truth table, so nothing is bumped at a clean tag; (R03.2) the patch guard implies the label guard and the label is defaulted by "
        "validate(), which dominates the construction of the bump arguments, so a patch bump always carries a pre-release label (needed for V < X.Y.(Z+1)); (R03.3) for every combination of mode, dirty, distance, tag shape and dirty flags, "
        "each bumped component the order laws depend on (pre-release label always, post in commit mode) is contained in the tier the smart schema's extracted decision tree selects, using the extracted override_dirty table (an unprinted bump would make two states render equal); "
        "(R03.4) commit-mode post is bumped by {{ distance }} and process_post adds to the tag's post.")
ASSUME = ["Tera truthiness: 0, None and false are falsy"]
TRUST = ["rustc MIR", "zfacts", "rules/flowtpl.py, tables.py, c03.py"]
