"""C13 - zerv fails cleanly: never panics, never prints a result on failure.
R13.1 panic-site inventory with machine-checked discharges (panics.py + the audited table below);
R13.2 stdout who-may-call; R13.3 write-after-success; R13.4 exit path; R13.5 logging to stderr; R13.6 git error discipline."""
import re
import core, mir, panics, rx, clapx

ROOT = "crate::cli::app::run"
RWA = "crate::cli::app::run_with_args"

# ---------------------------------------------------------------------------
# audited sites: key suffix -> (why, requires-predicate).  The predicate re-checks the structural facts the
# argument rests on against the CURRENT tree; if it fails the site is reported as a violation ("audit stale").

def q_guarded_validator(F, cg, rep):
    """a validator that rejects --dirty together with --no-dirty exists and dominates the use in the version pipeline"""
    vals = []
    for f in F.fns.values():
        for bi, si, st in f.stmts():
            if st[0] == "=" and st[2][0] == "agg" and st[2][1].get("variant") == "ConflictingOptions":
                names = set()
                for desc, pol, d in mir.guards_of(f, bi):
                    pl = None
                    if desc[0] == "place": pl = desc[1]
                    if pl is not None and pol is True:
                        fs = [e[2] for e in pl[1:] if not isinstance(e, str) and e[0] == "f"]
                        if fs: names.add(fs[-1])
                if {"dirty", "no_dirty"} <= names: vals.append(f.path)
    if not vals: return False, "no validator rejects dirty && no_dirty with ConflictingOptions"
    e = F.fn("crate::cli::version::pipeline::run_version_pipeline")
    if e is None: return False, "run_version_pipeline missing"
    dom = mir.dominators(e)
    a_blocks = []; b_blocks = []
    for bi, t in e.calls():
        c = mir.callee(t) or ""
        if c in F.fns:
            cl = cg.closure([c], generic=False)
            if any(v in cl for v in vals): a_blocks.append(bi)
            if any(p.endswith("CommonOverridesConfig::dirty_override") for p in cl): b_blocks.append(bi)
    if not a_blocks or not b_blocks: return False, "validator call (%s) or user call (%s) not found in run_version_pipeline" % (a_blocks, b_blocks)
    ok = all(any(a in dom.get(b, ()) for a in a_blocks) for b in b_blocks)
    return ok, "validators %s; validate@bb%s dominates use@bb%s" % ([v.rsplit("::", 2)[-2:] for v in vals], a_blocks, b_blocks)

def q_post_mode_domain(F, cg, rep):
    f = [x for x in F.find("FlowArgs>::bump_post") if x.kind == "assoc"]
    if not f: return False, "bump_post missing"
    f = f[0]
    arms = set()
    for bi, t in f.calls():
        if "PartialEq" in (t[1].get("full") or "") and "str" in (t[1].get("full") or ""):
            for a in t[2]:
                v = mir.const_arg(f, a)
                if isinstance(v, str): arms.add(v)
    vm = F.fn("crate::utils::constants::post_modes::VALID_MODES")
    dom = set(clapx.const_str_array(F, vm, ["cp", [0]]) or []) if vm else set()
    disp = set()
    for g in F.find("PostMode>::fmt") + F.find("PostMode as std::fmt::Display>::fmt"):
        for b2, pieces in mir.fmt_templates(g):
            for p in pieces:
                if isinstance(p, str): disp.add(p)
        for bi, si, st in g.stmts():
            if st[0] == "=" and st[2][0] == "use" and st[2][1][0] == "c" and st[2][1][1].get("k") == "str": disp.add(st[2][1][1]["v"])
    if not dom: return False, "VALID_MODES not found"
    ok = dom <= arms and disp <= arms | {""}
    return ok, "match arms %s cover clap domain %s and PostMode spellings %s" % (sorted(arms), sorted(dom), sorted(disp))

def q_unwrap_in_map(F, cg, rep):
    c = [x for x in F.find("BranchRules::resolve_for_branch::{closure#1}")]
    p = F.fn("crate::cli::flow::branch_rules::BranchRules::resolve_for_branch")
    if not c or p is None: return False, "anchor missing"
    c = c[0]
    # the closure unwraps its captured `branch_name`
    ok_un = False
    for bi, t in c.calls():
        if (mir.callee(t) or "").endswith("Option::<T>::unwrap"):
            for o in mir.trace_op(c, t[2][0]):
                if o.kind == "upvar":
                    r = mir.resolve_upvar(F, o)
                    if r and all(x.kind == "param" and x.data == 2 and not x.fields() for x in mir.trace_op(r[0], r[1])): ok_un = True
    # and is the argument of Option::map applied to and_then(branch_name, ..)
    ok_map = False
    for bi, t in p.calls():
        if (mir.callee(t) or "").endswith("Option::<T>::map"):
            is_c = any(o.kind == "agg" and mir.rv_at(p, *o.data)[1].get("path") == c.path for o in mir.trace_op(p, t[2][1], transparent=()))
            if is_c:
                for o in mir.trace_op(p, t[2][0], transparent=()):
                    if o.kind == "call" and (mir.callee(p.blocks[o.data]["t"]) or "").endswith("Option::<T>::and_then"):
                        rec = mir.trace_op(p, p.blocks[o.data]["t"][2][0], transparent=())
                        if all(x.kind == "param" and x.data == 2 for x in rec): ok_map = True
    return ok_un and ok_map, "closure unwraps the same Option that and_then already found to be Some (unwrap=%s, map-after-and_then=%s)" % (ok_un, ok_map)

def enum_arms(f):
    """(explicit variant names, all variant names) of the first switch on discriminant(*self)"""
    for bi, b in enumerate(f.blocks):
        t = b["t"]
        if t[0] == "switch":
            desc = mir.describe_discr(f, bi)
            if desc[0] == "discr" and desc[1][0] == 1:
                vm = {v: n for v, n in desc[3]}
                return {vm.get(v, str(v)) for v, tb in t[2]}, set(vm.values()), bi
    return None, None, None

def q_preset_coverage(F, cg, rep):
    s = F.fn("crate::schema::presets::ZervSchemaPreset::schema")
    w = F.fn("crate::schema::presets::ZervSchemaPreset::schema_with_zerv")
    if s is None or w is None: return False, "anchor missing"
    a, allv, _ = enum_arms(s); b, _, wb = enum_arms(w)
    if a is None or b is None: return False, "no discriminant switch"
    callers = [(g.path, bi) for g, bi in cg.sites.get(s.path, [])]
    # a caller that names the variant itself (`ZervSchemaPreset::CalverBase.schema()`) is fine when schema() handles that variant
    def const_handled(pth, bi):
        g_ = F.fn(pth)
        if g_ is None: return False
        t_ = g_.blocks[bi]["t"]
        vs = set()
        for o in mir.trace_op(g_, t_[2][0], transparent=mir.TRANSPARENT):
            if o.kind == "agg":
                rv = mir.rv_at(o.fn, *o.data)
                if (rv[1].get("adt") or "").endswith("ZervSchemaPreset") and not rv[2]: vs.add(rv[1].get("variant")); continue
            if o.kind == "const" and isinstance(o.data, dict) and o.data.get("k") == "variant": vs.add(o.data.get("v")); continue
            return False
        return bool(vs) and vs <= a
    callers = [(p, bi) for p, bi in callers if not const_handled(p, bi)]
    only_w = all(p == w.path for p, _ in callers)
    # in schema_with_zerv the call must sit on the otherwise edge of the switch
    t = w.blocks[wb]["t"]
    on_default = all(bi in mir.reachable(w, t[3]) and not any(bi in mir.reachable(w, tb) for v, tb in t[2] if tb != t[3]) for p, bi in callers)
    ok = (a | b) >= allv and only_w and on_default
    return ok, "schema() handles %d variants, schema_with_zerv %d, union %d of %d; only caller is schema_with_zerv's default arm: %s/%s" % (len(a), len(b), len(a | b), len(allv), only_w, on_default)

def q_callers_constant(target_suffix, argidx):
    def q(F, cg, rep):
        f = [x for x in F.find(target_suffix) if x.path.endswith(target_suffix)]
        if not f: return False, "anchor missing"
        f = f[0]
        sites = cg.sites.get(f.path, [])
        if not sites: return False, "no callers"
        bad = []
        for g, bi in sites:
            a = g.blocks[bi]["t"][2][argidx]
            if not indep_with_callers(F, cg, g, a, 0): bad.append(g.path)
        return not bad, "all %d callers pass a schema built from constants only%s" % (len(sites), (" except " + str(bad)) if bad else "")
    return q

def indep_with_callers(F, cg, g, op, depth):
    if panics.input_independent(F, g, op): return True
    if depth > 3: return False
    # parameters: every caller must pass a constant
    os = mir.trace_op(g, op, transparent=())
    for o in os:
        if o.kind == "param":
            sites = cg.sites.get(o.fn.path, [])
            if not sites or not all(indep_with_callers(F, cg, h, h.blocks[b]["t"][2][o.data - 1], depth + 1) for h, b in sites): return False
        elif o.kind == "call":
            t = o.fn.blocks[o.data]["t"]
            if panics.effectful(F, mir.callee(t) or ""): return False
            if not all(indep_with_callers(F, cg, o.fn, a, depth + 1) for a in t[2]): return False
        elif o.kind == "const": continue
        else: return False
    return True

def q_local_sanitized(F, cg, rep):
    f = [x for x in F.find("PEP440>::add_flattened_to_local")]
    if not f: return False, "anchor missing"
    f = f[0]
    # the unwrap's argument is try_new_str(to_string(item of split(value, '.')))
    ok_chain = False
    for bi, t in f.calls():
        if (mir.callee(t) or "").endswith("LocalSegment::try_new_str"):
            for o in mir.trace_op(f, t[2][0], transparent=mir.TRANSPARENT + ("ToString>::to_string",)):
                if o.kind == "call" and "Split" in (f.blocks[o.data]["t"][1].get("full") or "") and (mir.callee(f.blocks[o.data]["t"]) or "").endswith("::next"): ok_chain = True
    splits = [mir.const_arg(f, t[2][1]) for bi, t in f.calls() if (mir.callee(t) or "").endswith("str>::split")]
    if not ok_chain:
        # `value.split('.').filter(..).map(Self::segment_from_part)`: the unwrap lives in a private helper that receives the item
        for p_, h_ in F.fns.items():
            if not p_.startswith("crate::version::pep440::from_zerv::") or h_.kind == "closure" or h_ is f: continue
            scope_ = [h_] + F.children(p_)
            if not any((mir.callee(t) or "").endswith("LocalSegment::try_new_str") for g_ in scope_ for bi, t in g_.calls()): continue
            users = {q for q, xs in cg.addr.items() if p_ in xs} | {g.path for g, b2 in cg.sites.get(p_, [])}
            if users != {f.path}: continue
            from_param = all(any(o.kind in ("param", "upvar") for o in mir.trace_op(g_, t[2][0], transparent=mir.TRANSPARENT + ("ToString>::to_string",)))
                             for g_ in scope_ for bi, t in g_.calls() if (mir.callee(t) or "").endswith("LocalSegment::try_new_str"))
            for bi, t in f.calls():
                if not (mir.callee(t) or "").endswith("Iterator>::map") and not (mir.callee(t) or "").endswith("Iterator::map"): continue
                if not any(a_[0] == "c" and a_[1].get("k") == "fn" and a_[1].get("path") == p_ for a_ in t[2]): continue
                if from_param and any(k == "call" and d.isdigit() and (mir.callee(f.blocks[int(d)]["t"]) or "").endswith("str>::split") for k, d in mir.deep_origins(f, t[2][0], stop=())): ok_chain = True
    # try_new_str only fails when the sanitised text contains '.'
    tn = [x for x in F.find("LocalSegment::try_new_str") if x.kind == "assoc"]
    ok_err = False
    if tn:
        for bi, si, st in tn[0].stmts():
            if st[0] == "=" and st[2][0] == "agg" and st[2][1].get("variant") == "Err":
                gs = mir.guards_of(tn[0], bi)
                ok_err = any(d[0] == "call" and (d[1] or "").endswith("::contains") and pol is True and mir.const_arg(tn[0], d[2][2][1]) == "." for d, pol, dd in gs)
    # every caller passes a value that went through resolve_value / resolve_expanded_values (sanitised, C01 R01.2)
    bad = []
    for g, bi in cg.sites.get(f.path, []):
        srcs = mir.trace_op(g, g.blocks[bi]["t"][2][1], transparent=())
        for o in srcs:
            okk = o.kind == "call" and any(x in (mir.callee(g.blocks[o.data]["t"]) or "") for x in ("resolve_value", "resolve_expanded_values", "IntoIterator>::into_iter", "Iterator>::next"))
            if not okk: bad.append("%s: %r" % (g.path, o))
    ok = ok_chain and splits == ["."] and ok_err and not bad
    return ok, "segment = item of split('.') of a sanitised value; try_new_str fails only on '.'; callers: %s" % (bad or "all pass resolve_* results")

def q_local_from_regex(F, cg, rep):
    pl = F.fn("crate::version::pep440::parser::parse_local_segments")
    wl = F.fn("crate::version::pep440::core::PEP440::with_local")
    fs = F.find("<impl std::str::FromStr for crate::version::pep440::core::PEP440>::from_str")
    if pl is None or wl is None or not fs: return False, "anchor missing"
    c1 = {g.path for g, b in cg.sites.get(pl.path, [])}
    c2 = {g.path for g, b in cg.sites.get(wl.path, [])}
    ok_callers = c1 <= {wl.path} and c2 <= {fs[0].path}
    # with_local's argument in from_str is the text of capture group "local"
    ok_arg = False
    for bi, t in fs[0].calls():
        if (mir.callee(t) or "") == wl.path:
            for o in mir.trace_op(fs[0], t[2][1], transparent=("regex::Match::<'h>::as_str",)):
                if o.kind == "call" and (mir.callee(fs[0].blocks[o.data]["t"]) or "").endswith("Captures::<'h>::name") and mir.const_arg(fs[0], fs[0].blocks[o.data]["t"][2][1]) == "local":
                    ok_arg = True
    # the regex confines that group to ASCII alphanumerics separated by [-_.]
    ok_rx = False
    for s in rx.statics_used(fs[0]):
        p, _ = rx.regex_of_static(F, s)
        if p:
            import spec
            res = rx.run({"s": {"pat": p, "unicode": True}, "o": {"pat": spec.PEP440_APPENDIX_B, "unicode": False}}, [["s", "o"]])
            ok_rx = res["compare"][0].get("ok") and res["compare"][0]["a_not_b"] is None
    # separators are normalised to '.' before the split
    rep_ok = any((mir.callee(t) or "").endswith("str>::replace") for bi, t in pl.calls()) and any(mir.const_arg(pl, t[2][1]) == "." for bi, t in pl.calls() if (mir.callee(t) or "").endswith("str>::split"))
    ok = ok_callers and ok_arg and ok_rx and rep_ok
    return ok, "only from_str feeds parse_local_segments (%s), with the 'local' capture (%s); L(regex) within Appendix B so segments are ASCII alphanumerics (%s); '-'/'_' normalised to '.' before split (%s)" % (ok_callers, ok_arg, ok_rx, rep_ok)

def validation_errs_need_var(F):
    """Every error the schema validator can return is reachable only through a Component::Var (or for a schema with no component at
    all): then a schema the conversions extend with UInt / Str literals cannot fail validation.  -> list of sites that break this."""
    off = []
    for p, g in F.fns.items():
        if not p.startswith("crate::version::zerv::schema::validation::") or "::tests" in p: continue
        var_list_param = any("[crate::version::zerv::components::Var]" in str(g.locals[i]) or "Vec<crate::version::zerv::components::Var" in str(g.locals[i]) for i in range(1, g.nargs + 1))
        for bi, si, st in g.stmts():
            if not (st[0] == "=" and st[2][0] == "agg" and st[2][1].get("k") == "adt" and (st[2][1].get("adt") or "").endswith("error::ZervError")): continue
            ok = var_list_param
            for d, pol, dd in mir.guards_of(g, bi):
                if d[0] == "discr" and str(d[2]).endswith("components::Component") and isinstance(pol, tuple) and pol[0] == "in" and set(pol[1]) == {"Var"}: ok = True
                if d[0] == "discr" and str(d[2]).endswith("components::Var"): ok = True
                if d[0] == "call" and str(d[1]).endswith("::is_empty") and pol is True: ok = True
            if not ok: off.append("%s bb%d line %s" % (g.where(), bi, g.blocks[bi]["line"]))
    return off

def q_pushes_literals(F, cg, rep):
    f = F.fn("crate::version::pep440::to_zerv::<impl crate::version::pep440::core::PEP440>::to_zerv_with_schema")
    if f is None: return False, "anchor missing"
    # helpers of the conversion are spliced in, so a component built by a helper is still seen as the literal it is
    fns = [mir.inlined(F, f, depth=4, ok=lambda F_, caller, cp, g: g is not None and g.kind != "closure" and cp.startswith("crate::version::pep440::to_zerv"))]
    fns += [c for c in mir.closures_in(F, fns[0])]
    n = 0; bad = []
    for g in fns:
        for bi, t in g.calls():
            c = mir.callee(t) or ""
            if re.search(r"ZervSchema::(push_|set_)(core|extra_core|build)$", c):
                n += 1
                srcs = [(g, t[2][1])]
                # `.map(|seg| Component::..).try_for_each(|component| schema.push_build(component))`: the pushed value is the element
                # the upstream map closure built
                if g.kind == "closure" and all(o.kind == "param" and o.data >= 2 for o in mir.trace_op(g, t[2][1], transparent=())):
                    up = mir.pipeline_element_sources(F, g)
                    if up: srcs = up
                for g2, op2 in srcs:
                    for o in mir.trace_op(g2, op2, transparent=()):
                        v = None
                        if o.kind == "agg":
                            rv = mir.rv_at(o.fn, *o.data); v = rv[1].get("variant")
                        if v not in ("UInt", "Str"): bad.append("%s bb%d: %r" % (g.path, bi, o))
    off = validation_errs_need_var(F)
    if off: return False, "the schema validator has an error exit that does not depend on a Var component (%s): a schema extended with literals only can now fail validation, so the `expect`/`unwrap` on its result can panic" % off[0]
    return n >= 2 and not bad, "%d schema pushes, all of Component::UInt/Str literals (never a Var, so placement validation cannot fail: every validator error exit is under a Component::Var test)%s" % (n, (" except " + str(bad)) if bad else "")

def q_semver_dup_guard(F, cg, rep):
    iv = [x for x in F.find("PreReleaseProcessor::<'a>::is_var_set")]
    ps = F.fn("crate::version::semver::to_zerv::<impl crate::version::semver::core::SemVer>::process_string_identifier")
    if not iv or ps is None: return False, "anchor missing"
    has_contains = any((mir.callee(t) or "").endswith("::contains") for bi, t in iv[0].calls()) and any((mir.callee(t) or "").endswith("ZervSchema::extra_core") for bi, t in iv[0].calls())
    def label_guard(bi):
        out = set()
        for d, pol, dd in mir.guards_of(ps, bi):
            if d[0] == "discr" and isinstance(pol, tuple) and pol[0] == "in" and "Some" in pol[1]:
                for o in mir.trace_place(ps, d[1], transparent=()):
                    if o.kind == "call":
                        t2 = ps.blocks[o.data]["t"]
                        out.add(((mir.callee(t2) or ""), ",".join(panics.okey(ps, a) for a in t2[2])))
        return out
    hd = [bi for bi, t in ps.calls() if (mir.callee(t) or "").endswith("::handle_duplicate")]
    pn = [bi for bi, t in ps.calls() if (mir.callee(t) or "").endswith("::process_new_var")]
    # both sit under `Some(var) = try_from_secondary_label(s)` of the same s, and the new-var path is reached after the duplicate check
    order = bool(hd) and bool(pn) and all(any((label_guard(h) & label_guard(p)) and p in mir.reachable(ps, h) for h in hd) for p in pn)
    # Component::Var is pushed only by finalize_var / the final pending flush
    pushers = set()
    for p, g in F.fns.items():
        if not p.startswith("crate::version::semver::to_zerv"): continue
        for bi, t in g.calls():
            if (mir.callee(t) or "").endswith("ZervSchema::push_extra_core"):
                for o in mir.trace_op(g, t[2][1], transparent=()):
                    if o.kind == "agg" and mir.rv_at(o.fn, *o.data)[1].get("variant") == "Var": pushers.add(p.rsplit("::", 1)[-1])
    ok = has_contains and order and pushers <= {"finalize_var", "to_zerv_with_schema"}
    # ... and nothing but a Var (duplicate / misplaced, excluded above) can make validation fail
    off = [x for x in validation_errs_need_var(F)]
    if off: return False, "the schema validator has an error exit that does not depend on a Var component (%s): a schema extended with literal identifiers can now fail validation" % off[0]
    return ok, "is_var_set consults the schema (%s); handle_duplicate dominates process_new_var (%s); Var pushed only by %s" % (has_contains, order, sorted(pushers))

def q_guard_pending(F, cg, rep):
    f = [x for x in F.find("PreReleaseProcessor::<'a>::handle_duplicate")]
    if not f: return False, "anchor missing"
    f = f[0]
    for bi, t in f.calls():
        if (mir.callee(t) or "").endswith("Option::<T>::unwrap"):
            for desc, pol, d in mir.guards_of(f, bi):
                if desc[0] == "call" and (desc[1] or "").endswith("::eq") and pol is True:
                    txt = " ".join(mir.sym_value(F, f, a) for a in desc[2][2])
                    if "pending_var" in txt: return True, "unwrap of pending_var.take() under pending_var.as_ref() == Some(&var)"
    return False, "no dominating equality guard on pending_var"

def q_max_len_loop(F, cg, rep):
    f = F.fn("crate::version::version_object::VersionObject::parse_auto_detect_batch")
    if f is None: return False, "anchor missing"
    has_max = any((mir.callee(t) or "").endswith("Iterator::max") for bi, t in f.calls())
    zero_err = False; eq_ret = False
    for bi, b in enumerate(f.blocks):
        t = b["t"]
        if t[0] == "switch":
            d = mir.describe_discr(f, bi)
            if d[0] == "bin" and d[1] == "Eq":
                if d[3][0] == "c" and mir.const_of(d[3]) == 0: zero_err = True
                elif panics.describe_len(f, d[2])[0] == "len" or panics.describe_len(f, d[3])[0] == "len": eq_ret = True
    return has_max and zero_err and eq_ret, "max over the candidates' lengths (%s), max == 0 rejected first (%s), loop returns at len == max (%s): the loop cannot fall through" % (has_max, zero_err, eq_ret)

AUDIT = [
    ("CommonOverridesConfig::dirty_override:call:panic#0", "(true,true) arm is excluded by argument validation", q_guarded_validator),
    ("FlowArgs>::bump_post:call:panic#0", "post_mode is confined to the match arms by clap and by the PostMode enum", q_post_mode_domain),
    ("BranchRules::resolve_for_branch::{closure#1}:call:unwrap#0", "unwrap of the Option that and_then already matched as Some", q_unwrap_in_map),
    ("ZervSchemaPreset::schema:call:panic#0", "wildcard arm only covers variants handled by schema_with_zerv", q_preset_coverage),
    ("ZervSchemaPreset::with_build_context:call:unwrap#0", "set_build on schemas that are constants of the program", q_callers_constant("ZervSchemaPreset::with_build_context", 1)),
    ("PEP440>::add_flattened_to_local:call:unwrap#0", "segments of a sanitised value contain no '.'", q_local_sanitized),
    # the same unwrap inside a private helper (or its closure) of the from_zerv module that add_flattened_to_local maps over the split items
    (lambda s: s.kind == "call:unwrap" and s.fn.path.startswith("crate::version::pep440::from_zerv::") and "add_flattened_to_local" not in s.fn.path and any(o.kind == "call" and (mir.callee(o.fn.blocks[o.data]["t"]) or "").endswith("LocalSegment::try_new_str") for o in mir.trace_op(s.fn, s.detail[2][0], transparent=())),
     "segments of a sanitised value contain no '.'", q_local_sanitized),
    # matched by what the site is (unwrap of a LocalSegment::try_new_str result anywhere in the PEP 440 parser module), not by where it lives
    (lambda s: s.kind == "call:unwrap" and s.fn.path.startswith("crate::version::pep440::parser::") and any(o.kind == "call" and (mir.callee(o.fn.blocks[o.data]["t"]) or "").endswith("LocalSegment::try_new_str") for o in mir.trace_op(s.fn, s.detail[2][0], transparent=())),
     "segments come from the regex's local group", q_local_from_regex),
    ("From<version::pep440::core::PEP440> for version::zerv::core::Zerv>::from:call:expect#1", "conversion only pushes literal components", q_pushes_literals),
    ("From<version::semver::core::SemVer> for version::zerv::core::Zerv>::from:call:expect#1", "duplicate secondary labels are diverted before a Var is pushed", q_semver_dup_guard),
    ("PreReleaseProcessor::<'a>::handle_duplicate:call:unwrap#0", "take() of an Option just compared equal to Some", q_guard_pending),
    ("VersionObject::parse_auto_detect_batch:call:panic#0", "loop over candidates always returns", q_max_len_loop),
]

# ---------------------------------------------------------------------------

def lifted_discharge(F, s, ctx, cg, depth=0):
    """A site inside a helper (an index whose bound is checked by the caller, a capture-group name passed as an argument):
    splice the helper into each direct caller and run the recognisers on the spliced copy; every caller must discharge it."""
    if s.fn.kind == "closure" or depth > 2: return False, "closure / too deep"
    callers = [(g, b) for g, b in cg.sites.get(s.fn.path, []) if g.path in F.fns and g.path != s.fn.path]
    if not callers: return False, "no direct local caller"
    whys = []
    for g, b in callers:
        gi = mir.inlined(F, g, depth=1, ok=lambda F_, caller, cp, h: cp == s.fn.path and h is not None)
        copies = [bi for bi, blk in enumerate(gi.blocks) if blk.get("orig") == (s.fn.path, s.bi)]
        if not copies: return False, "call from %s not spliceable" % g.path
        for bi in copies:
            s2 = panics.Site(gi, bi, s.kind, gi.blocks[bi]["t"], 0)
            ok, why = panics.auto(F, s2, ctx)
            if not ok:
                # one level further up
                return False, "in %s: %s" % (g.path.replace("crate::", ""), why)
            whys.append(why)
    return True, "; ".join(sorted(set(whys)))[:300]

def check(F, rep, tier):
    root = F.fn(ROOT); rwa = F.fn(RWA)
    if not rep.anchor("R13", ROOT, root) or not rep.anchor("R13", RWA, rwa):
        return core.finish(rep, explanation=EXPL)
    cg = mir.CallGraph(F)
    reach = cg.closure([ROOT])
    local = [F.fns[p] for p in sorted(reach) if p in F.fns]
    rep.fn_seen(*local)
    rep.floor("R13.1", "local functions reachable from run (call graph incl. dyn fan-out, address-taken and generic dispatch)", len(local), 900)
    ctx = panics.Ctx(F, cg)
    sites = panics.inventory(F, reach)
    rep.floor("R13.1", "panic-capable sites inventoried", len(sites), 40)
    audit_cache = {}
    n_auto = n_aud = n_der = 0
    for s in sites:
        key = s.key()
        ok, why = panics.auto(F, s, ctx)
        if ok:
            n_auto += 1
            rep.ok("R13.1", "%s: %s" % (key, why), sample=s.where(), nontrivial_key=key)
            continue
        # derive-generated code that no local code calls directly
        if (s.fn.d.get("derived") or s.fn.d.get("exp")) and all((g.d.get("derived") or g.d.get("exp")) for g, _b in cg.sites.get(s.fn.path, [])):
            n_der += 1
            rep.ok("R13.1", "%s: derive-generated function whose only direct callers are derive-generated too (driven by the deriving crate's own machinery)" % key, nontrivial_key=key)
            continue
        ent = [a for a in AUDIT if (a[0](s) if callable(a[0]) else key.endswith(a[0]))]
        if ent:
            a = ent[0]
            if a[2] not in audit_cache:
                try: audit_cache[a[2]] = a[2](F, cg, rep)
                except Exception as e: audit_cache[a[2]] = (False, "requires-predicate crashed: %r" % e)
            good, detail = audit_cache[a[2]]
            if good:
                n_aud += 1
                rep.ok("R13.1", "%s: audited - %s; requires re-checked: %s" % (key, a[1], detail), sample=s.where(), nontrivial_key=key)
            else:
                rep.bad("R13.1", "audit-stale:" + key, "the audited argument for this panic site (%s) no longer holds on this tree: %s" % (a[1], detail), s.where())
            continue
        # not dischargeable inside the function alone: judge the site in the context of every direct caller (helper spliced in)
        lok, lwhy = lifted_discharge(F, s, ctx, cg)
        if lok:
            n_auto += 1
            rep.ok("R13.1", "%s: discharged in the context of each caller - %s" % (key, lwhy), sample=s.where(), nontrivial_key=key)
            continue
        rep.bad("R13.1", "unaudited-panic:" + key, "reachable panic-capable construct %s without a recognised discharge%s (path: %s)" % (
            s.kind, (": " + why) if why else "", " -> ".join(x.replace("crate::", "") for x in cg.path_to(s.fn.path)[-4:])), s.where())
    rep.extra["panic_sites"] = {"total": len(sites), "auto": n_auto, "audited": n_aud, "derive_unreferenced": n_der}
    stdout_rules(F, rep, cg, root, rwa, reach)
    git_errors(F, rep, cg)
    template_recursion(F, rep, cg, reach)
    # ---- R13.8 parsers of untrusted documents keep their recursion limit (a limit turned off trades an error for a stack overflow) --
    unl = []
    for p_ in sorted(reach):
        g_ = F.fn(p_)
        if g_ is None or "::tests" in p_ or "test_utils" in p_: continue
        for bi, t in g_.calls():
            c = mir.callee(t) or ""
            if c.endswith("Options::without_recursion_limit") or c.endswith("::disable_recursion_limit") or (c.endswith("Options::with_recursion_limit") and isinstance(mir.const_arg(g_, t[2][1]) if len(t[2]) > 1 else None, int) and mir.const_arg(g_, t[2][1]) > 1024):
                unl.append((g_, bi, c))
    for g_, bi, c in unl:
        rep.bad("R13.8", "recursion-limit-off:" + g_.path.replace("crate::", "").rsplit("::", 1)[-1], "%s parses input with %s: a deeply nested document (e.g. 100k '[' in vars.custom on stdin) overflows the stack and aborts instead of failing with an error" % (g_.path.rsplit("::", 1)[-1], c.rsplit("::", 2)[-2] + "::" + c.rsplit("::", 1)[-1]), "%s bb%d line %s" % (g_.where(), bi, g_.blocks[bi]["line"]))
    if not unl: rep.ok("R13.8", "no reachable parser call switches its recursion limit off (ron / serde_json defaults are kept)", nontrivial_key="reclimit")
    # ---- R13.10 no allocation sized by a number taken from the input (capacity overflow / allocation failure abort the process) ----------
    nal = 0
    for p_ in sorted(reach):
        g_ = F.fn(p_)
        if g_ is None or "::tests" in p_ or "test_utils" in p_ or "::_::" in p_: continue
        if any((mir.callee(t) or "").rsplit("::", 1)[-1] in ("with_capacity", "reserve", "reserve_exact", "repeat", "from_elem", "resize", "try_reserve") for bi, t in g_.calls()):
            # helpers that fetch the number (`length_arg(args, 10)?`) are spliced in, so that its origin in the input stays visible
            try: g_ = mir.inlined(F, g_, depth=2)
            except Exception: pass
        for bi, t in g_.calls():
            c = mir.callee(t) or ""
            last = c.rsplit("::", 1)[-1]
            if last not in ("with_capacity", "reserve", "reserve_exact", "repeat", "from_elem", "resize", "try_reserve") or not t[2]: continue
            a = t[2][1] if last == "resize" and len(t[2]) > 1 else (t[2][-1] if last in ("from_elem", "repeat", "reserve", "reserve_exact") else t[2][0])
            nal += 1
            site = "%s bb%d line %s" % (g_.where(), bi, g_.blocks[bi]["line"])
            e = panics.describe_len(g_, a)
            def lenish(x): return x[0] in ("len", "const") or (x[0] in ("min", "max") and any(lenish(y) for y in x[1])) or (x[0] == "sub" and lenish(x[1]))
            if lenish(e): rep.ok("R13.10", "%s sized by a constant or an existing collection's length" % last, sample=site, nontrivial_key="alloc%s%d" % (p_, bi)); continue
            srcs = sorted({(mir.callee(g_.blocks[int(d_)]["t"]) or "?").rsplit("::", 1)[-1] for k_, d_ in mir.deep_origins(g_, a, stop=()) if k_ == "call" and d_.isdigit() and g_.blocks[int(d_)]["t"][0] == "call"})
            if any(x in ("as_u64", "as_i64", "as_f64", "parse", "get", "unwrap_or") for x in srcs):
                rep.bad("R13.10", "input-sized-allocation:" + p_.replace("crate::", "").rsplit("::", 1)[-1], "%s allocates with %s(n) where n comes from the input (%s): a huge number (`length=99999999999`) aborts the process with an allocation failure / capacity overflow instead of an error" % (p_.rsplit("::", 1)[-1], last, srcs[:4]), site)
            else: rep.undecided("R13.10", "allocation-size:" + p_.replace("crate::", "").rsplit("::", 1)[-1], "%s(n) with n from %s" % (last, srcs[:4]), site)
    if not nal: rep.ok("R13.10", "no reachable function pre-sizes an allocation (with_capacity / reserve / repeat / vec![x; n] / resize): sizes follow the data", nontrivial_key="noalloc")
    # ---- R13.9 std APIs that panic on non-UTF-8 input from the operating system --------------------------------------------------------
    # (`std::env::args()` / `vars()` yield Strings and panic during iteration when an argument / variable is not valid Unicode; the
    # panic is inside std, so the inventory of local panic sites does not contain it)
    osp = []
    for p_ in sorted(reach | {ROOT.rsplit("::", 1)[0] + "::run"}):
        g_ = F.fn(p_)
        if g_ is None or "::tests" in p_ or "test_utils" in p_: continue
        for bi, t in g_.calls():
            c = mir.callee(t) or ""
            if c in ("std::env::args", "std::env::vars"): osp.append((g_, bi, c))
    for g_, bi, c in osp:
        rep.bad("R13.9", "os-string-panic:%s:%s" % (g_.path.replace("crate::", "").rsplit("::", 1)[-1], c.rsplit("::", 1)[-1]), "%s reads the process %s with %s(), which panics while iterating if one of them is not valid UTF-8 (`zerv check $'\\xff'` exits with status 101 and a panic message instead of an error)" % (g_.path.rsplit("::", 1)[-1], "arguments" if c.endswith("args") else "environment", c), "%s bb%d line %s" % (g_.where(), bi, g_.blocks[bi]["line"]))
    if not osp: rep.ok("R13.9", "process arguments / environment are read through the OsString APIs (no panic on non-UTF-8)", nontrivial_key="osargs")
    # the audited unwraps of LocalSegment::try_new_str rest on "every resolved value is a sanitiser output" (C01 R01.2)
    core.borrow(F, rep, "c01", "C01", "R13.1", ("R01.2:unsanitised",), "values that reach LocalSegment::try_new_str(..).unwrap() are sanitiser outputs")
    return core.finish(rep, explanation=EXPL, assumptions=ASSUME, trusted=TRUST)

# ---------------------------------------------------------------------------
STDOUT = ("std::io::stdout", "std::io::_print", "std::io::Stdout")
def stdout_rules(F, rep, cg, root, rwa, reach):
    # helpers of cli::app (run_command(..), is_help_or_version_request(..)) are seen through; the pipelines stay calls
    app_ok = lambda F_, caller, cp, g: g is not None and g.kind != "closure" and cp.startswith("crate::cli::app::") and cp not in (ROOT, RWA) and not cp.endswith("::run_with_args")
    root_path, rwa_path = root.path, rwa.path
    root = mir.inlined(F, root, depth=2, ok=app_ok)
    rwa = mir.inlined(F, rwa, depth=2, ok=app_ok)
    # R13.2 who may touch stdout: run() and the private helpers of cli::app that only run() reaches
    runset = mir.private_helpers_of(F, cg, ROOT, "crate::cli::app::") - {RWA}
    n = 0
    for p in sorted(reach):
        f = F.fns.get(p)
        if f is None: continue
        for bi, t in f.calls():
            if mir.call_matches(t, ("std::io::stdout", "std::io::_print")):
                n += 1
                if f.path in runset: rep.ok("R13.2", "stdout handle / print in run() only" + ("" if f.path == ROOT else " (its private helper %s)" % f.path.rsplit("::", 1)[-1]), sample="bb%d %s" % (bi, mir.callee(t)), nontrivial_key="so%d" % bi)
                else: rep.bad("R13.2", "stdout-outside-run:" + f.path.replace("crate::", ""), "%s is used outside cli::app::run (a diagnostic or log could reach stdout)" % mir.callee(t), "%s bb%d" % (f.where(), bi))
        # fn items used as values (with_writer(std::io::stdout))
        for x in cg.addr.get(p, ()):
            if x in ("std::io::stdout",) and f.path not in runset:
                rep.bad("R13.2", "stdout-fnitem:" + f.path.replace("crate::", ""), "std::io::stdout passed as a function value in %s" % f.path, f.where())
    rep.floor("R13.2", "stdout uses found in run()", n, 2)
    # R13.3 in run_with_args every write to the writer is dominated by the success edge of its pipeline call and prints that payload
    dom = mir.dominators(rwa)
    writes = [(bi, t) for bi, t in rwa.calls() if mir.call_matches(t, ("std::io::Write::write_fmt", "Write>::write_fmt", "Write>::write_all", "std::io::Write::write_all"))]
    rep.floor("R13.3", "writes to the output writer in run_with_args", len(writes), 1)
    pipes = {}
    for bi, t in rwa.calls():
        c = mir.callee(t) or ""
        if c.startswith("crate::cli::") and c in F.fns and F.fns[c].d.get("ret", "").startswith("std::result::Result<std::string::String"):
            pipes[bi] = c
    for bi, t in writes:
        # payload: the Arguments' single argument must be the Continue value of exactly one pipeline call that dominates this block
        sl = mir.trace_op(rwa, t[2][1], transparent=())
        srcs = set()
        stack = [t[2][1]]; seen = set()
        def payload_sources(op, depth=0):
            out = set()
            if depth > 12: return out
            for o in mir.trace_op(rwa, op, transparent=()):
                if o.kind == "call":
                    t2 = rwa.blocks[o.data]["t"]
                    if o.data in pipes: out.add(o.data)
                    else:
                        for a in t2[2]: out |= payload_sources(a, depth + 1)
                elif o.kind in ("agg", "rv"):
                    rv = mir.rv_at(rwa, *o.data)
                    for a in (rv[2] if rv[0] == "agg" else [x for x in rv[1:] if isinstance(x, list) and x and x[0] in ("cp", "mv")]): out |= payload_sources(a, depth + 1)
            return out
        srcs = payload_sources(t[2][1])
        site = "%s bb%d line %s" % (rwa.where(), bi, rwa.blocks[bi]["line"])
        # nothing may be written while a fallible pipeline step is still ahead: its failure would leave text on stdout
        later = sorted(pipes[pb2].rsplit("::", 1)[-1] for pb2 in pipes if pb2 in mir.reachable(rwa, bi) and pb2 != bi and pb2 not in srcs)
        if later:
            rep.bad("R13.3", "write-before-fallible:" + ",".join(later), "output is written before %s runs: if that step fails, stdout is not empty on failure" % later, site)
            continue
        if srcs and not any(p2 in mir.reachable(rwa, p1) for p1 in srcs for p2 in srcs if p1 != p2):
            # one payload (or several mutually exclusive alternatives, one per sub-command): each must reach the write only
            # through the success edge of its own `?`
            bad_src = []
            try:
                sps = [sp for sp in mir.sym_paths(rwa, limit=40000) if bi in sp.blocks]
            except mir.TooManyPaths:
                rep.undecided("R13.3", "too-many-paths", "run_with_args has too many paths to enumerate", site); continue
            for sp in sps:
                upto = sp.blocks[:sp.blocks.index(bi)]
                for pb in sorted(srcs):
                    if pb not in upto: continue
                    # on this path the pipeline ran before the write: the `?` on its result must have continued
                    cont = False
                    for d, (rel, vals), b3 in sp.conds:
                        if d[0] == "discr" and isinstance(d[1], tuple) and d[1][0] == "call" and str(d[1][1]).endswith("Try>::branch") and d[1][2] and isinstance(d[1][2][0], tuple) and d[1][2][0][0] == "call" and d[1][2][0][3] == pb:
                            if (rel == "eq" and tuple(vals) == (0,)) or (rel == "ne" and 0 not in vals and False): cont = True
                    if not cont: bad_src.append(pipes[pb].rsplit("::", 1)[-1])
            bad_src = sorted(set(bad_src))
            if not bad_src: rep.ok("R13.3", "write prints the Ok payload of %s on its success edge" % sorted(pipes[pb].rsplit("::", 1)[-1] for pb in srcs), sample=site, nontrivial_key="w%d" % bi)
            else: rep.bad("R13.3", "write-before-success:" + ",".join(bad_src), "output is written without being confined to the success edge of %s" % bad_src, site)
        elif mir.call_matches(t, ("write_all",)) or not srcs:
            # llm-help text / constant output
            rep.ok("R13.3", "write of constant text (help)", sample=site)
        else:
            rep.bad("R13.3", "write-mixed-payload", "an output write combines results of %d pipeline calls that can run in the same execution" % len(srcs), site)
    # each pipeline result is written at most once
    # R13.4 exit path in run(): error arm -> _eprint then process::exit(1); _print only for help/version kinds
    exits = [(bi, t) for bi, t in root.calls() if mir.call_matches(t, ("std::process::exit",))]
    for bi, t in exits:
        code = mir.const_arg(root, t[2][0])
        if isinstance(code, int) and code != 0: rep.ok("R13.4", "process::exit(%d) on the error path" % code, nontrivial_key="exit%d" % bi)
        else: rep.bad("R13.4", "exit-code", "run() exits with status %r on the error path (must be non-zero)" % (code,), "%s bb%d" % (root.where(), bi))
        dom_r = mir.dominators(root)
        ep = [b2 for b2, t2 in root.calls() if mir.call_matches(t2, ("std::io::_eprint",))]
        if any(e in dom_r.get(bi, ()) for e in ep): rep.ok("R13.4", "diagnostic printed with eprint before exit", nontrivial_key="eprint")
        else: rep.bad("R13.4", "no-diagnostic", "the error path exits without printing to stderr", "%s bb%d" % (root.where(), bi))
        # the exit is on the Err arm of run_with_args's result
        gs = mir.guards_of(root, bi)
        if any(d[0] == "discr" and "Result<" in d[2] and isinstance(pol, tuple) and ("Err" in pol[1] if pol[0] == "in" else "Ok" in pol[1]) for d, pol, dd in gs):
            rep.ok("R13.4", "exit only on the Err arm of run_with_args")
        else: rep.bad("R13.4", "exit-unguarded", "process::exit is not confined to the Err arm", "%s bb%d" % (root.where(), bi))
    rep.floor("R13.4", "process::exit sites in run()", len(exits), 1)
    # every path through the Err arm that is not help/version reaches exit: the only returns under Err are guarded by the clap kinds
    for bi, t in root.calls():
        if mir.call_matches(t, ("std::io::_print",)):
            gs = mir.guards_of(root, bi)
            kinds = set()
            for d, pol, dd in gs:
                if d[0] == "discr" and "clap::error::ErrorKind" in d[2] and isinstance(pol, tuple) and pol[0] == "in": kinds |= set(pol[1])
            if not kinds:
                # `e.downcast_ref::<clap::Error>().filter(|c| matches!(c.kind(), DisplayHelp | DisplayVersion))` matched as Some
                for d, pol, dd in gs:
                    if d[0] == "discr" and "Option<" in str(d[2]) and isinstance(pol, tuple) and (("Some" in pol[1]) if pol[0] == "in" else ("None" in pol[1])):
                        for o in mir.trace_place(root, d[1], transparent=()):
                            if o.kind == "call" and (mir.callee(o.fn.blocks[o.data]["t"]) or "").endswith("Option::<T>::filter"):
                                for o2 in mir.trace_op(root, o.fn.blocks[o.data]["t"][2][1], transparent=()):
                                    if o2.kind == "agg" and mir.rv_at(o2.fn, *o2.data)[1].get("k") == "closure":
                                        c_ = F.fn(mir.rv_at(o2.fn, *o2.data)[1]["path"])
                                        if c_ is None: continue
                                        c_ = mir.inlined(F, c_, depth=2, ok=app_ok)
                                        for b3, s3, st3 in c_.stmts():
                                            if st3[0] == "=" and st3[1] == [0] and st3[2][0] == "use" and st3[2][1][0] == "c" and st3[2][1][1].get("v") is True:
                                                for d3, pol3, dd3 in mir.guards_of(c_, b3):
                                                    if d3[0] == "discr" and "clap::error::ErrorKind" in str(d3[2]) and isinstance(pol3, tuple) and pol3[0] == "in": kinds |= set(pol3[1])
            if not kinds:
                # the print sits under a variant of a private enum of cli::app (`Err(Interruption::HelpOrVersion(e)) => print!`): the kinds
                # are those under which that variant is built, at every site that builds it
                for d, pol, dd in gs:
                    if not (d[0] == "discr" and "crate::cli::app::" in str(d[2]) and isinstance(pol, tuple) and pol[0] == "in" and len(pol[1]) == 1): continue
                    vname = list(pol[1])[0]; built = []; open_ = False
                    for p2, g2 in F.fns.items():
                        if "crate::cli::app::" not in p2: continue
                        for b3, s3, st3 in g2.stmts():
                            if st3[0] == "=" and st3[2][0] == "agg" and isinstance(st3[2][1], dict) and st3[2][1].get("k") == "adt" and st3[2][1].get("variant") == vname and "crate::cli::app::" in str(st3[2][1].get("adt")):
                                ks = set()
                                for d3, pol3, dd3 in mir.guards_of(g2, b3):
                                    if d3[0] == "discr" and "clap::error::ErrorKind" in str(d3[2]) and isinstance(pol3, tuple) and pol3[0] == "in": ks |= set(pol3[1])
                                built.append(ks)
                                if not ks: open_ = True
                        for b3, t3 in g2.calls():
                            if any(a3[0] == "c" and a3[1].get("k") == "fn" and str(a3[1].get("path")).endswith("::" + vname) and "crate::cli::app::" in str(a3[1].get("path")) for a3 in t3[2]): open_ = True     # the variant used as a function value
                    if built and not open_:
                        for ks in built: kinds |= ks
            if kinds and kinds <= {"DisplayHelp", "DisplayVersion"}: rep.ok("R13.4", "stdout print only for clap kinds %s" % sorted(kinds), nontrivial_key="kinds")
            else: rep.bad("R13.4", "print-on-error", "run() prints to stdout on an error path not confined to DisplayHelp/DisplayVersion (guards: %s)" % sorted(kinds), "%s bb%d" % (root.where(), bi))
    # R13.5 logging goes to stderr
    il = F.fn("crate::logging::init_logging")
    if rep.anchor("R13.5", "logging::init_logging", il):
        ww = [(bi, t) for bi, t in il.calls() if "with_writer" in (mir.callee(t) or "")]
        rep.floor("R13.5", "with_writer calls in init_logging", len(ww), 1)
        for bi, t in ww:
            full = t[1].get("full") or ""
            if "{std::io::stderr}" in full and "stdout" not in full: rep.ok("R13.5", "tracing writer is the fn item std::io::stderr", sample=full[-60:], nontrivial_key="ww%d" % bi)
            else: rep.bad("R13.5", "log-writer", "tracing subscriber writes to %s" % full[-80:], "%s bb%d" % (il.where(), bi))
        builders = [t for bi, t in il.calls() if "tracing_subscriber::fmt" in (mir.callee(t) or "") and "SubscriberBuilder" in (t[1].get("full") or "") and (mir.callee(t) or "").endswith("try_init")]
        for t in builders:
            if "std::io::stderr" not in (t[1].get("full") or ""):
                rep.bad("R13.5", "log-writer-default", "a tracing subscriber is initialised without the stderr writer (default is stdout)", il.where())

def template_recursion(F, rep, cg, reach):
    """R13.7: text supplied by the user is compiled into a Tera instance under a constant name.  Tera has no recursion limit:
    `{% include NAME %}`, `{% import NAME as m %}` or a macro calling itself recurse until the stack overflows, which aborts the
    process (not a panic: no unwinding, status 134).  Necessary condition read from the code: a non-constant template text reaches
    Tera::add_raw_template / render_str / one_off without a dominating rejection that depends on that text."""
    rule = "R13.7"
    n = 0
    for p in sorted(reach):
        f = F.fns.get(p)
        if f is None: continue
        for bi, t in f.calls():
            c = mir.callee(t) or ""
            if not (c.startswith("tera::Tera::") and c.rsplit("::", 1)[-1] in ("add_raw_template", "add_raw_templates", "render_str", "one_off")): continue
            n += 1
            text_op = t[2][2] if c.endswith("add_raw_template") and len(t[2]) > 2 else (t[2][1] if len(t[2]) > 1 else t[2][0])
            os_ = mir.trace_op(f, text_op)
            site = "%s bb%d line %s" % (f.where(), bi, f.blocks[bi]["line"])
            if os_ and all(o.kind == "const" for o in os_):
                rep.ok(rule, "%s of a constant template" % c.rsplit("::", 1)[-1], sample=site, nontrivial_key="tpl%s%d" % (p, bi)); continue
            # a rejection that looks at the text before it is compiled (contains / is_match / find on the same text, guarding an Err return)
            keys = {o.key() for o in os_}
            inspected = False
            for d, pol, dd in mir.guards_of(f, bi):
                if d[0] == "call" and any(x in (d[1] or "") for x in ("::contains", "is_match", "::find", "::starts_with", "::matches")):
                    if any(o2.key() in keys for a in d[2][2] for o2 in mir.trace_op(f, a)): inspected = True
            owner = p.split("::{closure")[0].replace("crate::", "")
            if inspected: rep.undecided(rule, "template-guard:" + owner, "the template text is inspected before it is compiled; whether that excludes every recursive construct is not evaluated", site)
            else: rep.bad(rule, "unbounded-template-recursion:" + owner, "user-supplied template text is compiled by Tera (%s) under a name it can refer to, with no check on the text: a self-including / self-importing template or a recursive macro overflows the stack and aborts the process" % c.rsplit("::", 1)[-1], site)
    rep.floor(rule, "Tera template registrations reachable from run()", n, 1)

def git_errors(F, rep, cg):
    rule = "R13.6"
    runner = [f for f in F.find("GitVcs::run_git_command") if f.kind == "assoc"]
    if not rep.anchor(rule, "GitVcs::run_git_command", runner): return
    r = runner[0]
    sites = cg.sites.get(r.path, [])
    rep.floor(rule, "run_git_command call sites", len(sites), 10)
    for g, bi in sites:
        t = g.blocks[bi]["t"]
        dest = t[3][0]
        uses = []
        for b2, t2 in g.calls():
            if any(a[0] in ("cp", "mv") and a[1][0] == dest for a in t2[2]): uses.append(mir.callee(t2) or "?")
        discr = any(st[0] == "=" and st[2][0] == "discr" and st[2][1][0] == dest for b2, si, st in g.stmts())
        moved_to_ret = any(st[0] == "=" and st[1] == [0] and st[2][0] == "use" and st[2][1][0] in ("cp", "mv") and st[2][1][1][0] == dest for b2, si, st in g.stmts()) or t[3] == [0]
        site = "%s bb%d line %s" % (g.where(), bi, g.blocks[bi]["line"])
        key = "%s#%d" % (g.path.replace("crate::", ""), sum(1 for h, b3 in sites if h.path == g.path and b3 < bi))
        if any(u.endswith("::unwrap") or u.endswith("::expect") for u in uses):
            rep.bad(rule, "git-unwrapped:" + key, "the result of a git invocation is unwrapped (any git failure would panic)", site)
        elif any("Try>::branch" in u for u in uses) or moved_to_ret:
            rep.ok(rule, "git result propagated (? / returned)", sample=site, nontrivial_key=key)
        elif discr:
            rep.ok(rule, "git result matched (explicit fallback)", sample=site, nontrivial_key=key)
        elif any(x in u for u in uses for x in ("map_err", "unwrap_or", "is_ok", "is_err", "ok", "map")):
            rep.ok(rule, "git result handled by combinator %s" % uses, sample=site, nontrivial_key=key)
        else:
            rep.bad(rule, "git-unhandled:" + key, "result of a git invocation is neither propagated nor handled (uses: %s)" % uses, site)
    # the runner itself: it returns Ok only when the process was spawned AND exited with success; decided on its feasible paths
    try:
        sps = mir.sym_paths(r, limit=40000)
    except mir.TooManyPaths:
        rep.undecided(rule, "runner-too-many-paths", "run_git_command has too many paths", r.where()); return
    def mentions(e, pred, depth=0):
        if depth > 12 or not isinstance(e, tuple): return False
        if pred(e): return True
        for x in e[1:]:
            if isinstance(x, tuple) and mentions(x, pred, depth + 1): return True
            if isinstance(x, list):
                for y in x:
                    if isinstance(y, tuple) and (mentions(y, pred, depth + 1) or (len(y) == 2 and isinstance(y[1], tuple) and mentions(y[1], pred, depth + 1))): return True
        return False
    is_output = lambda e: e[0] == "call" and isinstance(e[1], str) and e[1].endswith("process::Command::output")
    n_ok = 0; no_spawn = 0; no_status = 0
    for sp in sps:
        ret = sp.ret()
        if not (ret[0] == "agg" and str(ret[1]).endswith("Result::Ok")): continue
        n_ok += 1
        spawn_ok = False; status_ok = False
        for d, truth, b in sp.facts():
            if isinstance(truth, tuple) and d[0] == "discr" and mentions(d[1], is_output):
                rel, vals = truth
                if rel == "eq" and tuple(vals) == (0,): spawn_ok = True          # Ok / Continue are variant 0
            if isinstance(truth, bool) and d[0] == "call" and str(d[1]).endswith("ExitStatus::success") and truth is True: status_ok = True
        if not spawn_ok: no_spawn += 1
        if not status_ok: no_status += 1
    if n_ok == 0: rep.undecided(rule, "runner-shape", "run_git_command has no path returning Ok(..) that this rule recognises", r.where())
    else:
        if no_spawn: rep.bad(rule, "runner-swallows", "run_git_command can return Ok although spawning git failed (%d of %d Ok paths do not pass the Ok arm of Command::output())" % (no_spawn, n_ok), r.where())
        else: rep.ok(rule, "every Ok return follows a successful Command::output() (%d paths)" % n_ok, nontrivial_key="runner")
        if no_status: rep.bad(rule, "runner-status", "run_git_command can return Ok without having checked status.success() (%d of %d Ok paths)" % (no_status, n_ok), r.where())
        else: rep.ok(rule, "every Ok return is under status.success()", nontrivial_key="runnerstatus")

EXPL = ("R13.1: every panic-capable construct (Assert terminators; unwrap/expect; core::panicking; byte/usize Index; String::truncate & friends; dynamic fmt width; chrono DelayedFormat::to_string) in the "
        "call closure of cli::app::run - computed with dyn-trait fan-out, address-taken functions (Tera functions, LazyLock initialisers) and generic dispatch into local trait impls - must be discharged by a recognised "
        "guard/provenance argument derived from the MIR on this run (dominating length/starts_with/ends_with guards, loop ranges, regex group participation proved on the regex HIR, constant/finite-domain inputs, "
        "char_indices cut points, path-sensitive bounds) or by an audited entry whose structural `requires` are re-checked; anything else is reported. R13.2-R13.6: stdout is touched only in run(); every write in run_with_args "
        "is dominated by the success edge of the pipeline call whose payload it prints; the error arm prints with eprint and exits non-zero, stdout print only for clap help/version; tracing writes to stderr; every git "
        "invocation result is propagated or explicitly handled and the runner maps spawn failure and non-zero exit to Err. Not decided: panics inside dependencies (tera, ron, clap, chrono internals), allocation failure.")
ASSUME = ["dependencies do not panic on the inputs zerv passes them, except where the std/chrono contracts modelled here say so",
          "derive-generated functions with no direct local caller are only invoked by their own crate's machinery according to that crate's contract",
          "input-independent constructions (all 22 presets, default branch rules, default schemas) are exercised by the pinned suite; their outcome cannot depend on user input"]
TRUST = ["rustc MIR + trait resolution", "zfacts exporter", "rules/panics.py, c13.py, mir.py", "regex-syntax (group participation)"]
