"""C06 - rendering places every schema component where the documented rules say (structural clauses).
R06.1 section -> processor wiring; R06.2 slot tables; R06.3 PEP 440 dispatch; R06.4 label tables (shared with C07);
R06.5 unset contributes nothing; R06.6 tier inputs; R06.7 sibling tiers + preset coverage; R06.8 normalize + local sanitiser."""
import re
import core, mir, panics, tables

SV = "<impl std::convert::From<crate::version::zerv::core::Zerv> for crate::version::semver::core::SemVer>::from"
PV = "<impl std::convert::From<crate::version::zerv::core::Zerv> for crate::version::pep440::core::PEP440>::from"

def section_wiring(F, rep, f, short, want):
    """want: [(processor suffix, schema getter)] in order"""
    calls = []
    for bi, t in f.calls():
        c = mir.callee(t) or ""
        m = c.rsplit("::", 1)[-1]
        if m in ("process_core", "process_extra_core", "process_build"):
            src = []
            for o in mir.trace_op(f, t[2][1], transparent=mir.TRANSPARENT):
                if o.kind == "call": src.append((mir.callee(o.fn.blocks[o.data]["t"]) or "").rsplit("::", 1)[-1])
            calls.append((bi, m, src))
    got = [(m, s) for bi, m, s in calls]
    dom = mir.dominators(f)
    ordered = all(calls[i][0] in dom.get(calls[i + 1][0], ()) for i in range(len(calls) - 1))
    if got == [(p, [g]) for p, g in want] and ordered:
        rep.ok("R06.1", "%s: core()->process_core, extra_core()->process_extra_core, build()->process_build, in this order" % short, sample=str(got), nontrivial_key=short)
    else:
        rep.bad("R06.1", "section-wiring:" + short, "%s feeds its section processors as %s (ordered=%s), expected %s" % (short, got, ordered, want), f.where())

def check(F, rep, tier):
    sv = F.find(SV); pv = F.find(PV)
    if not rep.anchor("R06.1", "<SemVer as From<Zerv>>::from", sv) or not rep.anchor("R06.1", "<PEP440 as From<Zerv>>::from", pv):
        return core.finish(rep, explanation=EXPL)
    sv, pv = sv[0], pv[0]
    rep.fn_seen(sv, pv)
    want = [("process_core", "core"), ("process_extra_core", "extra_core"), ("process_build", "build")]
    section_wiring(F, rep, sv, "SemVer", want)
    section_wiring(F, rep, pv, "PEP440", want)
    # schema order: every section processor walks `components` once, front to back, and emits only inside that walk
    EMIT = ("process_secondary_var", "add_flattened_to_prerelease", "add_flattened_to_build", "add_flattened_to_local", "add_to_local_if_valid",
            "process_epoch", "process_prerelease", "process_post", "process_dev")
    n_proc = 0
    for pat in ("semver::from_zerv::<impl crate::version::semver::core::SemVer>::process_", "pep440::from_zerv::<impl crate::version::pep440::core::PEP440>::process_"):
        for nm in ("core", "extra_core", "build"):
            g = [x for x in F.find(pat + nm) if x.kind != "closure" and x.path.endswith("process_" + nm)]
            if not rep.anchor("R06.1", pat.split("::")[0] + " process_" + nm, g): continue
            g = g[0]; n_proc += 1; rep.fn_seen(g)
            nexts = [(bi, t) for bi, t in g.calls() if (mir.callee(t) or "").endswith("as std::iter::Iterator>::next")]
            short = pat.split("::")[0] + "::process_" + nm
            if len(nexts) == 0:
                # an iterator pipeline consumed by for_each / try_for_each / fold / collect: order-preserving unless reversed or sorted
                cons = [(bi, t) for bi, t in g.calls() if any((mir.callee(t) or "").endswith(x) for x in ("Iterator::for_each", "Iterator::try_for_each", "Iterator::fold", "Iterator::try_fold", "Iterator::collect"))]
                names = [mir.callee(t) or "" for bi, t in g.calls()]
                reorder = [c for c in names if any(c.endswith(x) for x in ("Iterator::rev", "::sort", "::sort_by", "::sort_by_key", "::sort_unstable", "::reverse", "Iterator::max_by", "Iterator::min_by"))]
                over_param = any((c.endswith("::iter") or c.endswith("::into_iter")) and any(o.kind == "param" and o.data == 2 for o in mir.trace_op(g, t[2][0])) for (bi, t), c in zip(list(g.calls()), names))
                if len(cons) == 1 and over_param and not reorder:
                    rep.ok("R06.1", "%s: one front-to-back iterator pipeline over `components`, consumed by %s" % (short, (mir.callee(cons[0][1]) or "").rsplit("::", 1)[-1]), nontrivial_key="order:" + short)
                elif reorder:
                    rep.bad("R06.1", "schema-order:" + short, "%s re-orders the section's components (%s)" % (short, [c.rsplit("::", 1)[-1] for c in reorder]), g.where())
                else:
                    rep.undecided("R06.1", "schema-order-shape:" + short, "%s walks its components in a form this rule does not evaluate" % short, g.where())
                continue
            if len(nexts) != 1:
                rep.bad("R06.1", "schema-order:" + short, "%s has %d iterator loops, expected one walk over the section's components" % (short, len(nexts)), g.where()); continue
            nb, nt = nexts[0]
            ity = (nt[1].get("targs") or [""])[0]
            direct = re.match(r"^std::slice::Iter<'_, crate::version::zerv::components::Component>$", ity) or re.match(r"^std::iter::Enumerate<std::slice::Iter<'_, crate::version::zerv::components::Component>>$", ity)
            src_ok = False
            for bi, t in g.calls():
                c = mir.callee(t) or ""
                if c.endswith("::into_iter") or c.endswith("::iter"):
                    if any(o.kind == "param" and o.data == 2 for o in mir.trace_op(g, t[2][0])): src_ok = True
            fwd = mir.reachable(g, nb)
            inloop = {b for b in fwd if nb in mir.reachable(g, b) and b != nb} | {nb}
            outside = [(bi, (mir.callee(t) or "").rsplit("::", 1)[-1]) for bi, t in g.calls() if (mir.callee(t) or "").rsplit("::", 1)[-1] in EMIT and bi not in inloop]
            if direct and src_ok and not outside:
                rep.ok("R06.1", "%s: one front-to-back walk over `components` (%s), all emits inside it" % (short, ity.split("<")[0]), nontrivial_key="order:" + short)
            else:
                rep.bad("R06.1", "schema-order:" + short, "%s does not emit in schema order: iterator %s (plain slice walk: %s, over the components parameter: %s), emits outside the walk: %s" % (short, ity, bool(direct), src_ok, outside), g.where())
    rep.floor("R06.1", "section processors", n_proc, 6)
    # ---- R06.2 slot tables ------------------------------------------------------------------------------
    pc = [f for f in F.find("semver::from_zerv::<impl crate::version::semver::core::SemVer>::process_core")]
    if rep.anchor("R06.2", "SemVer::process_core", pc):
        f = pc[0]; rep.fn_seen(f)
        slots = {}
        for bi, si, st in f.stmts():
            if st[0] == "=" and len(st[1]) > 1:
                fl = [e[2] for e in st[1][1:] if not isinstance(e, str) and e[0] == "f"]
                if fl and fl[-1] in ("major", "minor", "patch") and st[1][0] == 1:
                    for d, pol, dd in mir.guards_of(f, bi):
                        if isinstance(pol, tuple) and pol[0] == "vals" and len(pol[1]) == 1 and not pol[3]:
                            slots[next(iter(pol[1]))] = fl[-1]
        lt3 = any(d[0] == "bin" and d[1] == "Lt" and mir.const_of(d[3]) == 3 and pol is True for bi, si, st in f.stmts() if st[0] == "=" and len(st[1]) > 1 and st[1][0] == 1 for d, pol, dd in mir.guards_of(f, bi))
        if slots == {0: "major", 1: "minor", 2: "patch"} and lt3: rep.ok("R06.2", "SemVer core: integer #0/#1/#2 -> major/minor/patch under count < 3", nontrivial_key="slots")
        else: rep.bad("R06.2", "semver-slots", "SemVer core slot table is %s (count < 3 guard: %s), expected {0: major, 1: minor, 2: patch}" % (slots, lt3), f.where())
        # counter discipline: the slot counter starts at 0 and only ever grows by 1, right after a slot write
        cnt = None
        for bi, si, st in f.stmts():
            if st[0] == "=" and st[2][0] == "bin" and st[2][1] == "Lt" and st[2][3][0] == "c" and st[2][3][1].get("v") == 3:
                # the compared operand is a copy of the counter local
                src = st[2][2][1]
                for b2, s2, st2 in f.stmts():
                    if st2[0] == "=" and st2[1] == src and st2[2][0] == "use" and st2[2][1][0] in ("cp", "mv") and len(st2[2][1][1]) == 1: cnt = st2[2][1][1][0]
        if cnt is None: rep.undecided("R06.2", "unrecognised-shape:slot-counter", "the count < 3 test's counter local was not found", f.where())
        else:
            writes = []
            for bi, si, st in f.stmts():
                if st[0] == "=" and st[1] == [cnt]:
                    rvv = st[2]
                    if rvv[0] == "use" and rvv[1][0] == "c": kind = ("const", rvv[1][1].get("v"))
                    elif rvv[0] == "use" and rvv[1][0] in ("mv", "cp"):
                        # moved out of a checked add of the counter itself and 1
                        kind = ("other", str(rvv[1][1]))
                        base = rvv[1][1][0]
                        for b2, s2, st2 in f.stmts():
                            if st2[0] == "=" and st2[1] == [base] and st2[2][0] == "bin" and st2[2][1] in ("AddWithOverflow", "Add", "AddUnchecked") and st2[2][2][0] in ("cp", "mv") and st2[2][2][1] == [cnt] and st2[2][3][0] == "c" and st2[2][3][1].get("v") == 1:
                                kind = ("inc", 1)
                    elif rvv[0] == "bin" and rvv[1] in ("Add", "AddUnchecked") and rvv[2][1] == [cnt] and rvv[3][0] == "c" and rvv[3][1].get("v") == 1: kind = ("inc", 1)
                    else: kind = ("other", str(rvv)[:60])
                    guarded = any(d[0] == "bin" and d[1] == "Lt" and mir.const_of(d[3]) == 3 and pol is True for d, pol, dd in mir.guards_of(f, bi))
                    writes.append((bi, kind, guarded))
            badw = [w for w in writes if not (w[1] == ("const", 0) and w[0] == 0) and not (w[1] == ("inc", 1) and w[2])]
            incs = [w for w in writes if w[1] == ("inc", 1)]
            if badw or len(incs) != 1: rep.bad("R06.2", "slot-counter-writes", "the major/minor/patch slot counter is written other than by `= 0` at entry and one `+= 1` under count < 3: %s" % [(b, k) for b, k, g in (badw or writes)], f.where())
            else: rep.ok("R06.2", "slot counter: initialised to 0, incremented by 1 only after a slot write (under count < 3)", sample=str(writes), nontrivial_key="counter")
        # the rest goes to the pre-release list
        fi = mir.inlined(F, f, depth=4, ok=lambda F_, caller, cp, g: g is not None and g.kind != "closure" and "semver::from_zerv" in cp)
        def _push_fields(fn_, t):
            out = set()
            for o in mir.trace_op(fn_, t[2][0]):
                if o.fields(): out.add(o.fields()[-1])
            for o in mir.trace_op(fn_, t[2][0], transparent=()):
                if o.kind == "call" and (mir.callee(fn_.blocks[o.data]["t"]) or "").endswith("get_or_insert_with"):
                    for o2 in mir.trace_op(fn_, fn_.blocks[o.data]["t"][2][0], transparent=()):
                        if o2.fields(): out.add(o2.fields()[-1])
            return out
        to_pre = any("pre_release" in _push_fields(fi, t) for bi, t in fi.calls() if (mir.callee(t) or "").endswith("Vec::<T, A>::push") or (mir.callee(t) or "").endswith("::extend"))
        if to_pre: rep.ok("R06.2", "remaining core components are pushed to the pre-release identifiers")
        else: rep.bad("R06.2", "semver-core-rest", "non-integer / extra core components are not added to the pre-release identifiers", f.where())
    ppc = [f for f in F.find("pep440::from_zerv::<impl crate::version::pep440::core::PEP440>::process_core")]
    if rep.anchor("R06.2", "PEP440::process_core", ppc):
        rep.fn_seen(ppc[0])
        f = mir.inlined(F, ppc[0], depth=4)          # helpers spliced in: what matters is where values are pushed
        def push_field(t):
            out = set()
            for o in mir.trace_op(f, t[2][0]):
                if o.fields(): out.add(o.fields()[-1])
            for o in mir.trace_op(f, t[2][0], transparent=()):
                if o.kind == "call" and (mir.callee(f.blocks[o.data]["t"]) or "").endswith("get_or_insert_with"):
                    for o2 in mir.trace_op(f, f.blocks[o.data]["t"][2][0], transparent=()):
                        if o2.fields(): out.add(o2.fields()[-1])
            return out
        pushes = [push_field(t) for bi, t in f.calls() if (mir.callee(t) or "").endswith("Vec::<T, A>::push")]
        rel = any("release" in x for x in pushes)
        loc = any("local" in x for x in pushes)
        if rel and loc: rep.ok("R06.2", "PEP 440 core: integers pushed to release, everything else to the local segment", nontrivial_key="pcore")
        else: rep.bad("R06.2", "pep440-core", "PEP 440 core placement changed (release push: %s, local fallback: %s)" % (rel, loc), f.where())
    # ---- R06.3 PEP 440 extra_core dispatch ------------------------------------------------------------------
    pe = [f for f in F.find("pep440::from_zerv::<impl crate::version::pep440::core::PEP440>::process_extra_core")]
    if rep.anchor("R06.3", "PEP440::process_extra_core", pe):
        f = pe[0]; rep.fn_seen(f)
        tab = {}
        for bi, t in f.calls():
            m = (mir.callee(t) or "").rsplit("::", 1)[-1]
            if m.startswith("process_") or m == "add_to_local_if_valid":
                v = None
                for d, pol, dd in mir.guards_of(f, bi):
                    if d[0] == "discr" and "components::Var" in str(d[2]) and isinstance(pol, tuple) and pol[0] == "in" and len(pol[1]) == 1: v = next(iter(pol[1]))
                tab[v] = m
        want3 = {"Epoch": "process_epoch", "PreRelease": "process_prerelease", "Post": "process_post", "Dev": "process_dev"}
        for v, m in want3.items():
            if tab.get(v) == m: rep.ok("R06.3", "Var::%s -> %s" % (v, m), nontrivial_key=v)
            else: rep.bad("R06.3", "pep440-dispatch:" + v, "PEP 440 places Var::%s with %s, expected %s" % (v, tab.get(v), m), f.where())
        # each slot processor sets its own label and number together
        for nm, lab, num in (("process_post", "post_label", "post_number"), ("process_dev", "dev_label", "dev_number")):
            g = [x for x in F.find("pep440::from_zerv::<impl crate::version::pep440::core::PEP440>::" + nm)]
            if g:
                w = set()
                for bi, si, st in g[0].stmts():
                    if st[0] == "=" and len(st[1]) > 1 and st[1][0] == 1:
                        fl = [e[2] for e in st[1][1:] if not isinstance(e, str) and e[0] == "f"]
                        if fl: w.add(fl[-1])
                if w == {lab, num}: rep.ok("R06.3", "%s writes exactly %s and %s" % (nm, lab, num), nontrivial_key=nm)
                else: rep.bad("R06.3", "slot-writes:" + nm, "%s writes %s, expected {%s, %s}" % (nm, sorted(w), lab, num), g[0].where())
    # ---- R06.4 label tables ----------------------------------------------------------------------------------------
    tables.label_tables(F, rep, "R06.4")
    # ---- R06.5 unset contributes nothing ------------------------------------------------------------------------------
    rv = F.fn("crate::version::zerv::components::Var::resolve_value")
    if rep.anchor("R06.5", "Var::resolve_value", rv):
        bad = []
        for g in [rv] + F.children(rv.path):
            for bi, t in g.calls():
                c = mir.callee(t) or ""
                if any(c.endswith(x) for x in ("::unwrap_or", "::unwrap_or_default", "::unwrap_or_else", "::get_or_insert", "::get_or_insert_with")):
                    src = mir.trace_op(g, t[2][0])
                    if any("vars" in o.path_str() or (o.kind == "param" and o.data == 2) for o in src): bad.append("%s bb%d %s" % (g.where(), bi, c.rsplit("::", 1)[-1]))
        if bad: rep.bad("R06.5", "default-for-unset", "an unset variable is replaced by a default inside resolve_value (%s): it would contribute to the output" % bad, rv.where())
        else: rep.ok("R06.5", "no default is substituted for an unset vars field in Var::resolve_value", nontrivial_key="nodefault")
    # each Var variant reads its own ZervVars field only (helper getters followed): a fallback to another field would make an unset variable contribute
    if rv is not None:
        rv = mir.inlined(F, rv, depth=2, ok=lambda F_, c_, cp, g_: g_ is not None and g_.kind != "closure" and cp.startswith("crate::version::zerv::components::"))     # resolve_raw_value(..) style split is seen through
        def reads_of(g, depth=0):
            out = set()
            for bi in range(len(g.blocks)):
                b = g.blocks[bi]
                if b.get("cleanup"): continue
                out |= set(re.findall(r"\['f', \d+, '([a-z_]+)', 'crate::version::zerv::vars::ZervVars'\]", str(b).replace('"', "'")))
                t = b["t"]
                c = mir.callee(t) if t[0] == "call" else None
                if c and c.startswith("crate::version::zerv::vars::") and depth < 4:
                    h = F.fn(c)
                    if h is not None:
                        out |= reads_of(h, depth + 1)
                        for ch in F.children(h.path): out |= reads_of(ch, depth + 1)
            return out
        tab = {}
        for bi in range(len(rv.blocks)):
            b = rv.blocks[bi]
            if b.get("cleanup"): continue
            fields = set(re.findall(r"\['f', \d+, '([a-z_]+)', 'crate::version::zerv::vars::ZervVars'\]", str(b).replace('"', "'")))
            t = b["t"]
            c = mir.callee(t) if t[0] == "call" else None
            if c and c.startswith("crate::version::zerv::vars::"):
                h = F.fn(c)
                if h is not None:
                    fields |= reads_of(h)
                    for ch in F.children(h.path): fields |= reads_of(ch)
            if not fields: continue
            vs = [next(iter(pol[1])) for d, pol, dd in mir.guards_of(rv, bi) if d[0] == "discr" and "components::Var" in str(d[2]) and isinstance(pol, tuple) and pol[0] == "in" and len(pol[1]) == 1]
            for v in vs[-1:]: tab.setdefault(v, set()).update(fields)
            if not vs: tab.setdefault("<unguarded>", set()).update(fields)
        def snake(n): return re.sub(r"(?<!^)([A-Z])", r"_\1", n).lower()
        def expected(v):
            if v == "Timestamp": return {"bumped_timestamp", "last_timestamp"}      # documented: ts() uses the current commit's time, else the tag's
            if v == "Custom": return {"custom"}
            sn = snake(v)
            if sn.endswith("_short"): sn = sn[:-6]
            return {sn}
        rep.floor("R06.5", "Var variants with a ZervVars read in resolve_value", len(tab), 19)
        for v in sorted(tab):
            if tab[v] == expected(v): rep.ok("R06.5", "Var::%s reads only vars.%s" % (v, sorted(tab[v])), nontrivial_key="own:" + v)
            else: rep.bad("R06.5", "foreign-field:" + v, "Var::%s resolves from vars.%s, expected only %s: with its own field unset it would still contribute" % (v, sorted(tab[v]), sorted(expected(v))), rv.where())
    # ---- R06.6 tier inputs --------------------------------------------------------------------------------------------------
    sw = F.fn("crate::schema::presets::ZervSchemaPreset::schema_with_zerv")
    if rep.anchor("R06.6", "ZervSchemaPreset::schema_with_zerv", sw):
        cg = mir.CallGraph(F)
        reach = [F.fns[p] for p in cg.closure([sw.path], generic=False) if p in F.fns and p.startswith("crate::schema::")]
        rep.fn_seen(*reach)
        read = set()
        for g in reach:
            for bi, si, st in g.stmts():
                for m in re.finditer(r"\['f', \d+, '([a-z_]+)', 'crate::version::zerv::vars::ZervVars'\]", str(st).replace('"', "'")):
                    read.add(m.group(1))
        allowed = {"dirty", "distance", "pre_release", "post"}
        if read and read <= allowed: rep.ok("R06.6", "tier selection reads only %s of ZervVars" % sorted(read), nontrivial_key="tierin")
        elif not read: rep.bad("R06.6", "below-floor:tier-inputs", "no ZervVars reads found in the tier selection (rule blind)", sw.where())
        else: rep.bad("R06.6", "tier-extra-input:" + ",".join(sorted(read - allowed)), "the smart presets' tier depends on ZervVars.%s (allowed: dirty, distance, pre_release, post)" % sorted(read - allowed), sw.where())
    # ---- R06.7 sibling tiers + coverage ----------------------------------------------------------------------------------------
    tables.smart_tiers(F, rep, "R06.7")
    import c13
    cg = mir.CallGraph(F)
    ok, detail = c13.q_preset_coverage(F, cg, rep)
    if ok: rep.ok("R06.7", "all presets handled: " + detail, nontrivial_key="coverage")
    else: rep.bad("R06.7", "preset-coverage", "preset coverage broken: " + detail, None)
    # ---- R06.8 -----------------------------------------------------------------------------------------------------------------------
    rets = mir.trace_place(pv, [0], transparent=())
    if rets and all(o.kind == "call" and (mir.callee(pv.blocks[o.data]["t"]) or "").endswith("PEP440::normalize") for o in rets):
        rep.ok("R06.8", "<PEP440 as From<Zerv>>::from returns normalize(..)", nontrivial_key="norm")
    else: rep.bad("R06.8", "no-normalize", "PEP 440 conversion does not end in normalize(): %r" % rets, pv.where())
    san_calls = {(mir.callee(t) or "").rsplit("::", 1)[-1] for bi, t in pv.calls() if "utils::sanitize::Sanitizer::" in (mir.callee(t) or "")}
    if san_calls == {"uint", "pep440_local_str"}: rep.ok("R06.8", "PEP 440 conversion uses the uint and pep440_local_str sanitisers", nontrivial_key="psan")
    else: rep.bad("R06.8", "pep440-sanitisers", "PEP 440 conversion builds sanitisers %s, expected {uint, pep440_local_str}" % sorted(san_calls), pv.where())
    san_calls = {(mir.callee(t) or "").rsplit("::", 1)[-1] for bi, t in sv.calls() if "utils::sanitize::Sanitizer::" in (mir.callee(t) or "")}
    if san_calls == {"uint", "semver_str"}: rep.ok("R06.8", "SemVer conversion uses the uint and semver_str sanitisers", nontrivial_key="ssan")
    else: rep.bad("R06.8", "semver-sanitisers", "SemVer conversion builds sanitisers %s, expected {uint, semver_str}" % sorted(san_calls), sv.where())
    # which sanitiser's output decides "this component is an integer": the value parsed for a core number must have been resolved
    # with the integer sanitiser (uint), otherwise '#42' or '(2024)' count as integers after the text sanitiser strips them
    for root, short, sinks in ((sv, "SemVer", ("major", "minor", "patch")), (pv, "PEP440", ("release",))):
        f = mir.inlined(F, root, depth=6, ok=lambda F_, caller, cp, g: g is not None and g.kind != "closure" and "from_zerv" in cp)
        n = 0
        for bi, t in f.calls():
            if not (mir.callee(t) or "").endswith("core::str::<impl str>::parse"): continue
            ty = (t[1].get("targs") or ["?"])[0]
            if ty not in ("u32", "u64", "u16", "u8", "usize"): continue
            sk = set()
            for s_ in mir.forward_sinks(f, t[3][0], limit=400):
                if s_[0] == "write": sk.add(s_[1][-1])
                elif s_[0] == "callarg" and (s_[1] or "").endswith("Vec::<T, A>::push"):
                    for o in mir.trace_op(f, f.blocks[s_[3]]["t"][2][0]):
                        if o.fields(): sk.add(o.fields()[-1])
            if not (sk & set(sinks)): continue
            # the parsed text: the result of resolve_value(.., sanitizer)
            ctors = set()
            for kind, data in mir.deep_origins(f, t[2][0]):
                if kind == "call" and data.isdigit() and f.blocks[int(data)]["t"][0] == "call":
                    t2 = f.blocks[int(data)]["t"]
                    if (mir.callee(t2) or "").endswith("::resolve_value") and len(t2[2]) >= 3:
                        for k2, d2 in mir.deep_origins(f, t2[2][2]):
                            if k2 == "call" and d2.isdigit() and f.blocks[int(d2)]["t"][0] == "call":
                                c3 = mir.callee(f.blocks[int(d2)]["t"]) or ""
                                if c3.startswith("crate::utils::sanitize::Sanitizer::") and c3.rsplit("::", 1)[-1] != "sanitize": ctors.add(c3.rsplit("::", 1)[-1])
            n += 1
            site = "%s bb%d line %s" % (f.where(), bi, f.blocks[bi]["line"])
            if ctors == {"uint"}: rep.ok("R06.8", "%s: the number written to %s is parsed from a value resolved with Sanitizer::uint()" % (short, sorted(sk & set(sinks))), sample=site, nontrivial_key="intsan%s%d" % (short, bi))
            elif ctors: rep.bad("R06.8", "integer-classified-with:%s:%s" % (short, "+".join(sorted(ctors))), "%s decides that a core component is an integer on text produced by Sanitizer::%s instead of the integer sanitiser: text that only becomes digits after sanitising (e.g. '#42') is placed as a number" % (short, sorted(ctors)), site)
            else: rep.undecided("R06.8", "integer-classification:" + short, "cannot relate the parsed text to a resolve_value(.., sanitizer) call", site)
        rep.floor("R06.8", "core-number parses in %s" % short, n, 1)
    # ---- R06.10 the tier builders of the two preset families are siblings: same extra-core list per tier -----------------------------
    tiers = {}
    for p_, g_ in F.fns.items():
        m_ = re.search(r"ZervSchemaPreset::(standard|calver)_base(_[a-z_]*)?_schema$", p_)
        if not m_ or g_.kind == "closure": continue
        fam, tier = m_.group(1), (m_.group(2) or "")
        gi_ = g_
        for bi, t in gi_.calls():
            if (mir.callee(t) or "").endswith("ZervSchema::new_with_precedence") and len(t[2]) >= 3:
                def gen(a):
                    ns = sorted({(mir.callee(o.fn.blocks[o.data]["t"]) or "?").rsplit("::", 1)[-1] if o.kind == "call" else o.kind for o in mir.trace_op(gi_, a)})
                    return "+".join(ns)
                tiers.setdefault(tier, {})[fam] = (gen(t[2][0]), gen(t[2][1]), g_)
    ntier = 0
    for tier, fams in sorted(tiers.items()):
        if set(fams) != {"standard", "calver"}: continue
        ntier += 1
        (sc, se, sg), (cc, ce, cgf) = fams["standard"], fams["calver"]
        if se != ce: rep.bad("R06.10", "tier-extra-core-differs:" + (tier or "_base"), "the %s tier prints %s after the core in the standard family but %s in the calver family: the same repository state shows different pre-release / post / dev parts depending on the family (a dev number appears in a post-only tier, or the reverse)" % (tier.strip("_") or "base", se, ce), cgf.where())
        else: rep.ok("R06.10", "tier %s: both families use %s" % (tier.strip("_") or "base", se), nontrivial_key="tier" + tier)
    rep.floor("R06.10", "preset tiers present in both families", ntier, 4)
    import c17 as _c17
    _c17.naive_datetime_rule(F, rep, "R06.10")          # a set ts(..) component contributes its value for every pattern validation accepts
    core.borrow(F, rep, "c01", "C01", "R06.10", ("R01.6:",), "the PEP 440 release is never empty: a 0 is supplied exactly when no core component produced a number")
    # ---- R06.9 a custom component is looked up by its dotted key, part by part ------------------------------------------------
    gcv = F.fn("crate::version::zerv::vars::ZervVars::get_custom_value")
    if rep.anchor("R06.9", "ZervVars::get_custom_value", gcv):
        rep.fn_seen(gcv)
        gi = mir.inlined(F, gcv, depth=3)
        nlook = 0
        ALLOWED = ("::split", "::into_iter", "Iterator>::next", "::by_ref", "::iter", "::as_str", "Deref>::deref", "::borrow", "::as_ref")
        for h in [gi] + F.children(gcv.path):
            for bi, t in h.calls():
                c = mir.callee(t) or ""
                last = c.rsplit("::", 1)[-1]
                if not ("Value::" in c and last in ("get", "pointer", "pointer_mut", "get_mut", "index")): continue
                nlook += 1
                site = "%s bb%d line %s" % (h.where(), bi, h.blocks[bi]["line"])
                if last.startswith("pointer"):
                    rep.bad("R06.9", "custom-lookup:pointer", "custom(..) keys are resolved with JSON-pointer syntax: '/', '~0', '~1' and numeric parts get a meaning the dotted lookup does not have (a set key is not found, or an array element is injected)", site)
                    continue
                if len(t[2]) < 2: continue
                via = []; split_dot = False; from_key = False
                for k, d in mir.deep_origins(h, t[2][1], stop=()):
                    if k == "call" and d.isdigit() and h.blocks[int(d)]["t"][0] == "call":
                        t2 = h.blocks[int(d)]["t"]; c2 = mir.callee(t2) or ""
                        if c2.endswith("::split") and any(mir.const_arg(h, a) == "." for a in t2[2]): split_dot = True
                        if not any(c2.endswith(x) for x in ALLOWED): via.append(c2.rsplit("::", 1)[-1])
                    elif k == "param": from_key = True
                if via: rep.undecided("R06.9", "custom-lookup:derived-key", "the looked-up name is computed through %s: whether it still equals the dotted part is not decided" % sorted(set(via)), site)
                elif split_dot and from_key: rep.ok("R06.9", "each part of key.split('.') is looked up verbatim with Value::get", sample=site, nontrivial_key="lookup%d" % bi)
                elif from_key: rep.ok("R06.9", "the key is looked up verbatim", sample=site, nontrivial_key="lookupv%d" % bi)
                else: rep.undecided("R06.9", "custom-lookup:unknown-key", "cannot relate the looked-up name to the key parameter", site)
        if nlook == 0: rep.undecided("R06.9", "custom-lookup:none", "no serde_json::Value lookup found in get_custom_value", gcv.where())
    import tables as _t
    _t.sanitizer_presets(F, rep, "R06.8", ("semver_str", "pep440_local_str", "uint", "key"))
    core.borrow(F, rep, "c07", "C07", "R06.8", ("R07.3b:narrowing-cast",), "rendered numbers are the schema's numbers (no truncating cast on the rendering path)")
    core.borrow(F, rep, "c16", "C16", "R06.8", ("R16.4:uint-guard",), "the integer sanitiser returns digits only (so 'integer-valued' means what the schema position rule assumes)")
    return core.finish(rep, explanation=EXPL, assumptions=ASSUME, trusted=TRUST)

EXPL = ("Structural clauses of the placement rules read from the MIR of the two From<Zerv> impls and the presets: sections are fed to their processors in schema order; SemVer core slots 0/1/2 are major/minor/patch under count < 3 and the rest "
        "becomes pre-release identifiers; PEP 440 integers go to release, Epoch/PreRelease/Post/Dev to their slot processors (each writing exactly its label and number), everything else to the lower-cased local segment; writer labels and "
        "reader keys agree; no default is substituted for an unset variable; the smart presets read only dirty, distance, pre_release and post; the standard and calver tier trees are isomorphic and all 22 presets are handled; the PEP 440 "
        "conversion ends in normalize(). Not decided: the full placement function on arbitrary schemas as a value equation.")
ASSUME = []
TRUST = ["rustc MIR", "zfacts", "rules/c06.py, tables.py"]
