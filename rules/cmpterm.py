"""Comparator extraction (DESIGN E2 'comparator terms'): an Ord::cmp body is turned into a list of lexicographic
stages; each stage is a decision table over (a) discriminants of Option/enum operands and (b) primitive comparison
atoms `cmp(a, b)`.  Tables are compared with a reference by exhaustive enumeration of the (finite) abstract outcomes:
values are touched only through comparisons, so the finite set of orderings is the whole input space of a stage."""
import itertools
import mir

ORD = ("Less", "Equal", "Greater")

class Unrecognised(Exception):
    pass

class Mismatch(Exception):
    """a recognised construct that positively deviates from the reference (wrong orientation, different indices, ...)"""
    pass

def _short(c):
    c = str(c)
    if "impl std::cmp::Ord for " in c: return "Ord<" + c.split("impl std::cmp::Ord for ", 1)[1].split(">::", 1)[0].split("::")[-1] + ">::cmp"
    if " as std::cmp::Ord>::cmp" in c: return "Ord<" + c.split(" as std::cmp::Ord")[0].lstrip("<").split("::")[-1] + ">::cmp"
    return c.split("::")[-1] if "::" in c else c

CAPMAP = {}      # closure path -> {captured variable name: normalised text of the value it captured in its parent}

def note_captures(clo_expr, parent_fn):
    """remember what a then_with closure captured: a local holding `self.pre_number.unwrap_or(0)` is that expression, not its name"""
    if not (isinstance(clo_expr, tuple) and clo_expr[0] == "closure"): return
    m = CAPMAP.setdefault(clo_expr[1], {})
    for name, val in clo_expr[2]:
        if isinstance(val, tuple) and val != ("param", 1) and val != ("param", 2):
            t = nrm(val, parent_fn)
            if t not in ("self", "other"): m[str(name).lstrip("*&")] = t

def nrm(e, fn):
    """normalised text of a symbolic expression: self/other naming, references and derefs dropped"""
    if not isinstance(e, tuple): return str(e)
    k = e[0]
    if k == "param":
        if fn.kind != "closure": return {1: "self", 2: "other"}.get(e[1], "p%d" % e[1])
        return "arg%d" % e[1]
    if k == "field":
        if e[1] == ("param", 1) and fn.kind == "closure":
            nm_ = str(e[2]).replace("(*", "").replace(")", "").lstrip("*&")
            return CAPMAP.get(fn.path, {}).get(nm_, nm_)
        return nrm(e[1], fn) + "." + str(e[2])
    if k == "as": return nrm(e[1], fn) + "#" + e[2]
    if k == "const": return repr(e[1])
    if k == "agg":
        name = e[1].split("::")[-1]
        if not e[2]: return name
        # tuple of references used by `match (&a, &b)`
        return "%s(%s)" % (name, ",".join(nrm(v, fn) for f, v in e[2]))
    if k == "call":
        c = str(e[1])
        if any(x in c for x in ("ops::Deref>::deref", "convert::AsRef", "Option::<T>::as_ref", "Option::<T>::as_deref", "borrow::Borrow", "Vec::<T, A>::as_slice", "String::as_str")):
            return nrm(e[2][0], fn)
        return "%s(%s)" % (_short(c), ",".join(nrm(a, fn) for a in e[2]))
    if k == "cast": return nrm(e[1], fn)
    if k == "index": return nrm(e[1], fn) + "[i]"
    if k == "discr": return "discr(%s)" % nrm(e[1], fn)
    return mir.show(e)

def _inline_ok(F, caller, cp, g):
    """loop-free local helpers are spliced into the comparator (compare_core(self, other), self.compare_pre(other), ...);
    helpers with loops stay opaque atoms and are checked by the loop recognisers"""
    if g is None or g.kind == "closure" or not cp.startswith("crate::") or g.d.get("impl_trait") or mir.has_loop(g) or len(g.blocks) >= 200: return False
    # a helper that walks its arguments with iterator adaptors is a loop in disguise: it stays an atom for the loop recognisers
    if any((mir.callee(t) or "").startswith("std::iter::Iterator::") or "as std::iter::Iterator>::" in (mir.callee(t) or "") for bi, t in g.calls()): return False
    return True

def ordering_valued(e):
    """a symbolic expression whose value is an Ordering (so that tests on it can be evaluated through value())"""
    if not isinstance(e, tuple): return False
    if e[0] == "agg" and str(e[1]).startswith("std::cmp::Ordering::"): return True
    if e[0] == "call":
        c = str(e[1])
        return is_cmp_callee(c) or c.endswith("Ordering::then_with") or c.endswith("Ordering::then") or c.endswith("Ordering::reverse")
    return False

class Model:
    """decision table of one loop-free function returning Ordering (or bool / Option<Ordering>)"""
    def __init__(self, F, fn):
        self.F = F
        fn = mir.inlined(F, fn, depth=3, ok=_inline_ok)
        self.fn = fn
        if mir.has_loop(fn): raise Unrecognised("loop in %s" % fn.path)
        self.rows = []
        try:
            sps = mir.sym_paths(fn, limit=20000)
        except mir.TooManyPaths:
            raise Unrecognised("too many paths in %s" % fn.path)
        for sp in sps:
            conds = []
            for d, (rel, vals), b in sp.conds:
                c = self.cond(d, rel, vals, b)
                if c is not None: conds.append(c)
            self.rows.append((conds, sp.ret(), sp))
    def cond(self, d, rel, vals, b):
        fn = self.fn
        # `!x` tested: the test on x with the other outcome; a constant condition has been used for feasibility already
        flipped = False
        while isinstance(d, tuple) and d[0] == "un" and d[1] == "Not":
            d = d[2]; flipped = not flipped
        if flipped and set(vals) <= {0, 1}:
            rel = "ne" if rel == "eq" else "eq"
        if d[0] == "const": return None
        if d[0] == "discr":
            desc = mir.describe_discr(fn, b)
            st = fn.blocks[b]["s"][-1] if fn.blocks[b]["s"] else None
            vlist = st[2][3] if st and st[0] == "=" and st[2][0] == "discr" and len(st[2]) > 3 else (desc[3] if desc[0] == "discr" else [])
            vmap = {v: n for v, n in vlist}
            names = tuple(sorted(vmap.get(v, str(v)) for v in vals))
            inner = d[1]
            if inner[0] == "agg" and str(inner[1]).startswith("std::cmp::Ordering::"): return None     # constant: feasibility already applied
            if inner[0] == "call" and is_cmp_callee(inner[1]) and not (inner[2] and inner[2][0][0] == "agg"):
                return ("atom", atom_key(inner, fn), rel, names, inner)
            if ordering_valued(inner) or (inner[0] == "call" and self.F.fn(str(inner[1])) is not None and self.F.fn(str(inner[1])).d.get("ret") == "std::cmp::Ordering"):
                return ("ordval", "ordval@%d" % b, rel, names, inner)
            return ("discr", nrm(inner, fn), rel, names, tuple(sorted(vmap.values())))
        # `if ord != Ordering::Equal { return ord }` and friends
        if d[0] == "call" and isinstance(d[1], str) and (d[1].endswith("::ne") or d[1].endswith("::eq")) and len(d[2]) == 2:
            a, c2 = d[2]
            def ordconst(x):
                if x[0] == "agg" and str(x[1]).startswith("std::cmp::Ordering::"): return str(x[1]).rsplit("::", 1)[-1]
                if x[0] == "promoted":
                    v = mir.promoted_value(self.F, {"k": "promoted", "of": x[1], "idx": x[2]})
                    if v is not None and v[0] == "agg" and str(v[1]).startswith("std::cmp::Ordering::"): return str(v[1]).rsplit("::", 1)[-1]
                return None
            k = ordconst(c2); e = a
            if k is None: k = ordconst(a); e = c2
            local_ord = isinstance(e, tuple) and e[0] == "call" and self.F.fn(str(e[1])) is not None and self.F.fn(str(e[1])).d.get("ret") == "std::cmp::Ordering"
            if k is not None and (ordering_valued(e) or local_ord):
                truth = not ((rel == "eq" and 0 in vals) or (rel == "ne" and 0 not in vals))
                is_eq = d[1].endswith("::eq")
                holds_equal = truth if is_eq else not truth       # the tested value equals k
                return ("ordval", "ordval@%d" % b, "eq" if holds_equal else "ne", (k,), e)
        if d[0] == "call" and isinstance(d[1], str) and set(vals) <= {0, 1}:
            truth = not ((rel == "eq" and 0 in vals) or (rel == "ne" and 0 not in vals))
            c = d[1]
            # presence tests on an Option input: the same atom as matching on it
            if (c.endswith("Option::<T>::is_some") or c.endswith("Option::<T>::is_none")) and d[2]:
                present = truth if c.endswith("is_some") else not truth
                return ("discr", nrm(d[2][0], fn), "eq", ("Some",) if present else ("None",), ("None", "Some"))
            # `a == b` / `a != b` on two inputs: the comparison atom tested against Equal
            if (c.endswith("::eq") or c.endswith("::ne")) and "PartialEq" in c and len(d[2]) == 2:
                full = fn.blocks[d[3]]["t"][1].get("full") or "" if len(d) > 3 and isinstance(d[3], int) else ""
                ty = full.split(" as ", 1)[0].lstrip("<").split("::")[-1] if " as " in full else "?"
                key = "Ord<%s>::cmp(%s,%s)" % (ty, nrm(d[2][0], fn), nrm(d[2][1], fn))
                equal = truth if c.endswith("::eq") else not truth
                return ("eqatom", key, "eq" if equal else "ne", ("Equal",), d)
            # any other boolean question put to the operands is an input the reference comparator does not have
            return ("boolatom", "%s(%s)" % (_short(c), ",".join(nrm(a, fn) for a in d[2])), "eq", ("true",) if truth else ("false",), ("false", "true"))
        if d[0] == "bin" and set(vals) <= {0, 1} and d[1] in ("Ne", "Eq", "BitXor") and all(isinstance(x, tuple) and x[0] == "call" and isinstance(x[1], str) for x in (d[2], d[3])):
            # `if left_numeric != right_numeric`: a boolean combination of two boolean questions, each an atom of its own
            truth = not ((rel == "eq" and 0 in vals) or (rel == "ne" and 0 not in vals))
            ka = "%s(%s)" % (_short(d[2][1]), ",".join(nrm(a, fn) for a in d[2][2]))
            kb = "%s(%s)" % (_short(d[3][1]), ",".join(nrm(a, fn) for a in d[3][2]))
            return ("boolbin", "%s(%s,%s)" % (d[1], ka, kb), "eq", ("true",) if truth else ("false",), ("Eq" if d[1] == "Eq" else "Ne", ka, kb))
        if d[0] == "bin" and set(vals) <= {0, 1}:
            # a numeric test on the operands (a slice pattern's length test, an index comparison): a question the reference does not ask
            truth = not ((rel == "eq" and 0 in vals) or (rel == "ne" and 0 not in vals))
            return ("boolatom", "%s(%s,%s)" % (d[1], nrm(d[2], fn), nrm(d[3], fn)), "eq", ("true",) if truth else ("false",), ("false", "true"))
        raise Unrecognised("condition %s in %s" % (mir.show(d), fn.path))

def _tuple_types(callee, n):
    """element type names of `<(A, B, C) as Ord>::cmp`"""
    c = str(callee)
    i = c.find("<("); out = []
    if i >= 0:
        depth = 0; cur = ""
        for ch in c[i + 2:]:
            if ch in "<([": depth += 1
            if ch in ">)]":
                if depth == 0: break
                depth -= 1
            if ch == "," and depth == 0: out.append(cur.strip()); cur = ""
            else: cur += ch
        if cur.strip(): out.append(cur.strip())
    out = [x.split("::")[-1] for x in out]
    return out if len(out) == n else ["?"] * n

def is_cmp_callee(c):
    c = str(c)
    return c.endswith("::cmp") or c.endswith("Ord>::cmp")

def atom_key(call, fn):
    return "%s(%s,%s)" % (_short(call[1]), nrm(call[2][0], fn), nrm(call[2][1], fn))

class Comparator:
    def __init__(self, F, fn):
        self.F = F; self.fn = fn
        self.models = {}
        self.atoms = {}      # key -> callee (full)
        self.discrs = {}     # key -> domain tuple
        self.calls = {}      # key -> (callee path, [arg texts])
        self.stages = self.flatten(self.model(fn))
    def model(self, fn):
        if fn.path not in self.models:
            m = Model(self.F, fn); self.models[fn.path] = m
            for conds, ret, sp in m.rows:
                for c in conds:
                    if c[0] in ("discr", "boolatom"): self.discrs[c[1]] = c[4]
                    elif c[0] == "boolbin": self.discrs[c[4][1]] = ("false", "true"); self.discrs[c[4][2]] = ("false", "true")
                    elif c[0] == "atom": self.atoms[c[1]] = str(c[4][1])
                    elif c[0] == "eqatom": self.atoms[c[1]] = "eq"
        return self.models[fn.path]
    def flatten(self, m):
        """list of stages: (model, expr) pairs; a then_with chain in a single-row function becomes several stages"""
        if len(m.rows) == 1 and not m.rows[0][0]:
            return self.flat_expr(m, m.rows[0][1])
        return [("model", m, None)]
    def flat_expr(self, m, e):
        if e[0] == "call" and str(e[1]).endswith("Ordering::then_with"):
            left = self.flat_expr(m, e[2][0])
            clo = e[2][1]
            if clo[0] != "closure": raise Unrecognised("then_with with a non-closure")
            note_captures(clo, m.fn)
            c = self.F.fn(clo[1])
            return left + self.flatten(self.model(c))
        if e[0] == "call" and str(e[1]).endswith("Ordering::then"):
            return self.flat_expr(m, e[2][0]) + self.flat_expr(m, e[2][1])
        return [("expr", m, e)]
    # -- evaluation under an assignment of abstract outcomes -------------------------------
    def value(self, m, e, asg):
        if e[0] == "agg" and e[1].startswith("std::cmp::Ordering::"): return e[1].rsplit("::", 1)[-1]
        if e[0] == "call":
            c = str(e[1])
            if c.endswith("Ordering::then_with") or c.endswith("Ordering::then"):
                v = self.value(m, e[2][0], asg)
                if v != "Equal": return v
                if e[2][1][0] == "closure":
                    note_captures(e[2][1], m.fn)
                    return self.eval_model(self.model(self.F.fn(e[2][1][1])), asg)
                return self.value(m, e[2][1], asg)
            if c.endswith("Ordering::reverse"):
                return {"Less": "Greater", "Greater": "Less", "Equal": "Equal"}[self.value(m, e[2][0], asg)]
            if is_cmp_callee(c):
                a0, a1 = e[2][0], e[2][1]
                if a0[0] == "agg" and a1[0] == "agg" and a0[1] == "tuple" and a1[1] == "tuple" and len(a0[2]) == len(a1[2]):
                    # (a, b, c).cmp(&(x, y, z)) is the lexicographic composition of the element comparisons
                    full = m.fn.blocks[e[3]]["t"][1].get("full") if len(e) > 3 and isinstance(e[3], int) else c
                    tys = _tuple_types(full or c, len(a0[2]))
                    for (f0, x), (f1, y), ty in zip(a0[2], a1[2], tys):
                        k = "Ord<%s>::cmp(%s,%s)" % (ty, nrm(x, m.fn), nrm(y, m.fn)); self.atoms[k] = "<%s as std::cmp::Ord>::cmp" % ty
                        v = asg[k]
                        if v != "Equal": return v
                    return "Equal"
                k = atom_key(e, m.fn); self.atoms[k] = c
                return asg[k]
            if self.F.fn(c) is not None and self.F.fn(c).d.get("ret") == "std::cmp::Ordering":
                k = "%s(%s)" % (c.rsplit("::", 1)[-1], ",".join(nrm(a, m.fn) for a in e[2]))
                self.calls[k] = c; self.atoms[k] = c
                return asg[k]
        raise Unrecognised("return expression %s in %s" % (mir.show(e)[:80], m.fn.path))
    def eval_model(self, m, asg):
        hits = []
        for conds, ret, sp in m.rows:
            ok = True
            for c in conds:
                key = c[1]
                if c[0] == "boolbin":
                    va, vb = asg[c[4][1]] == "true", asg[c[4][2]] == "true"
                    v = "true" if ((va == vb) if c[4][0] == "Eq" else (va != vb)) else "false"
                else:
                    v = self.value(m, c[4], asg) if c[0] == "ordval" else asg[key]
                inset = v in c[3]
                if (c[2] == "eq") != inset: ok = False; break
            if ok: hits.append(ret)
        vals = {self.value(m, r, asg) for r in hits}
        if len(vals) != 1: raise Unrecognised("%d rows match an assignment in %s" % (len(hits), m.fn.path))
        return vals.pop()
    def eval_stage(self, st, asg):
        kind, m, e = st
        return self.eval_model(m, asg) if kind == "model" else self.value(m, e, asg)
    def stage_keys(self, st):
        """atoms and discriminants a stage can consult (discovered by dry evaluation)"""
        keys = {}
        class Probe(dict):
            def __missing__(s, k):
                keys[k] = True
                raise KeyError(k)
        # iterate: evaluate with growing assignment until no KeyError
        known = {}
        for _ in range(200):
            try:
                # try all combos of currently known keys to discover more
                doms = [self.domain(k) for k in known]
                found_new = False
                for combo in itertools.product(*doms) if known else [()]:
                    asg = Probe(zip(known.keys(), combo))
                    try: self.eval_stage(st, asg)
                    except KeyError as ke:
                        k = ke.args[0]
                        if k not in known: known[k] = True; found_new = True; break
                if not found_new: break
            except Unrecognised: raise
        return list(known)
    def domain(self, k):
        if k in self.discrs: return self.discrs[k]
        return ORD
    def stage_table(self, st):
        keys = self.stage_keys(st)
        tab = {}
        for combo in itertools.product(*[self.domain(k) for k in keys]):
            asg = dict(zip(keys, combo))
            try: tab[combo] = self.eval_stage(st, asg)
            except KeyError: tab[combo] = "?"
        return keys, tab

def compare_stage(cmpr, st, spec_keys, spec_fn):
    """spec_keys: {key: domain}; spec_fn(asg)->Ordering.  Returns (differences, evaluations): empty = equal as functions
    over every assignment of abstract outcomes to the reference inputs; a stage that consults anything else is a difference."""
    diffs = []
    allk = list(spec_keys)
    n = 0
    class A(dict):
        def __missing__(s, k): raise Unrecognised("the code consults %s, which is not an input of the reference comparator" % k)
    for combo in itertools.product(*[spec_keys[k] for k in allk]):
        asg = dict(zip(allk, combo))
        want = spec_fn(asg)
        try: got = cmpr.eval_stage(st, A(asg))
        except Unrecognised as e:
            diffs.append(str(e)); break
        n += 1
        if got != want:
            diffs.append("for %s the code gives %s, the reference %s" % (asg, got, want))
            if len(diffs) > 2: break
    return diffs, n

def compare_whole(cmpr, specs):
    """Shape-independent comparison of the WHOLE comparator with the lexicographic composition of the reference stages.
    specs: [(name, {key: domain}, fn)].  Because the reference is lexicographic it suffices to (a) vary each stage's inputs
    exhaustively while all other stages are held Equal, and (b) for every pair i<j check that a non-Equal outcome of stage i
    wins over every outcome of stage j.  Returns (differences, evaluations)."""
    whole = ("model", cmpr.model(cmpr.fn), None)
    allkeys = {}
    for name, keys, fn in specs: allkeys.update(keys)
    def base():
        a = {}
        for k, dom in allkeys.items(): a[k] = "Equal" if "Equal" in dom else dom[0]
        return a
    def ref(asg):
        for name, keys, fn in specs:
            v = fn(asg)
            if v != "Equal": return v
        return "Equal"
    class A(dict):
        def __missing__(s, k): raise Unrecognised("the code consults %s, which is not an input of the reference comparator" % k)
    # the base assignment must make every reference stage Equal
    b0 = base()
    for name, keys, fn in specs:
        if fn(b0) != "Equal":
            # pick discriminants so that the stage is Equal (None/None)
            pass
    diffs = []; n = 0
    def run(asg, why):
        nonlocal n
        n += 1
        want = ref(asg)
        try: got = cmpr.eval_stage(whole, A(asg))
        except Unrecognised as e:
            diffs.append(str(e)); return False
        if got != want:
            diffs.append("%s: for %s the code gives %s, the reference %s" % (why, {k: v for k, v in asg.items() if v != b0.get(k)}, got, want))
        return True
    for i, (name, keys, fn) in enumerate(specs):
        ks = list(keys)
        for combo in itertools.product(*[keys[k] for k in ks]):
            asg = base(); asg.update(zip(ks, combo))
            if not run(asg, "stage '%s'" % name): return diffs, n
            if len(diffs) > 3: return diffs, n
    for i, (ni, ki, fi) in enumerate(specs):
        ksi = list(ki)
        for ci in itertools.product(*[ki[k] for k in ksi]):
            ai = base(); ai.update(zip(ksi, ci))
            if fi(ai) == "Equal": continue
            for j in range(i + 1, len(specs)):
                nj, kj, fj = specs[j]
                ksj = list(kj)
                for cj in itertools.product(*[kj[k] for k in ksj]):
                    asg = dict(ai); asg.update(zip(ksj, cj))
                    if fj(asg) == "Equal": continue
                    if not run(asg, "priority '%s' over '%s'" % (ni, nj)): return diffs, n
                    if len(diffs) > 3: return diffs, n
    return diffs, n

# ---------------------------------------------------------------------------
# loop recognisers

def slice_lex(F, fn):
    """compare_*(left, right): for i in 0..min(len l, len r) { match l[i].cmp(&r[i]) {Equal=>continue, o=>return o} }; l.len().cmp(&r.len())
    -> dict(elem=callee of the element comparison, tail='len' ) or raises Unrecognised"""
    if not mir.has_loop(fn): raise Unrecognised("no loop in %s" % fn.path)
    import panics
    elem = None; in_loop_ret = False; tail = None; bound = None
    for bi, t in fn.calls():
        c = mir.callee(t) or ""
        if is_cmp_callee(c):
            a, b = t[2][0], t[2][1]
            da = describe_elem(fn, a); db = describe_elem(fn, b)
            if da and db:
                if da[0] == "elem" and db[0] == "elem":
                    if (da[1], db[1]) != (1, 2): raise Mismatch("element comparison is not oriented left,right: %s" % ((da, db),))
                    if da[2] != db[2]: raise Mismatch("elements compared at different indices")
                    elem = c; bound = da[3]
                    # the loop returns this result when it is not Equal
                    dest = t[3][0]
                    for b2, b in enumerate(fn.blocks):
                        tt = b["t"]
                        if tt[0] == "switch" and tt[1][0] in ("cp", "mv"):
                            d = mir.describe_discr(fn, b2)
                            if d[0] == "discr" and d[1][0] == dest:
                                eq_targets = [tb for v, tb in tt[2] if v == 0]
                                other = tt[3]
                                # on the non-Equal edge the function returns that value
                                r = mir.reachable(fn, other)
                                for rb in mir.return_blocks(fn):
                                    if rb in r:
                                        for o in mir.trace_place(fn, [0], transparent=()):
                                            if o.kind == "call" and o.data == bi: in_loop_ret = True
                elif da[0] == "len" and db[0] == "len":
                    if (da[1], db[1]) != (1, 2): raise Mismatch("length comparison is not oriented left,right")
                    tail = "len"
                elif da[0] == "padded" and db[0] == "padded":
                    if (da[1], db[1]) != (1, 2): raise Mismatch("padded comparison is not oriented left,right")
                    if da[2] != db[2]: raise Mismatch("padded elements at different indices")
                    elem = c; bound = ("padded", da[3], db[3], da[4])
                    dest = t[3][0]
                    for o in mir.trace_place(fn, [0], transparent=()):
                        if o.kind == "call" and o.data == bi: in_loop_ret = True
    if elem is None: raise Unrecognised("no element comparison found in %s" % fn.path)
    consts = []
    for o in mir.trace_place(fn, [0], transparent=()):
        if o.kind == "agg":
            rv = mir.rv_at(fn, *o.data)
            consts.append(rv[1].get("variant"))
        elif o.kind == "call":
            c = mir.callee(fn.blocks[o.data]["t"]) or ""
            if not is_cmp_callee(c): raise Unrecognised("returns the result of %s" % c)
        else:
            consts.append("?%r" % o)
    return {"elem": elem, "in_loop_return": in_loop_ret, "tail": tail, "bound": bound, "const_returns": sorted(set(consts))}

def describe_elem(fn, op):
    """('elem', param, index_key, bound) for &p[i]; ('len', param) for &p.len(); ('padded', param, index_key, pad, bound)"""
    import panics
    os = mir.trace_op(fn, op, transparent=())
    if len(os) != 1: return None
    o = os[0]
    if o.kind == "param":
        idx = [e for e in o.path if not isinstance(e, str) and e[0] == "i"]
        if idx:
            d = panics.describe_len(fn, ["cp", [idx[0][1]]])
            return ("elem", o.data, panics.okey(fn, ["cp", [idx[0][1]]]), d)
    if o.kind == "call":
        t = fn.blocks[o.data]["t"]; c = mir.callee(t) or ""
        if c.endswith("::len"):
            src = mir.trace_op(fn, t[2][0], transparent=())
            if len(src) == 1 and src[0].kind == "param" and not src[0].fields(): return ("len", src[0].data)
        if c.endswith("Option::<T>::unwrap_or"):
            pad = mir.const_arg(fn, t[2][1])
            # get(i).copied()
            chain, fin = mir.chain(fn, t[2][0], maxlen=4)
            names = [n for n, _, _ in chain]
            if names and any(n.endswith("::get") for n in names):
                gt = [tt for n, _, tt in chain if n.endswith("::get")][0]
                src = mir.trace_op(fn, gt[2][0], transparent=())
                if len(src) == 1 and src[0].kind == "param":
                    return ("padded", src[0].data, panics.okey(fn, gt[2][1]), pad, panics.describe_len(fn, gt[2][1]))
    return None
