"""A tiny abstract interpreter / path enumerator for the two private helpers of python/zerv/__init__.py (C18 R18.3, R18.4).
The file is parsed with `ast` and never imported or executed: the helpers are evaluated over ABSTRACT values (None, True,
False, 'some other value'), which is the whole input space that matters for "None/False add nothing, True adds the flag,
anything else adds flag and str(value)".  Constructs outside the small subset raise Unsupported (-> no verdict)."""
import ast

class Unsupported(Exception):
    pass

NONE = ("none",)
def B(x): return ("bool", bool(x))
def other(tag): return ("other", tag)

class _Return(Exception):
    def __init__(self, v): self.v = v
class _Continue(Exception): pass
class _Break(Exception): pass

class Interp:
    def __init__(self, funcs, max_steps=2000):
        self.funcs = funcs; self.steps = 0; self.max_steps = max_steps

    def call(self, name, args, kwargs=None, depth=0):
        fn = self.funcs.get(name)
        if fn is None or depth > 4: raise Unsupported("call of %s" % name)
        params = [a.arg for a in fn.args.posonlyargs + fn.args.args]
        env = {}
        for p, v in zip(params, args): env[p] = v
        for k, v in (kwargs or {}).items(): env[k] = v
        defaults = fn.args.defaults
        for p, d in zip(params[len(params) - len(defaults):], defaults):
            if p not in env: env[p] = self.expr(d, {}, depth)
        for a, d in zip(fn.args.kwonlyargs, fn.args.kw_defaults):
            if a.arg not in env and d is not None: env[a.arg] = self.expr(d, {}, depth)
        missing = [p for p in params if p not in env]
        if missing: raise Unsupported("missing arguments %s" % missing)
        try:
            self.block(fn.body, env, depth)
        except _Return as r:
            return r.v
        return NONE

    def block(self, stmts, env, depth):
        for s in stmts:
            self.steps += 1
            if self.steps > self.max_steps: raise Unsupported("too many steps")
            self.stmt(s, env, depth)

    def truth(self, v):
        if v == NONE: return False
        if isinstance(v, tuple) and v[0] == "bool": return v[1]
        if isinstance(v, list): return len(v) > 0
        if isinstance(v, tuple) and v[0] == "const": return bool(v[1])
        raise Unsupported("truth value of %r" % (v,))

    def stmt(self, s, env, depth):
        if isinstance(s, ast.Expr):
            if isinstance(s.value, ast.Constant): return          # docstring
            self.expr(s.value, env, depth); return
        if isinstance(s, ast.If):
            if self.truth(self.expr(s.test, env, depth)): self.block(s.body, env, depth)
            else: self.block(s.orelse, env, depth)
            return
        if isinstance(s, ast.Return):
            raise _Return(self.expr(s.value, env, depth) if s.value is not None else NONE)
        if isinstance(s, ast.Continue): raise _Continue()
        if isinstance(s, ast.Break): raise _Break()
        if isinstance(s, ast.Pass): return
        if isinstance(s, (ast.Assign, ast.AnnAssign)):
            val = self.expr(s.value, env, depth)
            targets = s.targets if isinstance(s, ast.Assign) else [s.target]
            for t in targets: self.assign(t, val, env)
            return
        if isinstance(s, ast.AugAssign) and isinstance(s.op, ast.Add) and isinstance(s.target, ast.Name):
            cur = env.get(s.target.id); val = self.expr(s.value, env, depth)
            if isinstance(cur, list) and isinstance(val, list): cur.extend(val); return
            raise Unsupported("augmented assignment")
        if isinstance(s, ast.For):
            it = self.expr(s.iter, env, depth)
            if not isinstance(it, list): raise Unsupported("for over a non-list")
            for item in list(it):
                self.assign(s.target, item, env)
                try: self.block(s.body, env, depth)
                except _Continue: continue
                except _Break: break
            else:
                self.block(s.orelse, env, depth)
            return
        raise Unsupported("statement %s" % type(s).__name__)

    def assign(self, t, val, env):
        if isinstance(t, ast.Name): env[t.id] = val; return
        if isinstance(t, (ast.Tuple, ast.List)):
            if not (isinstance(val, tuple) and val and val[0] == "tuple" and len(val[1]) == len(t.elts)): raise Unsupported("unpacking")
            for e, v in zip(t.elts, val[1]): self.assign(e, v, env)
            return
        raise Unsupported("assignment target")

    def expr(self, e, env, depth):
        if isinstance(e, ast.Name):
            if e.id in env: return env[e.id]
            raise Unsupported("name %s" % e.id)
        if isinstance(e, ast.Constant):
            if e.value is None: return NONE
            if isinstance(e.value, bool): return B(e.value)
            return ("const", e.value)
        if isinstance(e, ast.List):
            out = []
            for x in e.elts:
                if isinstance(x, ast.Starred):
                    v = self.expr(x.value, env, depth)
                    if not isinstance(v, list): raise Unsupported("star of non-list")
                    out.extend(v)
                else: out.append(self.expr(x, env, depth))
            return out
        if isinstance(e, ast.Tuple):
            return ("tuple", [self.expr(x, env, depth) for x in e.elts])
        if isinstance(e, ast.UnaryOp) and isinstance(e.op, ast.Not):
            return B(not self.truth(self.expr(e.operand, env, depth)))
        if isinstance(e, ast.BoolOp):
            vals = e.values
            if isinstance(e.op, ast.Or):
                last = None
                for x in vals:
                    last = self.expr(x, env, depth)
                    if self.truth(last): return last
                return last
            last = None
            for x in vals:
                last = self.expr(x, env, depth)
                if not self.truth(last): return last
            return last
        if isinstance(e, ast.IfExp):
            return self.expr(e.body if self.truth(self.expr(e.test, env, depth)) else e.orelse, env, depth)
        if isinstance(e, ast.Compare) and len(e.ops) == 1:
            l = self.expr(e.left, env, depth); r = self.expr(e.comparators[0], env, depth); op = e.ops[0]
            def pyval(a):
                if a == NONE: return (True, None)
                if isinstance(a, tuple) and a[0] == "bool": return (True, a[1])
                if isinstance(a, tuple) and a[0] == "const": return (True, a[1])
                return (False, None)
            if isinstance(op, (ast.Eq, ast.NotEq)) and pyval(l)[0] and pyval(r)[0]:
                eq = pyval(l)[1] == pyval(r)[1]
                return B(eq if isinstance(op, ast.Eq) else not eq)
            def same(a, b):
                # identity / equality between None, True, False and opaque values
                if a[0] == "other" or b[0] == "other":
                    if a == b: return True
                    if a[0] == "other" and b[0] == "other": raise Unsupported("comparison of two opaque values")
                    return False
                if isinstance(a, list) or isinstance(b, list): raise Unsupported("list comparison")
                return a == b
            if isinstance(op, (ast.Is, ast.Eq)):
                if isinstance(op, ast.Eq) and (l[0] == "other" or r[0] == "other") and l != r and not (l == NONE or r == NONE): raise Unsupported("== on an opaque value")
                return B(same(l, r))
            if isinstance(op, (ast.IsNot, ast.NotEq)):
                if isinstance(op, ast.NotEq) and (l[0] == "other" or r[0] == "other") and l != r and not (l == NONE or r == NONE): raise Unsupported("!= on an opaque value")
                return B(not same(l, r))
            if isinstance(op, (ast.In, ast.NotIn)) and ((isinstance(r, tuple) and r[0] == "tuple") or isinstance(r, list)):
                items = r[1] if isinstance(r, tuple) else r
                # `x in (a, b)` is `x is a or x == a or ...`: equality, so 0 == False and '' != None
                def eq(a, b):
                    if pyval(a)[0] and pyval(b)[0]: return pyval(a)[1] == pyval(b)[1]
                    return same(a, b)
                hit = any(eq(l, x) for x in items)
                return B(hit if isinstance(op, ast.In) else not hit)
            raise Unsupported("comparison")
        if isinstance(e, ast.Call):
            f = e.func
            if isinstance(f, ast.Name):
                if f.id == "isinstance" and len(e.args) == 2:
                    v = self.expr(e.args[0], env, depth)
                    kinds = e.args[1].elts if isinstance(e.args[1], ast.Tuple) else [e.args[1]]
                    names = [k.id for k in kinds if isinstance(k, ast.Name)]
                    if len(names) != len(kinds): raise Unsupported("isinstance class")
                    res = False
                    for nme in names:
                        if nme == "bool": res = res or (isinstance(v, tuple) and v[0] == "bool")
                        elif nme == "list": res = res or isinstance(v, list)
                        elif nme in ("str", "int", "float"):
                            if isinstance(v, tuple) and v[0] == "other": raise Unsupported("isinstance(%s) of an opaque value" % nme)
                            if nme == "int" and isinstance(v, tuple) and v[0] == "bool": res = True
                            if isinstance(v, tuple) and v[0] == "const" and isinstance(v[1], {"str": str, "int": int, "float": float}[nme]): res = True
                        else: raise Unsupported("isinstance class %s" % nme)
                    return B(res)
                if f.id == "str" and len(e.args) == 1: return ("str", self.expr(e.args[0], env, depth))
                if f.id == "list" and len(e.args) <= 1:
                    if not e.args: return []
                    v = self.expr(e.args[0], env, depth)
                    if isinstance(v, list): return list(v)
                    raise Unsupported("list() of a non-list")
                if f.id in self.funcs:
                    args = [self.expr(a, env, depth) for a in e.args]
                    kwargs = {k.arg: self.expr(k.value, env, depth) for k in e.keywords if k.arg}
                    return self.call(f.id, args, kwargs, depth + 1)
                raise Unsupported("call of %s" % f.id)
            if isinstance(f, ast.Attribute) and isinstance(f.value, ast.Name) and f.value.id in env and isinstance(env[f.value.id], list):
                lst = env[f.value.id]
                if f.attr == "append" and len(e.args) == 1: lst.append(self.expr(e.args[0], env, depth)); return NONE
                if f.attr == "extend" and len(e.args) == 1:
                    v = self.expr(e.args[0], env, depth)
                    if isinstance(v, tuple) and v[0] == "tuple": v = v[1]
                    if not isinstance(v, list): raise Unsupported("extend with a non-list")
                    lst.extend(v); return NONE
                if f.attr == "copy" and not e.args: return list(lst)
            raise Unsupported("call")
        raise Unsupported("expression %s" % type(e).__name__)

def extend_args_tokens(funcs, value):
    """tokens _extend_args(args=[], flags=[(FLAG, value)]) produces, and whether it returns the list it extended"""
    it = Interp(funcs)
    args = [("const", "SUB")]
    res = it.call("_extend_args", [args, [("tuple", [("const", "FLAG"), value])]])
    same = res is args
    out = res if isinstance(res, list) else None
    return out, same

# ---------------------------------------------------------------------------
def paths(stmts):
    """[(conds, end)] for a statement list: conds = [(test node, truth)], end = ('return', node) | ('raise', node) | ('fall', None)"""
    out = []
    def go(rest, conds):
        if not rest: out.append((conds, ("fall", None))); return
        s = rest[0]
        if isinstance(s, ast.Return): out.append((conds, ("return", s))); return
        if isinstance(s, ast.Raise): out.append((conds, ("raise", s))); return
        if isinstance(s, ast.If):
            go(list(s.body) + list(rest[1:]), conds + [(s.test, True)])
            go(list(s.orelse) + list(rest[1:]), conds + [(s.test, False)])
            return
        if isinstance(s, (ast.For, ast.While, ast.Try, ast.With, ast.Match if hasattr(ast, "Match") else ast.With)):
            raise Unsupported("statement %s" % type(s).__name__)
        go(rest[1:], conds)
    go(list(stmts), [])
    return out
