"""Regenerates MANIFEST.json from the table below (run by hand after adding a rule module)."""
import json, os
V = os.path.dirname(os.path.dirname(os.path.abspath(__file__)))
props = [json.loads(l) for l in open(os.path.join(V, "properties.jsonl"))]

CLAIMS = {
 "C08": dict(
   technique="regular-language equivalence by DFA product (regex read from MIR constants) + MIR dataflow rules on the parser (origin tracing, error-propagation chains, guard sets)",
   text="Decides for ALL strings that the language the SemVer parser accepts (its regex, restricted by the numeric parses whose failure is propagated) equals SemVer 2.0.0 with optional v, against two independent oracles, with a shortest witness on failure; plus structural necessary conditions of 'loses nothing': unmodified haystack, no accept/reject path outside the regex, no constant fallback on numeric overflow, ASCII-digit classification, printer separators = parser literals, `check` uses the same parser. This is a static decision of those clauses, not of character-for-character reproduction as a value equality.",
   note="Trusted: rustc MIR/trait resolution, the zfacts exporter, regex-syntax/regex-automata determinisation, the oracle transcriptions (cross-checked against each other each run). Assumes regex::Regex implements its documented semantics and uN::from_str accepts exactly in-range ASCII digit runs.",
   ref="4/C08"),
}
CLAIMS["C09"] = dict(
   technique="regular-language equivalence by DFA product + MIR rules (error-propagation slices, path-enumerated decision tables for normalize / label tables / separator table)",
   text="Decides for ALL strings that the language the PEP 440 parser accepts equals Appendix B with ASCII case folding (two independent oracles, shortest witness on failure), and the structural necessary conditions of 'prints the normal form with every number preserved': no discarded ParseIntError, label table total on the regex's spellings with the PEP 440 mapping, every Ok passes normalize() whose implicit-number table is extracted, Display uses the normal-form separator/label/epoch table, `check` uses the same parser. Idempotence and 'normal form compares equal' are value laws and are not decided.",
   note="Trusted: rustc MIR, zfacts, regex-syntax/regex-automata, oracle transcriptions (cross-checked each run). Assumes regex and u32::from_str behave as documented.",
   ref="4/C09")
CLAIMS["C18"] = dict(
   technique="cross-language table agreement: Python ast extraction vs clap option tables read from derive-generated MIR (name, arity, value type, value domain), plus abstract interpretation of _extend_args over the value classes None/False/True/0/int/''/str and AST path enumeration of _run_zerv_command (the file is parsed, never imported)",
   text="Decides, for every keyword of the four Python functions (a finite set, enumerated completely), that the emitted flag is an option of that sub-command carrying the keyword's name, with matching arity, integer typing and a Literal domain contained in the option's accepted values; that each keyword is used exactly once; and that _extend_args computes 'None/False add nothing, True adds the flag, any other value (0 and the empty string included) adds the flag and str(value)' while _run_zerv_command returns result.stdout.strip() only on paths with returncode == 0 and raises on the others, however the two helpers are written. The Rust suite never looks at the Python file, and nothing is executed here either.",
   note="Trusted: rustc MIR of clap's derive expansion, python's ast, clap/subprocess semantics as documented. Not decided: that the spawned binary is the one built from /repo.",
   ref="4/C18")
CLAIMS["C14"] = dict(
   technique="effect confinement over the MIR call graph: clock / time-zone / hasher-seed / unordered-iteration / environment / thread effects located by resolved callee and type instantiation, with forward value-flow and dominating-guard checks at the allowed sites",
   text="Decides for every argument vector (all paths of the code, not one TZ/locale run) that the only wall-clock reads are Utc::now feeding the current_timestamp template variable or bumped_timestamp under dirty == Some(true); that no chrono zone other than Utc is instantiated anywhere; that hashers have fixed keys and no randomly ordered collection is iterated; that no environment variable is read in the pipelines and current_dir() is used only when no directory was given or to absolutise a relative path; no threads, no mutable statics. These are the code-shape causes of environment dependence; git's own environment dependence is outside the Rust source and is not decided.",
   note="Trusted: rustc MIR/trait resolution and type printing, zfacts. Assumes dependencies do not consult clock/TZ/env except through the visible calls.",
   ref="4/C14")
CLAIMS["C13"] = dict(
   technique="whole-program panic-site inventory over the MIR call graph (dyn fan-out, address-taken functions, generic dispatch into local trait impls) with per-site discharge by dominating-guard / provenance / path-sensitive arguments, plus who-may-call and dominance rules for stdout, exit and git error handling",
   text="Decides the code-shape part of 'never panics, never prints a result on failure': every reachable panic-capable construct (Assert terminators, unwrap/expect, explicit panics, byte/usize indexing, truncate, run-time fmt width, chrono Display) is discharged by a machine-checked argument on the current MIR or reported with its call path; stdout is touched only in run(); each write in run_with_args is dominated by the success edge of the pipeline whose payload it prints; the error arm prints to stderr and exits non-zero; tracing writes to stderr; every git invocation result is propagated or handled. This covers all argument vectors and all git failure points at once (the git layer is never executed by the offline suite). Panics inside dependencies and allocation failure are not decided.",
   note="Trusted: rustc MIR/trait resolution, zfacts, the recogniser library (rules/panics.py) and the 12-entry audited table whose structural requires are re-checked each run. Assumes dependencies honour their documented panic contracts.",
   ref="4/C13")
CLAIMS["C16"] = dict(
   technique="MIR guard-set and ordering rules on utils::sanitize: dominating character-class predicates, char_indices cut points, phase-order reachability, path-enumerated guard table for the integer sanitiser",
   text="Decides, for every input string and sanitiser setting, the structural clauses of the contract: only characters dominated by an ASCII-alphanumeric predicate (plus the separator/constants) are appended; every cut is on a character boundary and counts characters; phases run lowercase < replace < truncate < strip-zeros < trim on every path so each invariant is re-established after the last phase that can break it; the integer sanitiser returns non-empty only under all(is_ascii_digit) && !is_empty; zero stripping tests ASCII digits. Idempotence and maximal-run structure are value laws and are not decided.",
   note="Trusted: rustc MIR, zfacts, rules/san.py. Assumes std char predicates and char_indices have their documented meaning.",
   ref="4/C16")
CLAIMS["C01"] = dict(
   technique="must-pass-through (origin tracing) and who-may-read rules over the MIR of the resolvers and From<Zerv> impls, dominating-guard rules for identifier pushes, sanitiser character-class rule",
   text="Decides necessary conditions of well-formed output on all paths and for all 19 variable kinds x every schema position: every string the resolvers can return is a Sanitizer::sanitize result with the renderer's sanitizer; free-text fields are read only inside those resolvers on the rendering path; empty identifiers are never pushed; the sanitiser admits ASCII alphanumerics only. It does not decide that zerv's parser re-accepts the string or that re-rendering is the identity (value laws).",
   note="Trusted: rustc MIR, zfacts, rules/c01.py. Separator/Display agreement is decided under C08/C09.",
   ref="4/C01")
CLAIMS["C10"] = dict(
   technique="comparator-term extraction from MIR (then_with chains with closures inlined, decision tables by path enumeration, loop recogniser SliceLex) compared with the SemVer 2.0.0 reference on all abstract comparison outcomes",
   text="Decides the comparator as a term for ALL pairs/triples of versions: each lexicographic stage of <SemVer as Ord>::cmp equals the reference stage on every assignment of {Less,Equal,Greater} x Option/enum discriminants (the complete input space of a stage, since values are touched only through comparisons), with orientation and the callee of each atom; the identifier-list loop is SliceLex(element cmp over 0..min(len), then length); build metadata is never read; eq is cmp == Equal; tag selection uses this cmp. Totality, antisymmetry and transitivity then follow from the lexicographic-composition lemma - a pair/triple sample cannot establish them.",
   note="Trusted: rustc MIR, zfacts, rules/cmpterm.py. Assumes std Ord impls for u64/String/slices and Ordering::then_with have their documented semantics.",
   ref="4/C10")
CLAIMS["C11"] = dict(
   technique="comparator-term extraction from MIR compared with the PEP 440 key on all abstract outcomes; loop recogniser PaddedLex; finite table checks (label order is a strict total order)",
   text="Decides <PEP440 as Ord>::cmp as the six-stage lexicographic key of the statement (epoch, zero-padded release, pre with a<b<rc then number, post none-lowest, dev none-highest, local none-lowest) for all inputs, including implicit numbers read as 0 on both sides, the LocalSegment table (numeric below alphabetic, alphabetic lower-cased) and eq == (cmp == Equal). Spelling independence is decided in its structural part only (everything funnels into one struct; see C09); equality of concrete differently spelled inputs is a value law and is not decided.",
   note="Trusted: rustc MIR, zfacts, rules/cmpterm.py. Assumes std Ord impls and <[T] as Ord>::cmp semantics.",
   ref="4/C11")
CLAIMS["C17"] = dict(
   technique="table extraction from MIR (pattern constant -> strftime constant per guarded arm) judged through a semantic strftime map; origin tracing for the instant, the timestamp source and the calver core",
   text="Decides the structural clauses for all 16 patterns at once: each documented pattern has its own arm and its chrono format means the field and padding of the statement; the instant is built with DateTime::<Utc>::from_timestamp; the template function's compact table agrees; ts() reads bumped_timestamp then last_timestamp; calver_core is [YYYY, MM, DD, Patch]. Calendar arithmetic itself (chrono) and the tokenizer on composite patterns are not decided.",
   note="Trusted: rustc MIR, zfacts, the strftime semantic map in rules/c17.py.",
   ref="4/C17")
CLAIMS["C12"] = dict(
   technique="serde symmetry read from the MIR of the derive expansion (serialize_field / FIELDS / VARIANTS tables), must-pass-through and dominance rules for validate-before-render and validating setters, decision-table extraction for the section validators, validator-vs-resolver table comparison",
   text="Decides structural necessary conditions of losslessness and refusal for every object and schema: symmetric, unconditional serialisation of every type in Zerv's closure; the rendered object always comes from Zerv::new whose Ok is dominated by a successful validate(); schema parts are written only by validating setters; validate cannot return Ok without the emptiness test and all three section validators, whose rejection guards cover the placement rules; the validator's accepted ts() patterns are resolvable. Byte-identical re-emission, pipe == direct and ron's own behaviour are not decided.",
   note="Trusted: rustc MIR of serde's derive expansion, zfacts, rules/c12.py. Assumes serde derive's visitor assigns each named field to the field of that name and ron is a faithful serde format.",
   ref="4/C12")
CLAIMS["C05"] = dict(
   technique="decision-table extraction by path enumeration with symbolic evaluation over MIR (dispatch tables, sibling processors, reset table), dominance ordering of phases, arithmetic-assert inventory",
   text="Decides the structural clauses for every start version and flag combination at once: the default precedence constant, the 11-row level dispatch with same-name override/bump fields, agreement of the six numeric field processors (override sets, bump adds checked to old.unwrap_or(0) and then resets from its own level, writes only its own field), the reset table (strict >, numbers to 0, pre/post/dev to absent, no schema writes), index dispatch == name dispatch, rejection of all invalid targets, sorted specs, the phase order of to_zerv, and absence of unchecked bump arithmetic. The composed algebraic law on concrete values is not decided.",
   note="Trusted: rustc MIR, zfacts, rules/c05.py + mir.SymPath.",
   ref="4/C05")
CLAIMS["C06"] = dict(
   technique="table and wiring extraction from MIR (section -> processor, slot tables, enum dispatch), field-access sets for the tier inputs, truth-table comparison of the smart-preset decision trees (all 16 assignments)",
   text="Decides the structural placement clauses for every schema and assignment: sections reach their processors in order; SemVer slots 0/1/2 = major/minor/patch; PEP 440 dispatch of epoch/pre/post/dev to their slot processors; writer labels = reader keys; unset variables get no default; the smart presets read only dirty/distance/pre_release/post and their standard and calver decision trees equal the documented tier law on all 16 atom assignments; all 22 presets are handled; PEP 440 conversion ends in normalize(). The full placement function as a value equation is not decided.",
   note="Trusted: rustc MIR, zfacts, rules/c06.py, tables.py.",
   ref="4/C06")
CLAIMS["C07"] = dict(
   technique="label-table agreement, integer-width rules on every parse of the rendering paths, error-discipline rules on numeric parses, field-wiring extraction (origin tracing through closures) for both to_zerv conversions",
   text="Decides structural necessary conditions of faithful conversion: label writer/reader tables invert each other; no narrowing parse on the SemVer path; every u64->u32 parse on the infallible PEP 440 path is reported (5 recorded findings: values above u32::MAX are silently dropped/replaced/moved); no constant fallback for failed numeric parses; PEP 440 -> Zerv and SemVer -> Zerv wire each field to the variable of the same meaning; render and tag parsing share the From impls. Round trips and fixed points are value laws and are not decided.",
   note="Trusted: rustc MIR, zfacts, rules/c07.py. Five genuine defects of the no-silent-change clause are listed in known_findings.json (not repairable by a small patch: needs a fallible conversion API).",
   ref="4/C07")
CLAIMS["C04"] = dict(
   technique="constant-template reconstruction from MIR (symbolic string evaluation of String+&str / format_args / helper calls per path) with guards compared by truth table; guard-set, origin and who-writes rules for the branch-rule code; integer-width vs accepted-length comparison; complete decision table of FlowArgs::override_dirty by abstract evaluation of its symbolic paths over a finite domain (rules/absint.py)",
   text="Decides that the Tera templates flow assembles from constants equal the documented table for every option combination (patch / label / number / post / dev guards and contents per post mode, None otherwise, --post default), that 'prefix/*' keeps its separator and numbers are searched only after the prefix, that the first matching rule wins, that explicit flags beat rule values field by field, that the accepted hash length fits the parsing integer (recorded finding: 10 > 9 safe digits of u32) and that hash_int depends only on (value, length, allow_leading_zero) with fixed hasher keys; that the dirty flag handed on is the explicit flag, else tag mode and (dirty or distance > 0), on all 72 rows of override_dirty's table; that the rule list is stored as parsed and an unmatched branch resolves no rule. The composed result on concrete tags and hash_int's digit count are value laws and are not decided.",
   note="Trusted: rustc MIR, zfacts, rules/flowtpl.py. Assumes Tera's boolean operators and truthiness. One genuine defect (R04.5) is in known_findings.json.",
   ref="4/C04")
CLAIMS["C03"] = dict(
   technique="truth-table implications between reconstructed flow guards, dominance ordering in run_flow_pipeline, exhaustive comparison of 'bumped' against 'printed' over the extracted tier decision tree and override_dirty table",
   text="The ordering law itself (X.Y.Z < V < X.Y.(Z+1), strict growth) relates runtime values and is NOT decided. Decided are necessary conditions visible in code shape: no guard fires at a clean tag; a patch bump always carries a pre-release label (guard implication + validate() defaults the label and dominates bump construction); in every (mode, dirty, distance, tag shape, flag) case the label - and in commit mode the post number - that flow bumps is part of the tier the smart schema selects; commit-mode post grows by distance additively.",
   note="Trusted: rustc MIR, zfacts, rules/flowtpl.py, tables.py. Thin claim by design: breaking any of these four conditions breaks the law, but they do not imply it.",
   ref="4/C03")
CLAIMS["C15"] = dict(
   technique="sibling-implementation agreement over MIR: origin tracing of the context fields back to the same From<Zerv> conversions / Display helpers the formatters use, name-to-name wiring tables, registry table, guard-shape rules for the bounding functions",
   text="Decides that the template context and the formatters are siblings over the same conversions and helpers for every Zerv object: {{ semver }}/{{ pep440 }} stringify the formatter's own conversion of the unmodified object; part accessors use Display's helpers and feed the fields of the same name; docker = SemVer with '-' twice; 16 scalar variables wired name-to-name; six functions registered by name, sanitize presets mapped to the renderers' sanitisers; hash/hash_int/prefix/prefix_if have the guard shape of their contracts. Recomposition as a value equality and format_timestamp vs the calendar are not decided.",
   note="Trusted: rustc MIR, zfacts, rules/c15.py.",
   ref="4/C15")
CLAIMS["C02"] = dict(
   technique="wiring extraction by origin tracing (VcsData -> ZervVars, helpers -> VcsData), required/forbidden-token rules on the constant git argv of every invocation, source-of-walk and first-hit shape rules, polarity rule",
   text="THIN claim, stated as such: what git itself computes over runtime repositories (nearest tag, counts, dirtiness) cannot be decided from Rust source. Decided is the part that is in the Rust source and that the offline suite never executes (every git test needs Docker): field wiring on both sides of VcsData, NoTagsFound on the tagless path, the tokens of all 10 git invocations (incl. <tag>..HEAD and ^{commit}), the walked list = rev-list HEAD output restricted to tagged commits, return at first hit, tag chosen by max_by over the version orderings, dirty = !output.is_empty().",
   note="Trusted: rustc MIR, zfacts, rules/c02.py. Limitation accepted in DESIGN: replacing a git command by an equivalent one needs a re-audit of the argv table.",
   ref="4/C02")
REASONS = {}

def main():
    checks = []; na = []
    for p in props:
        pid = p["id"]
        if pid in CLAIMS and os.path.exists(os.path.join(V, "rules", pid.lower() + ".py")):
            c = CLAIMS[pid]
            checks.append({
                "property_id": pid,
                "quick_cmd": "bin/check %s --tier quick" % pid,
                "thorough_cmd": "bin/check %s --tier thorough" % pid,
                "evidence_file": "/verif/evidence/%s.json" % pid,
                "replay_cmd_template": "bin/check %s --explain {path}" % pid,
                "engine": "zfacts+rules",
                "level_claimed": {"category": "other", "text": c["text"], "design_ref": "DESIGN.md section " + c["ref"]},
                "level_note": c["note"],
                "technique": c["technique"],
            })
        else:
            na.append({"property_id": pid, "reason": REASONS.get(pid, "rule module not built yet in this commit (planned, DESIGN.md section 0); not claimed until it runs")})
    m = {
        "version": 1,
        "setup_cmd": "bin/setup",
        "hooks": {"guard": "zerv_verif", "enable": "none: the analysis reads /repo's unmodified sources through a rustc driver; no hooks exist",
                  "baseline_off_cmd": "bin/baseline /repo", "source_commits": [], "add_only": True},
        "engines": [
            {"name": "zfacts", "path": "engines/zfacts", "serves_properties": [c["property_id"] for c in checks], "kind_free_text": "rustc_private driver exporting MIR-lite facts (static)"},
            {"name": "rxlang", "path": "engines/rxlang", "serves_properties": ["C08", "C09"], "kind_free_text": "regular-language equivalence on determinised automata (static)"},
            {"name": "rules", "path": "rules", "serves_properties": [c["property_id"] for c in checks], "kind_free_text": "Python rule modules over the fact base: dominators, origin tracing, guard sets, tables"},
        ],
        "checks": checks,
        "not_applicable": na,
        "notes": "Family: static analysis only. Every check re-derives its facts from /repo's working tree (content-hashed cache). A violation is always a positively identified construct; a code shape a rule does not recognise gives a NOT-DECIDED line and is listed under coverage.undecided in the evidence (never an alarm). The thorough tier additionally asserts, on scratch copies, that every seeded property-breaking change is reported and every behaviour-preserving refactoring under fixtures/neutral leaves the check silent. Exit 2 = machinery broken (no VIOLATION line).",
    }
    json.dump(m, open(os.path.join(V, "MANIFEST.json"), "w"), indent=1)
    print("checks:", [c["property_id"] for c in checks], "n/a:", len(na))
main()
